#!/usr/bin/env python3
"""Regenerates the machine-made parts of DESIGN.md (between <!-- BEGIN:x --> / <!-- END:x --> markers):
 theorems  - per property, the theorems of coq/Properties/CXX.v
 seeded    - which check catches which seeded change (from seeded/*/meta.json)
 findings  - fixed defects and known findings (from known_findings.json)
"""
import json, os, re, glob

ROOT = os.path.dirname(os.path.dirname(os.path.abspath(__file__)))


def theorems():
    out = []
    for f in sorted(glob.glob(os.path.join(ROOT, "coq", "Properties", "C*.v"))):
        pid = os.path.basename(f)[:-2]
        src = open(f).read()
        names = re.findall(r"^Theorem\s+(\w+)", src, re.M)
        if not names:
            out.append("* **%s** - no theorem yet (placeholder)." % pid)
            continue
        out.append("* **%s** (%d): %s" % (pid, len(names), ", ".join("`%s`" % n for n in names)))
    return "\n".join(out)


def seeded():
    rows = ["| seed | property | change (one line) | confirmed | caught by | how |", "|---|---|---|---|---|---|"]
    for d in sorted(glob.glob(os.path.join(ROOT, "seeded", "*", "meta.json"))):
        m = json.load(open(d))
        chk = m.get("check", {})
        how = []
        for p, r in chk.items():
            for v in r.get("violations", [])[:1]:
                kind = re.search(r"replays/\w+?_(direct|corr|ocorr|proof|build)", v)
                k = kind.group(1) if kind else "?"
                how.append("%s: %s%s" % (p, {"direct": "failing input on the real code", "corr": "model/implementation differ", "ocorr": "oracle/model differ", "proof": "proof obligation broken", "build": "build"}.get(k, k),
                                          " (no failing input found)" if v.endswith("no-failing-input-found") else ""))
        desc = m.get("description", "").replace("|", "/")
        desc = re.sub(r"^Change:\s*", "", desc)
        rows.append("| %s | %s | %s | %s | %s | %s |" % (m.get("seed"), m.get("property"), desc[:160], "yes" if m.get("confirmed") else "NO",
                                                   ", ".join(m.get("detected_by", [])) or "MISSED", "; ".join(how)))
    return "\n".join(rows)


def findings():
    d = json.load(open(os.path.join(ROOT, "known_findings.json")))
    out = ["Known findings (open; printed as KNOWN-FINDING by the named property's check):", ""]
    for e in d["findings"]:
        out.append("* **%s %s** (%s; matcher %s%s): %s" % (e["property"], e["id"], e.get("site", ""), e["matcher"],
                                                           " " + e["suffix"] if e.get("suffix") else (" " + e["deviation"] if e.get("deviation") else ""), e["what"]))
    out += ["", "Repaired defects (one `fix:` commit each in /repo; a fixed entry suppresses nothing):", ""]
    for l in d.get("fixed", []):
        out.append("* " + l)
    return "\n".join(out)


def main():
    p = os.path.join(ROOT, "DESIGN.md")
    s = open(p).read()
    for name, fn in (("theorems", theorems), ("seeded", seeded), ("findings", findings)):
        b, e = "<!-- BEGIN:%s -->" % name, "<!-- END:%s -->" % name
        if b in s and e in s:
            s = s[:s.index(b) + len(b)] + "\n" + fn() + "\n" + s[s.index(e):]
    open(p, "w").write(s)


if __name__ == "__main__":
    main()
