ENTRY = {
    "harness": "c06",
    "driver": "_c06",
    "models": ["Json/CycleModel.v (hand-written model of the encoder's cycle detection: json/codec.go enterCycle/leaveCycle as called by "
               "encodePointer, encodeSlice, encodeMap, encodeMapStringInterface, encodeInterface in json/encode.go)",
               "Generated/JsonParseGen.v (machine translation of the json/parse.go scanners: the totality theorems valid_total, parse_value_total, tokenizer_total, decoder_total are about it, through Json/StreamModel.v)"],
    "rule": "SUPERVISED execution: the harness command re-executes itself as a worker that runs all cases in-process and records each case "
            "before running it; a worker death (fatal stack overflow, memory fault, out of memory) or a 90 s watchdog timeout is attributed to the recorded "
            "case (impl `fatal <reason>` / `hang`) and the worker restarted after it. Observable of ordinary cases: `nopanic` / `panic <msg>` / `fatal ..` / `hang` "
            "against the constant oracle `nopanic`. "
            "DECODE: Unmarshal (by pointer, by value, nil), Parse with flag subsets (repeated on the remainder), Decoder.Decode over scripted readers "
            "(one-shot, byte-wise, zero-length reads, random chunks, data+error, failing mid-stream; all option combinations; InputOffset/Buffered), into fresh and "
            "PREPOPULATED targets of ~400 types (json type universe of C01/C02 plus pointer-shaped types stored in the interface word, one-element arrays, nested single-field structs, "
            "embedded pointers, int/TextUnmarshaler map keys, (Text)Unmarshalers on both receivers, Time/Duration/Number/RawMessage/[]byte, interface targets), each decoded value re-encoded with both libraries; "
            "documents: valid encodings, EVERY prefix, every single-byte replacement by 21 bytes + deletion + insertion at every offset, random bytes and JSON-alphabet soup, "
            "18 deep shapes (arrays, objects, mixed, unclosed, brackets inside strings, escapes, digits) up to 100000 levels in-process (2500 for interface targets: quadratic, see DESIGN.md); "
            "syntax-only entry points on the same document families: Valid, Tokenizer with every accessor on every token and Reset, Compact, Indent, HTMLEscape, Unescape, Escape, RawValue predicates, RawMessage/Number validation. "
            "ENCODE: Marshal, MarshalIndent, Append (flag sets, no spare capacity), Encoder.Encode (all options, failing writer) of random values by value and by pointer, bare and inside interface-typed containers; "
            "recursive named types; map key types with text methods on either receiver and pointer-shaped keys (ok-vs-error against encoding/json); "
            "HEAP GRAPHS built from a random description (objects: *struct, *interface, []any, named []any, []*struct, map[string]any, named map, map[int]any, map[string]*struct; references stored directly or inside by-value structs, arrays, "
            "single-pointer structs): a cycle of every length 1..5 behind prefixes of length 0..5 and 997..1003, acyclic DAGs with heavy sharing bare and behind prefixes around 1000, cycles closing only after 1001..1100 levels, "
            "random graphs, self references of every kind; the graph is READ BACK from the Go value by reflection (identity = the addresses the encoder keys on) and given to the extracted Coq model with thr = 1000: "
            "verdict ok / cycle-error compared impl vs encoding/json vs model (e.graph), and with sorted map keys the TYPE named in the error vs the node at which the model reports the cycle (e.graphk); "
            "deep acyclic values (7 shapes) at 999/1000/1001/10000/100000 levels in-process. "
            "The whole stream except the known crashers is run a second time in a -race build (checkptr: every unsafe.Pointer conversion and pointer arithmetic checked against its allocation). "
            "KNOWN-FINDING classes are executed on every run (child process dies with `fatal stack overflow`): documents and values nested 2-20 million levels (.deepnest), self-referential named types without a struct (.selfref)",
    "nontrivial": nontrivial_default,
    "trusted_base": COMMON_TB + [
        "memory faults, the Go runtime's stack limit (1 GB; fatal, unrecoverable) and the reflection/unsafe layer of the package (interface-word unpacking, base+offset field access, raw slice growth) are OBSERVED by out-of-process supervised execution on generated types, values and documents, NOT modelled: a crash confined to a type shape or input the generators do not reach is not excluded",
        "Json/CycleModel.v is a hand-written model over abstract heap graphs (node = pointer / non-empty slice / map / interface / struct-or-array / leaf); it is tied to the code by exact correspondence of the verdict and of the reporting object on graphs read back from real Go values; object identity is assumed to be the key identity (distinct objects have distinct (address, length) keys): interior pointers that alias their enclosing object can yield a spurious cycle error in BOTH libraries (never a missed cycle); observed by e.alias, not modelled",
        "the decode-side totality theorems are about the machine-translated scanner and the hand-written Tokenizer/Decoder models of C17/C11 (tied by their own correspondence checks); the reflection-driven decoders (json/decode.go) are covered by supervised execution only",
        "encoding/json (Go 1.23.5) is the oracle for cycle verdicts and map-key support",
    ],
    "assumptions": ["heap graphs are well-formed: between two references lies a finite tree of structs, arrays and interface values (checked by the extracted wfb on every generated graph; true of every Go value)",
                    "a hang is a case that exceeds 90 s of wall-clock time"],
    # the second binary is built with -race, which also switches on the compiler's checkptr instrumentation: every unsafe.Pointer
    # conversion and pointer arithmetic of the package is checked against the allocation it came from (a violation is a fatal error)
    "race_thorough_only": True,   # the -race/checkptr binary (about 9x slower) runs in the thorough tier only
    "builds": [("harness_c06", "verif,c06"), ("harness_c06_race", "verif,c06")],
}
CLAIM = {
    "text": "Theorems (Properties/C06.v). Encoder cycle detection, for EVERY finite well-formed heap graph, root and threshold: the traversal terminates within recursion depth (thr + nodes + 1) * (nodes + 2) (cycle_total); "
            "its verdict is exactly `a cycle is reachable from the root` (cycle_decides = cycle_sound + cycle_complete: no false positive on DAGs with sharing, no missed cycle); the mutable ptrSeen map with deferred deletion is restored "
            "on every return (cycle_set_discipline); the depth counter never exceeds thr + tracked objects + 1 (cycle_depth_bound: the stack-safety statement for cyclic values). Acyclic nesting is NOT bounded: a chain of n pointers needs recursion depth "
            "n + 1 (acyclic_depth_is_nesting_depth, acyclic_depth_bounded_refuted) -- known finding F41. Decode side: json.Valid, parseValue, the Tokenizer and the Decoder return on every byte string shorter than 2^62 bytes / every reader script over a stream shorter than 2^30 bytes (corollaries of C05, C17, C11). "
            "Absence of panics, memory faults and hangs in the reflection/unsafe layer is decided by supervised out-of-process execution over generated types, values, graphs and documents (every prefix, every single-byte corruption, deep nesting).",
    "note": "Partial at proof level: the theorems cover the cycle-detection algorithm and the scanners; memory safety of the unsafe/reflect layer and the runtime stack limit are observed, not proved. Known findings executed on every run: F41 (unbounded nesting depth -> fatal stack overflow), "
            "F42 (self-referential named types without a struct). Fixed during construction: cycles through slices/maps/interfaces (30cb519), one-element pointer arrays (ef77149), map keys with one-sided text methods (be7bfb4), pointer-shaped TextMarshaler map keys. Trusted: Coq kernel, extraction+driver, harness, encoding/json as oracle.",
}
