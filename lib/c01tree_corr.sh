#!/bin/bash
# Correspondence run for the tree model of json.Marshal / json.Unmarshal (coq/Json/TreeModel.v):
# builds harness/bin/harness_c01tree and ocaml/driver_c01tree.exe, runs 16 shards of the harness in parallel, feeds the
# cases to the extracted model and reports, per case function, direct (impl != oracle), corr (impl != model) and
# ocorr (oracle != model) mismatches. Exit status 1 when there is a corr mismatch.
#   TIER=quick|thorough  SEED=n  NSHARD=16  SHOW=10  KEEP=dir (keep the joined case file there)
set -u
export GOFLAGS=-mod=mod GOPROXY=off GOSUMDB=off GOTOOLCHAIN=local
ROOT=/verif
TIER=${TIER:-quick}
SEED=${SEED:-1}
NSHARD=${NSHARD:-16}
SHOW=${SHOW:-10}
T0=$(date +%s)

( cd $ROOT/harness && $ROOT/lib/withrepo go build -tags verif,c01tree -o bin/harness_c01tree . ) || { echo "harness build failed"; exit 2; }

# model + driver: refreshed when the extraction changed or the driver source is newer than the executable
M=$ROOT/coq/model_c01tree
D=$ROOT/ocaml
if [ ! -f $M.ml ] || [ ! -f $M.mli ]; then echo "no extraction $M.ml"; exit 2; fi
if [ ! -x $D/driver_c01tree.exe ] || ! cmp -s $M.ml $D/model_c01tree.ml || ! cmp -s $M.mli $D/model_c01tree.mli \
   || [ $D/driver_c01tree.ml -nt $D/driver_c01tree.exe ]; then
  cp $M.ml $D/model_c01tree.ml && cp $M.mli $D/model_c01tree.mli || exit 2
  ( cd $D && ocamlfind ocamlopt -w -a model_c01tree.mli model_c01tree.ml driver_c01tree.ml -o driver_c01tree.exe ) \
    || { echo "driver build failed"; exit 2; }
fi

W=$(mktemp -d /tmp/c01tree_corr.XXXXXX)
trap 'rm -rf "$W"' EXIT

T1=$(date +%s)
for K in $(seq 0 $((NSHARD - 1))); do
  (
    ulimit -s unlimited 2>/dev/null
    $ROOT/harness/bin/harness_c01tree -tier "$TIER" -seed "$SEED" -shard $K -nshard $NSHARD c01tree > $W/cases.$K 2> $W/herr.$K
    echo $? > $W/hrc.$K
    cut -f1,2 $W/cases.$K | $D/driver_c01tree.exe > $W/model.$K 2> $W/derr.$K
    echo $? > $W/drc.$K
    paste $W/cases.$K $W/model.$K > $W/joined.$K
  ) &
done
wait
T2=$(date +%s)

BAD=0
for K in $(seq 0 $((NSHARD - 1))); do
  if [ "$(cat $W/hrc.$K)" != 0 ]; then echo "shard $K: harness exit $(cat $W/hrc.$K)"; head -5 $W/herr.$K; BAD=1; fi
  if [ "$(cat $W/drc.$K)" != 0 ]; then echo "shard $K: driver exit $(cat $W/drc.$K)"; head -5 $W/derr.$K; BAD=1; fi
  if [ "$(wc -l < $W/cases.$K)" != "$(wc -l < $W/model.$K)" ]; then echo "shard $K: $(wc -l < $W/cases.$K) cases but $(wc -l < $W/model.$K) model lines"; BAD=1; fi
done
cat $W/joined.* > $W/all
if [ -n "${KEEP:-}" ]; then mkdir -p "$KEEP" && cp $W/all "$KEEP/c01tree_cases.tsv"; fi

# columns: 1 fn, 2 args, 3 impl, 4 oracle, 5 model of impl, 6 model of oracle
echo "tier=$TIER seed=$SEED shards=$NSHARD   build $((T1 - T0)) s, run+model $((T2 - T1)) s"
awk -F'\t' '
  { n[$1]++; if ($5 != "-") a[$1]++; if ($3 != $4 && $4 != "-") d[$1]++; if ($5 != "-" && $3 != $5) c[$1]++; if ($6 != "-" && $4 != $6) o[$1]++;
    if ($3 ~ /^panic/) p[$1]++ }
  END { printf "%-16s %8s %8s %8s %8s %8s %8s\n", "fn", "cases", "answered", "direct", "corr", "ocorr", "panics";
        for (f in n) { printf "%-16s %8d %8d %8d %8d %8d %8d\n", f, n[f], a[f], d[f], c[f], o[f], p[f]; tn += n[f]; ta += a[f]; td += d[f]; tc += c[f]; to += o[f]; tp += p[f] }
        printf "%-16s %8d %8d %8d %8d %8d %8d\n", "total", tn, ta, td, tc, to, tp }' $W/all | (read -r h; echo "$h"; sort)

echo
echo "decode cases, answer of the model:"
awk -F'\t' '$1 ~ /^j\.tree\.dec/ { n++; if ($5 == "-") s++; else if ($5 == "err") e++; else k++ }
  END { if (n == 0) n = 1; printf "  DOk %d (%.1f%%)   err %d (%.1f%%)   - %d (%.1f%%)\n", k, 100*k/n, e, 100*e/n, s, 100*s/n }' $W/all
echo "decode cases, outcome of the implementation / of the oracle:"
awk -F'\t' '$1 ~ /^j\.tree\.dec/ { n++; if ($3 == "err") ie++; else if ($3 ~ /^panic/) ip++; else ik++; if ($4 == "err") oe++; else ok++ }
  END { printf "  impl: ok %d err %d panic %d    oracle: ok %d err %d\n", ik, ie, ip, ok, oe }' $W/all
echo "encode cases, answer of the model:"
awk -F'\t' '$1 == "j.tree.enc" { n++; if ($5 == "-") s++; else k++ } END { printf "  answered %d   - %d\n", k, s }' $W/all

show() { # title, awk condition
  local n
  n=$(awk -F'\t' "$2" $W/all | wc -l)
  echo
  echo "== $1: $n"
  if [ "$n" != 0 ]; then
    awk -F'\t' "$2 { print length(\$0) \"\t\" \$0 }" $W/all | sort -n -s -k1,1 | head -n "$SHOW" | cut -f2- |
      awk -F'\t' '{ printf "  fn=%s\n    args=%s\n    impl=%s\n    oracle=%s\n    model=%s\n", $1, $2, $3, $4, $5 }'
  fi
}
show "direct mismatches (impl != oracle)" '$4 != "-" && $3 != $4'
show "corr mismatches (impl != model)" '$5 != "-" && $3 != $5'
show "ocorr mismatches (oracle != model)" '$6 != "-" && $4 != $6'

NC=$(awk -F'\t' '$5 != "-" && $3 != $5' $W/all | wc -l)
echo
echo "wall time $(( $(date +%s) - T0 )) s"
if [ "$BAD" != 0 ]; then echo "RUN INCOMPLETE"; exit 2; fi
if [ "$NC" != 0 ]; then exit 1; fi
exit 0
