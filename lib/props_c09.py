ENTRY = {
    "harness": "c09",
    "driver": "_c09",
    "builds": [("harness_c09", "verif,c09"), ("harness_c09_race", "verif,c09")],
    "models": ["Conc/CacheModel.v (hand-written small-step interleaving machine of the codec caches: json/codec.go cache/cacheLoad/cacheStore/constructCachedCodec/constructStructType, "
               "proto/proto.go codecCache/cachedCodecOf, proto/reflect.go TypeOf/typesMutex/typesCache, thrift/encode.go encoderCache, thrift/decode.go decoderCache)",
               "Conc/DrfSpec.v (event log, happens-before, race_free)", "Conc/PoolModel.v (sync.Pool as a bag with runtime-chosen Get and arbitrary drops)"],
    "rule": "Concurrency (both the plain and the -race build): every scenario runs in freshly started child processes (cold caches). Per scenario group one seed fixes the tasks: per round 9 shared FRESH types "
            "(reflect.StructOf types made unique by a salt tag; named recursive types wrapped in salted structs; in round 0 the named recursive types themselves) used by all goroutines at once plus 48 private fresh types, "
            "shared builtin map types with 1..40 keys (sort scratch pool), tokenizer documents (stack pool), Encoder (buffer pool); calls json.Marshal/Unmarshal/NewEncoder.Encode/NewDecoder.Decode/NewTokenizer, "
            "proto.Size/Marshal/Unmarshal/TypeOf, thrift.Marshal/Unmarshal (3 protocols). G in {2,4,16} goroutines x GOMAXPROCS in {1,2,16}, goroutines released together by a spin barrier, shared tasks taken in rotated order. "
            "Observable of a task: the canonical result (bytes / rendered value / error; map-order-insensitive where Go map order permutes entries) of ALL its executions, DIVERGE if two goroutines differ; oracle: the same task executed once, "
            "alone, in another cold process. TypeOf pointer identity across goroutines must be the same object. Per scenario a c.run case: child exit status, race detector report (GORACE exitcode=66, 'DATA RACE' on stderr -> impl 'race <frames>'), "
            "runtime fatal error (concurrent map writes), timeout -> oracle exit0. One detailed group per shard (every task a case) and summary groups (one case per function and scenario, every disagreement in full). "
            "Error paths of the pool users, mixed into every round among the ordinary calls (they must leave every other call's result equal to its solo oracle): json.Marshal and Encoder.Encode that FAIL in Append after output has been written "
            "(chan / func field, MarshalJSON returning an error, NaN / Inf, pointer cycle, map[string]any and map[string]RawMessage whose sorted branch fails half way, three nested maps held at the error), Tokenizer run into an error then Reset and reused "
            "(must equal a fresh tokenizer; double Reset), proto.Unmarshal failing inside a map entry followed by a good decode; values whose MarshalJSON calls json.Marshal (nested use of the buffer pool) with the expected text known by construction "
            "(oracle constant ok). Pool children (cold process): (1) single goroutine, GOMAXPROCS 1, 60 x [failed Encode/Marshal, then nested Marshal and Encode with known text]; (2) cycles of many failures on one goroutine then G goroutines doing "
            "Marshal only on 48 values whose text is known from encoding/json (GOMAXPROCS fixed and the pool resized BEFORE the failures, since sync.Pool discards its per-P caches when the number of Ps changes). "
            "A self-test child with a deliberate race checks the detection pipeline. "
            "Correspondence of the Coq machine (m.hist): single-threaded lookup histories over fresh types (recursive ones included) on each of the five caches; after every call the harness reads the unexported cache variable "
            "(go:linkname) and reports hit/miss (pointer identity) and the number of entries; the extracted machine's sequential projection (seq_obs) must print the same, including proto's pair publication and TypeOf's publication of the seen map.",
    "nontrivial": nontrivial_default,
    "trusted_base": COMMON_TB + [
        "Conc/CacheModel.v is a hand-written abstraction: a codec / Type / closure is an object with an identity, the type it was built for, links to component objects and a done flag; what a codec does with a value is taken to be a function of the unfolding of that graph. "
        "Atomic steps are placed exactly at atomic.Pointer/atomic.Value Load and Store and Mutex Lock/Unlock; every other step is thread-local. The Go memory model itself is NOT modelled: that an atomic store / load pair (and Unlock / Lock) orders the plain "
        "accesses before the store before those after the load is taken from the Go memory model: it is the definition of hb in Conc/DrfSpec.v (hb_ptr, hb_mutex); theorem drf proves that under this definition no schedule of the machine has a data race.",
        "The race detector reports only races of the interleavings that were executed, and only on instrumented Go code (not on assembly in segmentio/asm); a clean run is evidence, not proof.",
        "sync.Pool's runtime behaviour (per-P caches, victim cache, GC) is abstracted to: Get returns any pooled object or a new one, pooled objects may vanish. The use-site discipline (Put only what Get returned, no use after Put, nothing reachable from the result handed to the caller) "
        "is established by READING the use sites, not by proof about the code: json/json.go Marshal (copies buf.data before Put; error path drops the buffer) and Encoder.Encode (Put after Writer.Write returned: relies on io.Writer not retaining p), "
        "json/encode.go five mapslicePool sites (elements zeroed, slice truncated, Put, s not used afterwards; nested Append gets a different object), json/token.go acquireStack/releaseStack (Reset releases and sets t.stack=nil; a user copying a Tokenizer by value could double-Put: outside the library), "
        "proto/map.go structPool (key and value copied into the map by MapAssign/Assign, scratch struct zeroed, Put).",
        "go:linkname access of the harness to the unexported cache variables (json.cache, proto.codecCache, proto.typesCache, thrift.encoderCache, thrift.decoderCache)",
    ],
    "assumptions": [
        "concurrent interleavings cannot be replayed: the concurrency cases are decided by the theorems on the model plus detection (race build, cold-process differential); the model is tied to the code on sequential histories only",
        "results are deterministic functions of type and value (map-order-insensitive observables are used where Go map iteration order permutes encoded entries)",
        "construction of the codec of a type terminates (it does not for named map / slice types that contain themselves without passing through a struct: json and thrift overflow the stack sequentially - reported separately; the theorems are about completed calls)",
        "user-supplied methods (MarshalJSON etc.) and io.Writer/io.Reader implementations are themselves race-free and do not retain the buffers they are handed",
    ],
}

CLAIM = {
    "text": "Theorems (Properties/C09.v) on the interleaving machine of the codec caches, for EVERY number of goroutines, every list of requested types per goroutine, every (recursive) type graph and EVERY schedule: "
            "every map ever published maps each key t to a complete object graph whose unfolding is codec_of t (never a half-built object of a seen map); every completed call returns codec_of t, which is what it returns running alone; "
            "a published map and everything reachable from it never change again; plain writes target only unpublished objects of the writing goroutine, plain reads only published maps, every returned object is an entry of a published map; "
            "DATA-RACE FREEDOM of the machine: in the event log of every schedule any two conflicting accesses (same map, or same construction's objects including everything a caller reads through a returned codec) of different goroutines are ordered by "
            "happens-before (program order + atomic store->load of the same map + Unlock->Lock, transitive), for the lock-free and the mutex variant; "
            "for proto.TypeOf additionally mutual exclusion, no lost update and one object per type for all goroutines; the lock-free caches lose updates and duplicate work by design (refutation witnesses) without affecting results. "
            "Pools: under the use-site discipline an object is held by at most one goroutine between Get and Put for every resolution of the runtime's choices; false without the discipline (witness). "
            "PARTIAL: the Go memory model, the runtime's sync.Pool and the actual encode/decode code running on the codecs are not modelled; data-race freedom of the real code is observed with the race detector over fresh and recursive types "
            "at G in {2,4,16} x GOMAXPROCS in {1,2,16}, and determinism by comparing every concurrent result with the same call made alone in a cold process.",
    "note": "Trusted: Coq kernel; the hand-written cache machine (tied on every run to the real caches by sequential hit/miss/size histories read through go:linkname, ~190 histories per quick run); the use-site discipline of the pools (read, not proved); "
            "the Go memory model's atomic/mutex ordering guarantees; the race detector covers executed interleavings only.",
}
