ENTRY = {
    "harness": "c14",
    "driver": "_c14",
    "models": ["Json/FlagsModel.v (hand-written model of decodeInterface's number case, decodeDynamicNumber, decodeInto and the decode functions it calls, "
               "over the machine-translated scanners parseNumber/parseInt/parseUint/parseValue of Generated/JsonParseGen.v; member order of the map encoders)",
               "Json/FlagsSpec.v (decision table of the documented precedence of UseNumber/UseBigInt/UseInt64/UseUint64)",
               "Json/TreeFlagsModel.v (hand-written: the value-tree encoder and decoder of Json/TreeModel.v with the AppendFlags / ParseFlags explicit)"],
    "rule": "f.append: the json type/value universe of jtypes.go (hand-picked shapes for the five specialised map encoders and the generic one with up to 10 entries, keys and struct "
            "tags that need HTML escaping, RawMessage members valid and invalid, nested in slices/structs/pointers/interfaces; plus seeded random types) x all 8 AppendFlags subsets "
            "(TrustRawMessage only when every reachable RawMessage is valid): error iff the default flags (EscapeHTML|SortMapKeys) give an error; bytes equal the default output "
            "(EscapeHTML on) or encoding/json's Encoder with SetEscapeHTML(false) (off), compared compactly and, when SortMapKeys is off, with the members of every object sorted "
            "(so only a permutation is tolerated); the generic value encoding/json decodes from the output (UseNumber) equals that of the default output. "
            "Types with a string field carrying the ',string' option (f.append.qs) are compared on bytes only: encoding/json itself escapes the inner string before quoting it again. "
            "f.encoder: Encoder with SetEscapeHTML/SetSortMapKeys/SetTrustRawMessage/SetAppendNewline against Append with the same flag word. "
            "f.parse.rt / f.parse.std: Parse (and Decoder with the setter methods) of the package's own output under all 16 subsets of DontCopyString/DontCopyNumber/DontCopyRawMessage/"
            "DontMatchCaseInsensitiveStructFields against encoding/json.Unmarshal of the same document (.rt: that value is deeply equal to the original; .std: the type does not round-trip "
            "through JSON in encoding/json either), input buffer unchanged. "
            "f.num: number literals (64-bit boundaries, wrap-around candidates, negatives, > 64 bit, fractions, exponents, -0, float range limits; a malformed stream) x all 16 subsets of "
            "UseNumber/UseBigInt/UseInt64/UseUint64 x random other flags x 8 contexts (top level, array, object, []any, map[string]any, *any field, white space, Decoder.UseNumber): "
            "dynamic type and exact value vs a math/big transcription of the documentation, vs the extracted Coq model of the code, and the oracle vs the extracted decision table. "
            "c14tree (own binary): f.tree.enc = Append(nil, v, flags) of values of the tree universe for the AppendFlags subsets against encoding/json's Encoder (when the order is repeatable) and the extracted jenc_f; f.tree.encsort = the unsorted output with the members of every map re-sorted by a type-directed re-tokeniser, byte-identical to the sorted encoding; "
            "f.tree.encrt = the unsorted output decodes (encoding/json) to the original; f.tree.dec = Parse under the subsets of DontMatchCaseInsensitiveStructFields / DisallowUnknownFields / DontCopy* of the package's own output and of mutated documents (case-changed, unknown, reordered, duplicated keys) against encoding/json and the extracted jdec_f, with the input overwritten before rendering when DontCopyString is off",
    "nontrivial": nontrivial_default,
    "trusted_base": COMMON_TB + ["Json/FlagsModel.v: hand transcription of the glue of decode.go around the translated scanners; math/big's Int.UnmarshalJSON modelled by its specification on JSON values; "
                                 "strconv.ParseFloat is a Section variable of the model (the driver supplies the C library's strtod), its result is never constrained by a theorem",
                                 "the Append/Parse flag behaviour on structured values (escaping, map encoders, zero-copy branches) is decided by correspondence with encoding/json only; the map-order theorems are about an abstract model of the encoders' member order",
                                 "encoding/json (go1.23.5) as oracle for bytes and generic values"],
    "assumptions": ["default flags = EscapeHTML|SortMapKeys (what Marshal uses)", "number literals shorter than 2^62 bytes",
                    "TrustRawMessage only with valid raw messages (its documented precondition); with it, white space inside raw messages is copied and is compared after compaction"],
    "builds": [("harness_c14", "verif,c14"), ("harness_c14tree", "verif,c14tree", "c14tree")],
}
CLAIM = {
    "text": "Theorems (Properties/C14.v). For EVERY valid number literal (shorter than 2^62 bytes) and EVERY flag word, the model of decodeInterface's number case "
            "(decodeDynamicNumber and the decode functions it calls, over the scanners machine-translated from json/parse.go on every run) stores exactly what the documented precedence "
            "table UseUint64 > UseInt64 > UseBigInt > UseNumber > float64 prescribes (c14_number_kind_refines); uint64/int64/*big.Int hold exactly the integer the literal denotes, "
            "Number holds the literal, float64 is whatever strconv.ParseFloat returns and its range error is the only possible error (c14_number_value); no flag bit other than those four "
            "influences the result (c14_number_flags_frame). The translated parseUint/parseInt return the exact value of every (signed) digit string followed by any terminator, or overflow "
            "exactly outside uint64/int64 (c14_parse_uint_exact, c14_parse_int_exact: the theorem that failed before fix f69c661), and parseNumber consumes every valid literal and classifies "
            "it Int/Uint/Float (c14_parse_number_kind). In an abstract model of the map encoders the members written without SortMapKeys are a permutation of the sorted ones and a "
            "last-wins decoder reads the same object (c14_map_order_permutation, c14_map_order_same_object). "
            "STRUCTURE (c14tree_* theorems, Json/TreeFlagsModel.v over the value-tree model of C01/C02, tied to /repo by ~60k f.tree.* cases per run): for every type of the tree universe, every well-formed value, EscapeHTML on or off and ANY order in which the members of each map are written (an admissible oracle; in the relational form penc every map occurrence is permuted independently, as Go randomises each range), "
            "the output is an RFC 8259 text (c14tree_append_flags_valid) that the decoder reads back as exactly the value read from the default output (c14tree_append_flags_meaning, c14tree_append_flags_same_value, c14tree_append_rel_meaning); with both flags on it is Marshal's output byte for byte (c14tree_flags_default); EscapeHTML changes only the inside of string tokens, replacing the three bytes < > & by their u00XX escapes (c14tree_escape_html_only_strings, _escape_html_string, _no_html_same_bytes); "
            "unsorted members are a permutation of the sorted ones and maps of at most one entry are written identically (c14tree_unsorted_is_permutation, _unsorted_small_maps). Parse side: with no flag jdec_f is the Unmarshal model for every input (c14tree_parse_default); on the package's own output under any AppendFlags, DontMatchCaseInsensitiveStructFields and DisallowUnknownFields in any combination return the same value (c14tree_parse_flags_meaning, also with white space); "
            "for EVERY document DisallowUnknownFields only rejects, never changes a decoded value, and a document accepted under both struct-key flags decodes alike under every setting (c14tree_strict_only_rejects, _exact_strict_universal); the converse equations are refuted by concrete documents (a key differing by case, an unknown key). "
            "Everything else of the property is decided by correspondence with encoding/json on every run: the 8 AppendFlags subsets on the json type/value universe incl. the five specialised "
            "map encoders (error equivalence with the default flags, bytes equal to encoding/json with SetEscapeHTML(false), permutation-only differences when unsorted, same generic value), "
            "the Encoder setters, Parse/Decoder under all 16 subsets of DontCopyString/DontCopyNumber/DontCopyRawMessage/DontMatchCaseInsensitiveStructFields, and the four number flags on whole documents.",
    "note": "One open finding shows in this check: F31 (null into a non-nil pointer to a pointer after a duplicate key; C02's finding, seen by the f.tree.dec cases under every ParseFlags subset alike). Trusted: Coq kernel; translator; the hand-written glue of Json/FlagsModel.v around the translated scanners, tied to the code by correspondence on ~53k (flags, literal, context) cases per run "
            "(model = implementation = math/big oracle = extracted decision table); math/big's Int.UnmarshalJSON modelled by its specification; strconv.ParseFloat left uninterpreted; extraction+driver; harness. "
            "The clause `same generic value as the default output` is false in encoding/json itself for string fields with the ,string option (the inner string is HTML-escaped before being quoted again): "
            "those types are compared on bytes only. With TrustRawMessage the white space of raw messages is copied verbatim when EscapeHTML is off (compared after compaction).",
}
