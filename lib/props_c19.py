"""C19: proto rewriters replace exactly the templated fields."""

ENTRY = {
    "harness": "c19",
    "driver": "_c19",
    "builds": [("harness_c19", "verif,c19")],
    "models": ["Proto/RewriteModel.v (hand-written model of proto/rewrite.go Rewriter implementations and of message.go Parse/Append over the machine-translated wire primitives of Generated/ProtoGen.v)"],
    "rule": "rw.run: the Rewriter the library really built (ParseRewriteTemplate with and without RewriterRules/BitOr over generated message types incl. nested, repeated, map fields and numbers up to 65535; "
            "hand-assembled MessageRewriter / MultiRewriter / BitOrRewriter / embedded rewriters with lengths up to 70000 and arbitrary entry positions) is read back by reflection and applied to generated inputs "
            "(canonical proto.Marshal output; re-encodings with unknown fields of every wire type interleaved, earlier occurrences of singular fields, over-long tags and lengths, recursively; raw field lists with "
            "numbers up to 2^61-1; truncations, byte flips and insertions in the malformed stream) with a non-empty out prefix and spare capacity; observable = returned bytes / error class / panic, compared with the "
            "extracted Coq model run on the same rewriter and bytes (corr); the oracle column holds structural checks by an independent wire reader: output parses, untouched fields carried over in order and byte-identical "
            "for canonical input, prefix, input (and its spare capacity) and rewriter unchanged, second application identical. rw.val: Unmarshal(rewrite(in)) compared with Unmarshal(in) in which the templated fields are "
            "replaced (or bit-or'ed) as the template says. Entries at index >= 256, fixed32/fixed64-tagged fields, BitOr on zig-zag and fixed fields and out-of-range uint32 template numbers (oracle: template error) are part of the "
            "clean streams. The suffix of the case name is an input feature selecting a recorded deviation (dup, split, repz, repmsg, mapzero) or a stream without property oracle (tmix, mal).",
    "nontrivial": nontrivial_default,
    "trusted_base": COMMON_TB + [
        "Proto/RewriteModel.v: hand-written model of MessageRewriter/multiRewriter/embddedRewriter/bitOrRW/RawMessage.Rewrite, fieldset, Parse, Append; a MessageRewriter is modelled as its length plus its non-nil entries in index order; "
        "tied to the code by correspondence on the rewriter read back from the library by reflection (unexported fields through unsafe)",
        "the template compiler (parseRewriteTemplate*: JSON decoding, per-kind constants, map iteration) is NOT modelled: it is covered by the value-level oracle (rw.val) only",
        "value-level oracle: proto.Unmarshal of the package itself decodes input and output (the decoder is the subject of C03/C07); expected value computed by the harness (applyTpl)",
        "independent wire reader of the harness (encoding/binary.Uvarint based)",
    ],
    "assumptions": ["inputs shorter than 2^62 bytes, outputs shorter than 2^64 bytes (Go slices are shorter than 2^63)",
                    "rewriters are trees of RawMessage, MultiRewriter, MessageRewriter, embedded message rewriters and bitOrRW (RewriteFunc and user-defined Rewriters are outside the model)"],
}

CLAIM = {
    "text": "Theorems (Properties/C19.v), for every byte string shorter than 2^62 and every rewriter tree (RawMessage, MultiRewriter, MessageRewriter of any length, embedded message rewriters, bitOrRW of every accepted kind): "
            "the model of Rewrite returns exactly the abstract rewrite on field lists appended to out, or an error exactly when the abstract rewrite has none (rewrite_refines), never panics and always terminates "
            "(rewrite_no_panic; the seen-set has a bit for every index: seen_bits_spec, fits_all). For a regular message rewriter on a valid message the output is a valid message, the fields of unmentioned numbers are the "
            "input's in the same order with the same raw values (byte-identical for canonical input), and the fields of a templated number are exactly what its rewriter emits for the first value of that number, or for the "
            "empty value when absent (rewrite_output, rewrite_message, rewrite_canonical, emit_kinds); a bit-or rewriter writes one canonical field holding the field's encoding of value|mask for all ten kinds "
            "(bitor_roundtrip, bitor_field_spec).",
    "note": "Trusted: Coq kernel, translator (wire primitives), extraction+driver, harness; the hand-written rewriter model tied by correspondence on the rewriter read back from the library by reflection; the template compiler "
            "and the value-level reading (decode of the output) are covered by differential execution only, where five recorded findings are subtracted by input class: F36 (.dup), F37 (.split), F38 (.repz), F39 (.repmsg), F40 (.mapzero). The theorems speak about the FIRST occurrence of a templated number: where protobuf reads the last occurrence "
            "(BitOr on a repeated singular field) or merges occurrences (split sub-messages) the library deviates from the value-level property; these and three template-compiler deviations (zero elements of repeated "
            "templates, element templates applied on the first input element, empty-key zero-value map entry) are recorded known findings isolated in their own case streams.",
}
