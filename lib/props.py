"""Per-property configuration of the check driver."""

COMMON_TB = [
    "Coq 8.16.1 kernel (coqc; vm_compute used in proofs for finite per-lane sweeps and witnesses; no native_compute)",
    "translator /verif/gen (go/parser+go/types -> Gallina for constants, tables and the listed first-order functions)",
    "extraction: ExtrOcamlBasic only (bool, option, unit, list, prod, sumbool, sumor inductives; Z/positive/nat stay inductive), OCaml 4.13.1, ocaml/driver.ml conversions",
    "correspondence harness /verif/harness and its generators; comparison of projected observables only",
    "Go 1.23.5 compiler/runtime, reflect, unsafe: modelled (not verified)",
]


def nontrivial_default(c):
    return True


PROPS = {}

PROPS["C18"] = {
    "harness": "c18",
    "models": ["Generated/Iso8601Gen.v (translated from iso8601/parse.go, iso8601/valid.go)", "Iso8601/Ext.v (model of time.Parse)"],
    "rule": "exhaustive families (every byte value at every position of 7 base timestamps; calendar dates incl. invalid days; "
            "seconds of a day; fraction lengths 0..12; zone offsets; 64 flag words x structured Valid strings) plus seeded random "
            "corruptions; a case is non-trivial if distinct (fn,args); every case is compared impl vs oracle (time.Parse / grammar regexp), "
            "impl vs translated Coq model, oracle vs Coq model of the oracle",
    "nontrivial": nontrivial_default,
    "trusted_base": COMMON_TB + ["Iso8601/Ext.v: hand transcription of go1.23 time.Parse for layout RFC3339Nano, tied to the real time.Parse by the oracle-model correspondence"],
    "assumptions": ["TZ=UTC for the oracle's Local zone", "time.Parse behaves as transcribed in Iso8601/Ext.v outside the sampled inputs"],
    "env": {"TZ": "UTC"},
    "claim": {
        "text": "Theorems (Properties/C18.v), for every byte string: the Gallina translation of iso8601.Parse (regenerated from parse.go on every run) returns exactly what a transcription of "
                "time.Parse(RFC3339Nano) returns (same instant, nanoseconds, zone offset; same accept/reject); daysSinceEpoch equals the civil calendar for all dates of years 0-9999; "
                "validate is exact; Valid equals the declarative grammar for every string and every flag word and always terminates. The transcription of time.Parse is tied to the real one by correspondence.",
        "note": "Trusted: Coq kernel, translator, extraction+driver, harness, the hand transcription of go1.23 time.Parse (Iso8601/Ext.v) validated against time.Parse on ~180k structured inputs per run; allocation-freedom of Valid is not modelled.",
    },
}

PROPS["C20"] = {
    "harness": "c20",
    "builds": [("harness", "verif"), ("harness_purego", "verif,purego")],
    "models": ["Generated/AsciiGen.v (translated from /repo/ascii/*.go)", "Generated/AsmAsciiGen.v (translated from the purego sources of segmentio/asm v1.1.3 ascii)"],
    "rule": "exhaustive single-deviation family: every length 0..L, every position, 12 boundary byte values (all 256 in thorough), each "
            "placed at all 8 alignments inside a larger buffer (observable = common answer over alignments and over the []byte/string variants); "
            "fold: every pair of 15 fold-boundary bytes at every position, every prefix/suffix split; byte and rune predicates; seeded random strings; "
            "both the default (amd64 assembly) and the purego build; compared impl vs byte-wise Go oracle, impl vs translated Coq model, oracle vs Coq spec",
    "nontrivial": nontrivial_default,
    "trusted_base": COMMON_TB + ["the AVX2/SSE assembly of segmentio/asm is NOT modelled: the theorems are about the purego algorithms (translated) and the repo wrappers; the assembly build is tied only by the exhaustive single-deviation family",
                                 "gen/config.json extern table mapping the unsafe.Pointer loads of valid_default.go / valid_print_default.go to le64/le32/le16/at_ on the byte list"],
    "assumptions": ["inputs shorter than 2^63 bytes (Go's own limit)"],
    "claim": {
        "text": "Theorems (Properties/C20.v), for every byte string of every length < 2^63: the repo's Valid/ValidString, ValidPrint/ValidPrintString, "
                "EqualFold*, HasPrefixFold*, HasSuffixFold* and the byte/rune predicates equal their byte-wise definitions. The repo wrappers and the purego "
                "algorithms of segmentio/asm are machine-translated to Gallina on every run; the SWAR tricks (hasLess/hasMore, msb masks) are proved for all words by lane induction. "
                "The amd64 assembly cannot be modelled with the tools present: it is tied by the exhaustive single-deviation family run on both builds.",
        "note": "Trusted: Coq kernel, translator, extraction+driver, harness; the assembly build is covered by correspondence only (exhaustive over lengths 0..72 x positions x 12 values x 8 alignments).",
    },
}

PROTO_TB = COMMON_TB + ["Proto/Model.v: hand-written model of the reflection-driven codecs (struct.go, slice.go, map.go, pointer.go, bytes.go, scalar codecs, message.go) over type descriptors and values; tied to the code by correspondence on generated types built with reflect.StructOf; the wire primitives are machine-translated (Generated/ProtoGen.v)",
                        "Go memory layout (inlined pointer-shaped structs, unsafe field offsets, runtime map iteration and slice growth) is abstracted to values: not modelled"]

PROPS["C03"] = {
    "harness": "c03",
    "models": ["Proto/Model.v", "Generated/ProtoGen.v"],
    "rule": "hand-picked shapes + seeded random struct types (1-40 fields, nesting <= 3, tags with numbers up to 2047, zigzag/fixed/rep options, pointers, byte arrays, repeated fields, maps, RawMessage) x "
            "zero value + boundary-biased values (integer width edges, +-0/NaN/Inf bits, nil vs empty, repeated 0..40 and 500 elements, map entries of 118..132 bytes); "
            "p.rt: Unmarshal(Marshal(v)) canonicalised (nil-vs-empty erased, map entries sorted) vs v; p.enc: Size and Marshal bytes vs model, Size==len(Marshal) and no error vs property",
    "nontrivial": nontrivial_default,
    "trusted_base": PROTO_TB,
    "assumptions": ["universe: finite (non-recursive) struct types; field numbers unique within a struct; no nil pointers as slice elements / map values and no non-nil pointer to a nil pointer (protobuf has no representation for them); RawMessage contents are well-formed fields"],
}

PROPS["C05"] = {
    "harness": "c05",
    "models": ["Generated/JsonParseGen.v (translated from json/parse.go, json/string.go, json.Valid)", "Json/Grammar.v (RFC 8259 recogniser, the syntax oracle)"],
    "rule": "every string of <= 4 symbols over a 24-symbol JSON class alphabet through Valid (346k; <= 3 symbols through all 7 syntax-only consumers), "
            "strings with the interesting byte at every offset 0..40 around the 9/17-byte hand-over of the quote search, grammar-directed documents with single-token mutations, nesting ladder; "
            "oracle encoding/json (Valid / the same operation); model: translated parser; oracle model: Json/Grammar.v std_valid",
    "nontrivial": nontrivial_default,
    "trusted_base": COMMON_TB + ["Json/Grammar.v is the specification of RFC 8259 + the 10000 nesting limit of encoding/json, tied to encoding/json.Valid by the oracle-model correspondence",
                                 "the consumers other than Valid (RawMessage encode/decode, unknown-field skip, array surplus, MarshalJSON output, Decoder framing) call the proved recogniser parseValue; their own glue is covered by correspondence with encoding/json only"],
    "assumptions": ["inputs shorter than 2^62 bytes"],
    "claim": {
        "text": "Theorems (Properties/C05.v) about the Gallina translation of json.Valid / parseValue / parseString / parseNumber / internalParseFlags (regenerated from the source on every run): for EVERY byte string shorter than 2^62 bytes Valid equals the RFC 8259 recogniser (Json/Grammar.v) "
                "and hence encoding/json.Valid up to the 10000-container limit; parseValue - the recogniser all syntax-only consumers call - accepts exactly the grammar and consumes exactly the value, including the 8/16-byte quote search (lane proof) and the whole-input flag shortcuts. "
                "The glue of the other consumers (RawMessage, MarshalJSON output, unknown fields, array surplus, Decoder framing) is compared with encoding/json on the exhaustive <=3-symbol family and generated documents.",
        "note": "Trusted: Coq kernel, translator, grammar transcription (tied to encoding/json.Valid by correspondence on ~400k strings per run), extraction+driver, harness. Nesting beyond 10000 (accepted by the package, rejected by encoding/json) and stack exhaustion belong to C06.",
    },
}

PROPS["C16"] = {
    "harness": "c16",
    "models": ["Proto/Model.v", "Generated/ProtoGen.v"],
    "rule": "hand-picked shapes + seeded random struct types and values (as C03) plus a top-level RawMessage; for each value EVERY destination length 0..Size+3 with 16 guard bytes after the destination; "
            "observable: ok n + bytes written / short / other error / PANIC / GUARD-OVERWRITTEN; oracle: ok Size Marshal(v) when len>=Size else short",
    "nontrivial": nontrivial_default,
    "trusted_base": PROTO_TB,
    "assumptions": PROPS["C03"]["assumptions"],
    "claim": {
        "text": "Theorems (Properties/C16.v) on the proto model, for every supported type, well-formed value and flag word: encode writes exactly size_of bytes into any buffer of at least that length "
                "(the bytes are independent of the buffer, the rest of the buffer is unchanged) and returns io.ErrShortBuffer without panic and without growing the buffer for every shorter length; "
                "hence MarshalTo/Marshal/Size agree. Caller-side corollaries (Proto/EncCorollaries.v): a buffer of exactly Size(v) bytes becomes Marshal(v) (marshal_to_exact_fit); for any two sufficiently long buffers the same Size(v) bytes are written and each keeps its own tail (marshal_to_oblivious); the returned buffer always has the length of the one passed in (marshal_to_keeps_length); MarshalTo succeeds if and only if Size(v) <= len(b) (marshal_to_threshold). Every slice expression of the Go encoder is bound-checked in the model (Panic), so the theorem includes panic-freedom.",
        "note": "Trusted: Coq kernel, translator (wire primitives), the hand-written model of the reflection-driven codecs tied by correspondence on random types x every buffer length, extraction+driver, harness. Writes beyond len(b) inside cap(b) are excluded by construction of the model (windows are exact) and observed by guard bytes.",
    },
}
PROPS["C07"] = {
    "harness": "c07",
    "models": ["Proto/Model.v", "Generated/ProtoGen.v"],
    "rule": "valid encodings of random types/values, EVERY prefix, 12 mutations each (random byte, high-bit flip, insertion, boundary values), unknown fields of every wire type inserted at every top-level field boundary, random bytes; "
            "observable: decoded value (canonical) / err / PANIC; compared with the Coq model's decode on the same bytes and, for unknown-field insertions, with the value decoded without them; "
            "proto.Scan/Parse on all of these byte strings plus length prefixes pointing just beyond the end (buffers with exact capacity): enumerated fields / err / PANIC vs an independent field-level transcription of the wire format",
    "nontrivial": nontrivial_default,
    "trusted_base": PROTO_TB,
    "assumptions": ["universe of target types as in C03; inputs shorter than 2^31 bytes"],
    "claim": {
        "text": "Theorems (Properties/C07.v): for every supported target type and EVERY byte string shorter than 2^31 bytes the model's decode/Unmarshal returns a value or an error - never Panic (all Go slice bounds are checked in the model) and within fuel linear in the input - "
                "with 0 <= consumed <= len. Unknown fields (Proto/UnknownProofs.v): inserting ANY well-formed field with an undeclared number (any of the four wire types, padded varints, numbers 0 and above 2^16 included) at ANY field boundary of a message - top level (unknown_insert_decode, unknown_insert: also for byte arrays, RawMessage fields and maps with pointer values, and when other fields fail to decode: same error class, same partial value) or inside embedded messages at any depth with the enclosing length prefixes re-encoded (unknown_nested, unknown_nested_many) - leaves the decoded value and the error class unchanged; "
                "the two provisos are necessary (unknown_insert_any_target_refuted: an empty input resets a populated target while unknown-only input merges into it; unknown_nested_any_refuted: an empty map-entry payload is the quirk recorded as C12's finding F34). Scan accepts exactly the sequences of complete fields and never panics (scan_total, scan_boundary). Allocation is not modelled.",
        "note": "Trusted as C16. Recursive message types (unbounded Go stack) are outside the finite-descriptor universe; memory allocation is not modelled.",
    },
}
PROPS["C03"]["claim"] = {
    "text": "Theorems (Properties/C03.v) on the proto model: Marshal never fails and returns exactly Size(v) bytes for every value of the universe whose encoding is shorter than 2^31 bytes; encode/size agreement for every codec and flag word; the round trip Unmarshal(Marshal(&v)) = v up to nil-vs-empty "
            "for every supported type (nesting, pointers, repeated fields and maps of any size, zigzag/fixed tags, byte arrays, RawMessage) and every representable value. The exclusions are explicit boolean predicates, each shown necessary by a machine-checked counterexample "
            "(recorded finding F17: a non-nil pointer to a message with empty encoding decodes as nil; a top-level pointer to an empty RawMessage; a 'rep' tag on a non-repeated field).",
    "note": "Further (Proto/RoundTripInj.v): the fuel of the round trip is an explicit function of the bytes and the type (roundtrip_explicit_fuel), and Marshal is injective up to nil-versus-empty on the universe (marshal_injective). Trusted as C16; map iteration order is the list order of the model (Go's random order is canonicalised by sorting in the harness).",
}

THRIFT_TB = COMMON_TB + ["Thrift/Model.v: hand-written model of binary.go, compact.go, encode.go, decode.go, struct.go, thrift.go, error.go (writers, readers, struct encoder/decoder, skipping, EOF normalisation, bitsets) tied by correspondence on random struct types built with reflect.StructOf",
                         "unions, unsigned kinds (the package cannot encode them), message headers, embedded structs and io.Reader behaviour other than a byte slice are outside the model"]
PROPS["C04"] = {
    "harness": "c04",
    "models": ["Thrift/Model.v"],
    "rule": "hand-picked + seeded random struct types (field ids dense / gaps > 15 / ranges > 64 and > 128 / shuffled declaration order, required/optional/enum options, bools in nested and pointer positions, lists 0..16, sets, maps, nested and pointer-to structs) "
            "x zero value and boundary-biased values x {binary strict, binary non-strict, compact}: Unmarshal(Marshal(v)) canonicalised vs v; Reset: an Encoder/Decoder first used with another protocol then Reset vs fresh; declared self-recursive struct types (through a pointer, a list, a map; field ids spanning more than 64, required fields around the recursive one) at depths 0-3",
    "nontrivial": nontrivial_default,
    "trusted_base": THRIFT_TB,
    "assumptions": ["required pointer fields are set; no nil pointers as list elements / map values; field ids unique; -0.0 and +0.0 are the same value (the package elides zero values by ==)"],
}
PROPS["C08"] = {
    "harness": "c08",
    "models": ["Thrift/Model.v"],
    "rule": "for random types/values and the three protocols: the valid encoding, EVERY proper prefix (expected: io.EOF for the empty input, unexpected-EOF class otherwise), a trailing byte (error), the encoding of a wider struct with 1-4 undeclared fields of assorted types and nesting (expected: same value), "
            "the encoding with a required field removed (MissingField), 10 mutations and random bytes (any outcome but panic/fault/runaway allocation; run under ulimit -v)",
    "nontrivial": nontrivial_default,
    "trusted_base": THRIFT_TB,
    "assumptions": ["allocation is observed by running the harness under an address-space limit, not modelled"],
    "ulimit_v_kb": 8000000,
}
PROPS["C13"] = {
    "harness": "c13",
    "models": ["Thrift/Model.v"],
    "rule": "random types/values without multi-entry maps x three protocols: Marshal bytes vs an independent transcription of the Apache Thrift binary and compact protocol specifications (harness/c04.go specEnc) and vs the Coq model; "
            "the recorded deviations (binary type codes, 3-byte binary stop field, big-endian compact doubles) are reproduced by the oracle on request so that any other deviation is still reported; "
            "decode side: alternative conformant compact encodings of each value (every field and list/set header in its long form, and long/short chosen per header) must decode to the value, checked against the implementation and the Coq model's decoder",
    "nontrivial": nontrivial_default,
    "trusted_base": THRIFT_TB + ["the specification oracle is a transcription from memory of thrift-binary-protocol.md / thrift-compact-protocol.md: no Apache Thrift implementation exists on this machine (weakest oracle of the development)"],
    "assumptions": ["the oracle writes fields in id order and elides the same fields as the package (nil pointers, zero-valued non-required fields)"],
}

PROPS["C01"] = {
    "harness": "c01",
    "models": ["Generated/JsonParseGen.v json_escapeIndex (component)"],
    "rule": "hand-picked + seeded random Go types built with reflect (struct tags incl. omitempty/string/-, embedded named structs by value and pointer, pointers, interfaces, maps with string/integer/TextMarshaler keys, Marshaler/TextMarshaler on value and pointer receivers, Number, RawMessage, time.Time, arrays, > 32 fields) "
            "x values from a per-case seed (boundary integers, float formatting cut-offs, escapable bytes at every offset, invalid UTF-8, NaN/Inf, invalid Numbers/RawMessages, erroring marshalers), by value and by pointer; Encoder under every SetEscapeHTML/SetIndent setting; Escape/AppendEscape on strings with every escapable byte at every offset 0..24; "
            "oracle encoding/json (same bytes, or both fail)",
    "nontrivial": nontrivial_default,
    "trusted_base": COMMON_TB + ["the reflection-driven encoder (json/encode.go, json/codec.go) is NOT modelled as a whole: only components are proved (string escaping index, integer formatting, validation of RawMessage/Marshaler output through the proved recogniser); everything else is decided by differential execution against encoding/json"],
    "assumptions": ["time.Duration is excluded (sanctioned difference)"],
}

PROPS["C02"] = {
    "harness": "c02",
    "models": ["Generated/JsonParseGen.v parseInt/parseUint/parseString... (components)"],
    "rule": "the C01 type universe as decode targets x documents (std encodings of random values, 56 scalar/structural probes incl. integer width boundaries and >64-bit literals, single-token mutations, key case changes, unknown/duplicate members, wrapping) "
            "x HISTORIES of 1-4 documents decoded into the same variable x {Unmarshal, Parse, Decoder with UseNumber/DisallowUnknownFields in every combination}; observable per document: error presence and a deep rendering of the target (nil vs empty, pointer targets, dynamic types); oracle encoding/json",
    "nontrivial": nontrivial_default,
    "trusted_base": COMMON_TB + ["the reflection-driven decoder (json/decode.go) is NOT modelled as a whole: proved components are the syntax recogniser and scanners; everything else is decided by differential execution against encoding/json"],
    "assumptions": ["after a failed decode both libraries restart from a fresh target (partial content is not part of the guarantee)"],
}

JSON_STATE_TB = COMMON_TB + ["Json/StreamModel.v: hand-written models of Decoder.readValue (buffer/refill/offset discipline) and Tokenizer.Next (delimiter state machine, scope stack) over the machine-translated scanners; tied by correspondence"]
PROPS["C11"] = {
    "harness": "c11",
    "models": ["Json/StreamModel.v (read_value/decode_all)", "Json/StateSpec.v (frame)", "Generated/JsonParseGen.v"],
    "rule": "value streams (short: every failure offset 0..64 x 8 delivery modes; tokens straddling the 4096/32768/65536 read boundaries at deltas -3..3; long streams with values larger than the read quantum and the initial buffer; streams ending inside a value / with a syntax error) "
            "x reader scripts {single read, 1 byte, zero-length reads, pseudo-random chunks 1..K for K in 3,7,100,5000, data returned together with the terminal error} x terminal {io.EOF, reader error at offset f}; "
            "observable: compacted values in order + final class (eof/ueof/readerr/syntax) with InputOffset monotonicity, Buffered()+unread == unconsumed and error stickiness checked inline; oracle: encoding/json.Decoder on the same bytes in one read "
            "(for failing readers: a prefix of the whole stream's values followed by the reader's error); Parse remainder vs encoding/json InputOffset",
    "nontrivial": nontrivial_default,
    "trusted_base": JSON_STATE_TB,
    "assumptions": ["a failing reader keeps returning its error", "model and implementation are compared on values and final class only (offsets depend on how much white space happened to be buffered)"],
}
PROPS["C17"] = {
    "harness": "c17",
    "models": ["Json/StreamModel.v (t_next/tokenize)", "Json/StateSpec.v (g_tokens/spec_tokens)", "Generated/JsonParseGen.v"],
    "rule": "every string of <= 3 symbols over the JSON class alphabet; grammar-directed documents (depth <= 5) emphasising empty containers inside non-empty ones and keys after nested containers, with single-byte corruptions; Reset after a partial run on another (possibly invalid) document; "
            "observable: Value of every token, Depth/Index/IsKey of scalars and opening delimiters, ERR marker, with termination, the sub-slice/Remaining contract and error stickiness checked inline; oracle for valid documents: tokens derived from encoding/json's Decoder.Token stream on the compacted document",
    "nontrivial": nontrivial_default,
    "trusted_base": JSON_STATE_TB,
    "assumptions": [],
}

PROPS["C11"]["claim"] = {
    "text": "Theorems (Properties/C11.v) on the Decoder model: for EVERY error-free reader script (any chunking, zero-length reads, data returned with the final io.EOF; scripts whose reader fails are the separate theorem stream_failing) over EVERY byte stream shorter than 2^30 bytes the decoder returns exactly the grammar's value stream of the concatenated bytes, then io.EOF at a clean end and another error otherwise; "
            "two scripts with the same bytes give the same values and terminal condition; a failing reader gives a prefix of the values then the reader's error; InputOffset never decreases and after every value lies between the end of that value and the start of the next (offset_range); Buffered followed by the undelivered data is exactly the input from InputOffset on (buffered_unconsumed, buffered_rest); "
            "Parse's framing returns as remainder exactly the bytes after the first value and its trailing white space, an error when there is no value, and Unmarshal's acceptance is the grammar's (parse_remainder, parse_unmarshal). Error stickiness is decided by correspondence.",
    "note": "Trusted: Coq kernel; the hand-written Decoder model tied by correspondence on every run (model = implementation on streams up to 300 bytes under 8 delivery modes and every failure offset; longer streams are compared with encoding/json only); the regenerated scanner; extraction+driver; harness. Streams are bounded by 2^30 bytes in the theorems (int arithmetic of the buffer growth).",
}
PROPS["C17"]["claim"] = {
    "text": "Theorems (Properties/C17.v) on the tokenizer model: for EVERY valid document (shorter than 2^62 bytes, nesting up to the 10000 levels encoding/json allows) the tokenizer yields exactly the grammar-derived delimiters and scalars in order with Depth/Index/IsKey of every scalar and opening delimiter and no error; the token values concatenate to the compacted document; "
            "for EVERY byte string it terminates within len+1 calls of Next with every Value the sub-slice ending Remaining bytes before the end; Next after an error returns false and changes nothing. Reset and pooled-stack reuse (Json/TokenReuseModel.v: the scope stack as a backing array with its stale slots, the pool under an arbitrary Get policy): a tokenizer Reset from ANY prior state, or built on ANY stack handed out by the pool, produces the token stream of a fresh tokenizer (next_refines, stale_irrelevant, reset_like_new, pooled_like_new, history_like_new), and only Reset clears the error (err_sticky_c, err_only_reset, reset_clears_err). "
            "Kind/String/Int/Uint/Float/Bool are decided by correspondence (accessor values vs strconv/encoding/json on every scalar token).",
    "note": "Trusted: Coq kernel; the hand-written tokenizer model tied by correspondence on every run (model = implementation on all strings of <= 3 class symbols and ~10^4 structured documents); the regenerated scanner; extraction+driver; harness. The concrete Reset/pool model is a hand transcription of token.go (field by field) tied to the code through the reused-vs-fresh correspondence cases only.",
}
PROPS["C04"]["claim"] = {
    "text": "Theorems (Properties/C04.v) on the thrift model: for both protocols, every supported struct type (ids in any order and spacing, gaps > 15, ranges > 64, required/optional/enum, bools in nested and pointer positions, lists, sets, maps, nested and pointer-to structs) and every value whose required fields are set and whose encoding is shorter than 2^31 bytes, "
            "Unmarshal(Marshal(v)) = v up to nil-vs-empty (and -0.0 = 0.0), and the two protocols decode each other's logical content to the same value; the round trip holds for EVERY fuel above len(Marshal(v)) + depth(type) (t_roundtrip_any_fuel), and Marshal is injective up to the same normalisation: two values of the universe with equal bytes are equal (t_marshal_injective). Reset of Encoder/Decoder is covered by correspondence (a reused encoder/decoder vs a fresh one).",
    "note": "Trusted: Coq kernel, the hand-written thrift model tied by correspondence (model = implementation on ~6.4k random type/value/protocol cases per run), extraction+driver, harness. Strict/non-strict binary differ only in message headers, which are outside the model; unions and unsigned kinds are outside the universe.",
}
PROPS["C08"]["claim"] = {
    "text": "Theorems (Properties/C08.v) on the thrift model: EVERY byte string shorter than 2^31 bytes decodes to a value or an error for either protocol and any target type of the universe - the bitset index check and the collection-size handling can never panic, fuel is linear in the input; "
            "every proper prefix of a valid encoding yields io.EOF (empty) or an unexpected-EOF class error; trailing bytes are reported. Unknown fields (t_unknown_fields: any number of undeclared fields of any type at every field boundary of the top-level struct, both protocols, decode to the narrow result), MissingField (t_missing_field, t_absent_optional) and wrong wire types (t_mismatch_strict: TypeMismatch in strict mode; t_mismatch_skipped, t_mismatch_list: skipped entirely in non-strict mode, the other fields unaffected) are theorems too. Allocation behaviour (runs under an address-space limit), Decoder.Reset keeping the strict mode, sources that are plain io.Readers and the nesting depth (open finding F47: no depth limit, a few million nested undeclared structs overflow the stack) are decided by correspondence. Further (Thrift/SpecD.v): unknown fields at ANY nesting depth - through struct fields, list items, map values and pointers, relation widens - decode to the narrow value up to tnorm from Marshal's bytes and from every alternative conformant encoding, in strict and non-strict mode (t_unknown_nested, t_widen_accept, t_widen_decode); every proper prefix of every alternative and of every widened encoding is an EOF-class error and trailing bytes are reported (t_widen_alt_prefix_eof, t_alt_prefix_eof, t_widen_prefix_eof, t_widen_alt_trailing); a declared set or map whose wire item, key or value type differs is skipped as a whole in non-strict mode and is a TypeMismatch in strict mode, with the empty-collection special cases stated (t_mismatch_set*, t_mismatch_map*, t_mismatch_list_empty), also as a field of a struct whose other fields are unaffected (t_mismatch_coll_field_*); no accepted input announces a negative count: the header readers, the typed decoders and the skip paths all reject it (t_header_size_nonneg, t_negative_*), lengths and compact counts of 2^31 and more are refused, and a count larger than the bytes that follow makes every decoder fail (t_oversized_*). The negative-count theorems were first REFUTED on the model (a skipped list of size -1 was accepted as empty); the witness replayed on the real code was a genuine defect, repaired as 4734263, after which the universal statement was proved.",
    "note": "Trusted as C04. Memory allocation is observed (ulimit -v), not modelled. Genuine defects found through this property's model and repaired: a non-strict type mismatch did not skip the value (11998ba) nor the collection items (8b305a9), MissingField named the wrong id (9b043b4), collections were allocated at the announced size (da2ce40), and negative counts were accepted on the skip paths (4734263, first a refuted theorem). Open: F47 (nesting depth).",
}
PROPS["C13"]["claim"] = {
    "text": "Theorems (Properties/C13.v): the package's encoder model equals a transcription of the Apache Thrift binary and compact protocol specifications for every supported type and value once three recorded deviations (F27a, F27b, F27c) are switched on in the transcription "
            "(binary type codes, 3-byte binary stop field, big-endian compact doubles), and is refuted without them by concrete witnesses. Any other byte-level deviation breaks the theorem or the correspondence. Decode side (t_alt_accept): EVERY alternative conformant compact encoding - any combination of long and short forms of field and list/set headers - of every value of every supported type is accepted with the result obtained from Marshal's own bytes, a list or set of bools announcing item type TRUE decodes like one announcing BOOL (t_bool_list_true); the harness decodes such encodings with the real readers. Two further recorded deviations are outside the Coq universe and are carried by the harness transcription alone: F27d (enum-tagged integers of other widths than int32) and F27e (message headers: types numbered from 0, version bits missing); the message headers are compared with the specification and across reader settings on every run (t.msg).",
    "note": "Trusted as C04, plus the specification transcription (Thrift/Spec.v spec_enc and harness specEnc), written from memory of the specification documents: no Apache Thrift implementation is available offline; this is the weakest oracle of the development. Reader acceptance of alternative conformant encodings is the theorem t_alt_accept (and t_widen_accept of C08 for readers that declare fewer fields).",
}

# ---- C01 / C02: scalar core proved (build-C0102), the reflection-driven encoder/decoder decided differentially ----
_C0102_RULE = (" c01s: strings with each of 44 special bytes at every offset 0..24 of strings whose length crosses the 8-byte word boundaries, pairs of special bytes, 56 UTF-8 sequences "
               "(valid of every width, lone continuation/lead bytes, truncated, overlong, CESU surrogates, > U+10FFFF) at offsets 0..17, U+2028/2029, random; JSON string documents built from pieces "
               "(all escapes, \\uXXXX in mixed case, surrogate pairs / lone / reversed, raw valid and ill-formed UTF-8, bad escapes, truncated \\u, control bytes, missing quote, trailing bytes, null, white space) "
               "with the piece at every offset 0..18 after the opening quote, mutations and truncations; integers of all 11 Go integer types at every 2^k +-2, 10^k +-1, width boundary +-1, > 64 bit, malformed literals. "
               "impl = Marshal/Append/AppendEscape/Escape/Unmarshal/AppendUnescape; oracle = encoding/json; model = extracted translated encodeString / parseStringUnquote and hand models (corr); "
               "spec = extracted transcription of encoding/json (ocorr); s.utf8dec/s.utf8enc/s.utf16/s.sanitize tie the hand models of unicode/utf8 and unicode/utf16 to the real standard library.")
_C0102_TB = [
    "Json/StrExt.v: hand models of unicode/utf8 DecodeRune/EncodeRune and unicode/utf16 (from Table 3-7 of the Unicode standard), of the range-over-string loop of appendCoerceInvalidUTF8 and of appendRune; tied to the real stdlib by ~12k s.utf8*/s.utf16/s.sanitize cases per run",
    "Json/NumModel.v: formatInteger is transcribed by hand (it aliases a [22]byte as [11]uint16 through unsafe.Pointer; little-endian stores assumed, the BE table is not modelled); decodeInt*/decodeUint* glue by hand",
    "Json/StrModel.v: hand-written glue of json.go Parse/Unmarshal, decodeString, AppendEscape, AppendUnescape around the translated functions",
    "extern map of JsonStringGen.v: `r == nil` is modelled as `len r = 0`, make([]byte,0,n) as []; parseUnicode is called with receiver flags 0 (it ignores its receiver)",
    "Json/StrSpec.v std_escape / uq_lit / sanitize and Json/NumSpec.v are transcriptions of encoding/json go1.23.5 checked against it on every run (ocorr), not derived from its source mechanically",
]
for _p in ("C01", "C02"):
    PROPS[_p]["driver"] = "_c01"
    PROPS[_p]["builds"] = [("harness", "verif"), ("harness_c01s", "verif,c01s", "c01s"),
                           ("harness_c01tree", "verif,c01tree", "c01treeenc" if _p == "C01" else "c01treedec")]
    PROPS[_p]["rule"] += _C0102_RULE
    PROPS[_p]["trusted_base"] = PROPS[_p]["trusted_base"] + _C0102_TB
    PROPS[_p]["assumptions"] = PROPS[_p]["assumptions"] + ["strings and documents shorter than 2^62 bytes", "little-endian platform (formatInteger)", "flags given to parseStringUnquote are sound for the input (proved for what Parse computes)"]
_TREE_RULE = (" c01tree: 3000 (thorough 30000) types of the tree universe (fixed shapes first), 5 values each: j.tree.enc = Marshal of the value against encoding/json and the extracted jenc; j.tree.dec = Unmarshal into a fresh zero value of the standard encodings, the same with white space, null substituted for sub-values, array lengths changed, duplicated / reordered / unknown / case-changed keys, and a malformed stream (truncations, byte mutations), against encoding/json and the extracted jdec (silent on 1.2% of the cases: Unicode-folded keys, stale slice backing arrays).")
PROPS["C01"]["rule"] += _TREE_RULE
PROPS["C02"]["rule"] += _TREE_RULE
for _p in ("C01", "C02"):
    PROPS[_p]["trusted_base"] = PROPS[_p]["trusted_base"] + ["Json/TreeModel.v: hand-written model of the reflection-driven encoder and decoder over the tree universe (jenc, jdec), tied to the real code and to encoding/json by the j.tree.* cases; the harness builds Go types and values of the universe by reflection (reflect.StructOf) from the printed s-expressions"]
PROPS["C01"]["models"] = ["Generated/JsonStringGen.v json_encoder_encodeString (machine translation of encoder.encodeString) + json_intLELookup", "Generated/JsonParseGen.v json_escapeIndex/json_escapeByteRepr",
                          "Json/StrExt.v", "Json/StrModel.v", "Json/NumModel.v", "Json/FloatModel.v (glue around strconv.AppendFloat, a Section variable)", "Json/StrSpec.v, Json/NumSpec.v, Json/FloatSpec.v (transcriptions of encoding/json)", "Json/TreeModel.v jenc (hand-written model of the structural encoder)"]
PROPS["C02"]["models"] = ["Generated/JsonStringGen.v json_decoder_parseStringUnquote (machine translation)", "Generated/JsonParseGen.v parseString/parseUnicode/parseUintHex/parseInt/parseUint/parseNumber/internalParseFlags/skipSpaces/hasNullPrefix",
                          "Json/StrExt.v", "Json/StrModel.v", "Json/NumModel.v", "Json/StrSpec.v, Json/NumSpec.v (transcriptions of encoding/json)", "Json/TreeModel.v jdec (hand-written model of the structural decoder)"]
PROPS["C01"]["claim"] = {
    "text": "PARTIAL at proof level: outside the modelled type universe the reflection-driven encoder is decided by differential execution against encoding/json only. Proved for EVERY input (Properties/C01.v): the machine translation of encoder.encodeString (regenerated from json/encode.go on every run) appends, "
            "for every byte string incl. ill-formed UTF-8 shorter than 2^62, every flag word and every buffer, exactly the standard escaping selected by the EscapeHTML bit - quote and backslash escaped, the short forms for backspace, form feed, new line, carriage return and tab, other control bytes as u00XX escapes, "
            "< > & as u00XX escapes under EscapeHTML only, U+2028/2029 always escaped, each byte outside well-formed UTF-8 as the escape of U+FFFD, everything else (0x7f included) verbatim (c01_encode_string_std; c01_escape_string_std for AppendEscape/Escape); "
            "escapeIndex returns -1 exactly when no byte needs an escape (c01_escape_index) and in that case the early return quote-s-quote IS the standard escaping (c01_escape_fast_path); the standard escaping of any byte string is a JSON text of the RFC 8259 grammar (c01_escape_is_json), "
            "the standard unquoting reads it back as the string with ill-formed bytes replaced by U+FFFD (c01_unquote_escape, c01_sanitize_fixed), and so does the model of json.Unmarshal on the model of json.Marshal's output (c01_string_round_trip). "
            "The hand model of formatInteger/appendInt/appendUint (json/int.go, the package's own table-driven code) writes the canonical decimal text of every int64 and uint64 (c01_append_int, c01_append_uint, c01_decimal_canonical) and every value of every Go integer type survives formatting + typed decoding (c01_int_round_trip). Floats: the package's format selection ('f' or 'e' from the 1e-6 / 1e21 cut-offs at the value's bit size), NaN/Inf rejection and exponent clean-up around strconv.AppendFloat equal encoding/json's floatEncoder for EVERY float description, bit size, destination buffer and EVERY AppendFloat function whose 'e' text has at least four bytes (c01_float_glue_equal; the condition is exact: c01_clean_exp_prefix_iff, c01_float_glue_unrestricted_refuted). "
            "STRUCTURE (c01tree_* theorems, model Json/TreeModel.v jenc tied to the package and to encoding/json by the j.tree.enc cases on every run): for every type of a universe of bool, sized integers, strings, pointers, slices, arrays, string-keyed maps and structs with omitempty fields, and every value of the type, "
            "the bytes Marshal writes are a JSON text of the RFC 8259 grammar (c01tree_enc_valid, also with any white space between tokens), the model of Unmarshal reads them back as the value up to an explicit normalisation (ill-formed UTF-8 sanitised, an omitempty empty non-nil slice or map comes back nil, a non-nil pointer to nil comes back as a nil pointer: c01tree_roundtrip, c01tree_norm_id, c01tree_roundtrip_id) and the encoding is injective up to it (c01tree_enc_injective, _id). "
            "Everything else of the statement (tags with special characters, embedding, Marshalers, interfaces, floats, indent, other key types) is decided by correspondence with encoding/json on every run on a reflect-generated type universe.",
    "note": "Partial. Trusted: Coq kernel; translator; hand models of unicode/utf8, unicode/utf16 (StrExt.v) and of formatInteger (NumModel.v) tied to the real code/stdlib by ~63k c01s cases per run (impl = oracle = model = spec); std_escape is a transcription of encoding/json go1.23.5 checked against it on every run; extraction+driver; harness. Three recorded findings (F28, F30, F12b) are subtracted by type-shape class.",
}
PROPS["C02"]["claim"] = {
    "text": "PARTIAL at proof level: outside the modelled type universe the reflection-driven decoder is decided by differential execution against encoding/json only. Proved for EVERY input (Properties/C02.v): the machine translation of decoder.parseStringUnquote (over the translated parseString/parseUnicode/parseUintHex, regenerated from json/parse.go on every run) fails exactly when the input "
            "(shorter than 2^62, any sound flags word) does not start with an RFC 8259 string literal and otherwise returns exactly the standard unquoting - simple escapes, uXXXX escapes as UTF-8, high+low surrogate pair as one rune, every other surrogate as U+FFFD with the following escape read on its own, raw ill-formed UTF-8 bytes as U+FFFD, "
            "also on the zero-copy Unescaped fast path - and the rest of the input (c02_parse_string_unquote; c02_unquote_grammar); json.Unmarshal into a string (glue model over the translated internalParseFlags/skipSpaces/hasNullPrefix) equals the standard behaviour on every input incl. null, white space and trailing bytes (c02_unmarshal_string); "
            "parseUint/parseInt are exact with overflow exactly outside uint64/int64 (c02_parse_uint_exact, c02_parse_int_exact), the typed decoders decodeInt8..64/decodeUint8..64 return the value iff it is in the range of the Go type and reject a minus sign for unsigned types (c02_decode_int_exact), parseNumber classifies every valid literal (c02_parse_number_kind); "
            "decoding what the encoder wrote returns the (sanitized) original (c02_string_round_trip, c02_int_round_trip). "
            "STRUCTURE (c02tree_* theorems, model Json/TreeModel.v jdec following json/decode.go function by function, tied to the package and to encoding/json by ~57k j.tree.dec cases per run): for every type of the universe (bool, sized integers, strings, pointers, slices, arrays, string-keyed maps, structs), EVERY document and every fuel above its length: the decoder accepts only RFC 8259 texts and consumes exactly one grammar value (c02tree_dec_valid, _invalid, _value), "
            "returns a value of the target type (c02tree_dec_shape), reads Marshal's output with any white space between tokens back as the normalised value (c02tree_dec_ws_roundtrip, c02tree_dec_ws), gives the zero value for null and clears only pointers, slices and maps on an inner null (c02tree_null, _null_inner), fills [n]T with what fits, zeroes the missing and skips surplus elements of any type (c02tree_arr_fit/_short/_long), "
            "decodes a struct from members in ANY order, under the exact name or a name equal up to ASCII case (first such field), with unknown members of any type anywhere (c02tree_obj_any_order, _obj_permutation, _apply_members_spec); its integer reader is the model over the machine-translated parseInt/parseUint (c02tree_dec_int_link); fuel is immaterial (c02tree_dec_fuel*). "
            "Everything else (interfaces, Unmarshalers, other key types, the string option, Unicode case folding of keys, histories of documents into one variable) is decided by correspondence with encoding/json on every run.",
    "note": "Partial. Trusted as C01, plus: uq_lit / spec_unmarshal_string / spec_unmarshal_int are transcriptions of encoding/json's unquoteBytes and scanner behaviour checked against it on every run. Six recorded findings (F28, F31, F14, F30, F44, F45) are subtracted by type-shape class.",
}

# per-property fragments (lib/props_cXX.py defining ENTRY, and optionally CLAIM): one file per property so that
# several people can work in parallel without touching this file
import os, glob as _glob, importlib.util as _ilu
for _f in sorted(_glob.glob(os.path.join(os.path.dirname(os.path.abspath(__file__)), "props_c[0-9][0-9].py"))):
    _pid = "C" + os.path.basename(_f)[7:9]
    _spec = _ilu.spec_from_file_location("props_" + _pid, _f)
    _m = _ilu.module_from_spec(_spec)
    _m.COMMON_TB = COMMON_TB
    _m.nontrivial_default = nontrivial_default
    _spec.loader.exec_module(_m)
    PROPS[_pid] = _m.ENTRY
    if getattr(_m, "CLAIM", None):
        PROPS[_pid]["claim"] = _m.CLAIM
