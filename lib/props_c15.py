ENTRY = {
    "harness": "c15",
    "driver": "_c15",
    "models": ["Json/AppendModel.v (hand-written model of the capacity arithmetic of encodeBytes, encodeToString, rollback in json/encode.go)"],
    "rule": "the C01 type universe plus shapes aimed at the three capacity-arithmetic sites (base64, ',string' requoting, rollbacks on erroring marshalers) x values from a per-case seed (incl. values that make Append fail part-way) "
            "x prefix lengths {0,1,7,4095,4096} x spare capacity {0, n-1, n, n+1, 2n+64} relative to the encoded size n x AppendFlags with SortMapKeys on; AppendEscape/AppendUnescape on strings with escapable bytes; "
            "observable: prefix cells of the destination array unchanged, result begins with b, same error presence as Append(nil,..), remainder equal to Append(nil,..); "
            "encodeBytes additionally observed exactly (result len, cap, array kept) on 984 (len, cap, payload) triples and compared with the Coq model",
    "nontrivial": nontrivial_default,
    "trusted_base": COMMON_TB + ["the reflection-driven encoder is NOT modelled as a whole: only the three sites that do their own length/capacity arithmetic are; all other writes go through the built-in append (trusted: Go runtime)",
                                 "encodeToString's model (requote) and rollback_to are transcribed by hand and tied to the code only through the differential contract check, not step by step"],
    "assumptions": ["SortMapKeys is kept on so that Append(nil,..) is repeatable"],
}
CLAIM = {
    "text": "Theorems (Properties/C15.v) over an explicit backing-array model: encodeBytes for EVERY destination length and capacity yields prefix ++ quoted base64, never writes a prefix cell and never indexes out of range, so that what it appends is what it appends to nil and does not depend on capacity or on the bytes beyond len(b) (encode_bytes_oblivious, encode_bytes_cap_irrelevant), the backing array being replaced exactly when the spare capacity is below the encoded size and then by one of exactly the needed capacity (encode_bytes_realloc_iff, encode_bytes_realloc_cap); encodeToString's requote-in-place leaves prefix ++ quoted form only; rollback returns exactly the bytes before the failed value. "
            "The whole-Append contract (all values, prefix lengths, spare capacities, flags, error cases, AppendEscape/AppendUnescape) is decided by the differential harness against Append(nil, ...).",
    "note": "Partial at proof level: the reflection-driven encoder is not modelled; the theorems cover the only three sites with hand-written capacity arithmetic, one of them (encodeBytes) tied to the code by exact correspondence. Trusted: Coq kernel, extraction+driver, harness, Go's built-in append.",
}
