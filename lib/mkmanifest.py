#!/usr/bin/env python3
"""Regenerate MANIFEST.json from lib/props.py (claimed checks) and properties.jsonl (the rest -> not_applicable)."""
import json, os, sys
ROOT = os.path.dirname(os.path.dirname(os.path.abspath(__file__)))
sys.path.insert(0, os.path.join(ROOT, "lib"))
from props import PROPS


def technique_of(cfg):
    models = " ".join(cfg.get("models", []))
    gen = "Generated/" in models
    hand = any(not m.startswith("Generated/") for m in cfg.get("models", []))
    parts = ["machine-checked proof in Coq 8.16.1 (theorems in coq/Properties, kernel-checked on every run, Print Assumptions recorded)"]
    if gen and hand:
        parts.append("about a model whose scanners/primitives are regenerated from the Go source by a translator on every run and whose remaining parts are hand-written executable Gallina")
    elif gen:
        parts.append("about a model regenerated from the Go source by a translator on every run")
    else:
        parts.append("about a hand-written executable Gallina model")
    parts.append("tied to the code by differential correspondence on every run (extracted OCaml model vs implementation vs independent oracle), which also searches for a failing input when a proof or the correspondence breaks")
    return ", ".join(parts)


props = [json.loads(l) for l in open(os.path.join(ROOT, "properties.jsonl"))]
hooks = []
hp = os.path.join(ROOT, "MANIFEST.hooks")
if os.path.exists(hp):
    hooks = [l.split()[0] for l in open(hp) if l.strip() and not l.startswith("#")]
checks, na = [], []
for p in props:
    pid = p["id"]
    cfg = PROPS.get(pid)
    if cfg and cfg.get("claim"):
        c = cfg["claim"]
        checks.append({
            "property_id": pid,
            "quick_cmd": "./check %s --tier quick" % pid,
            "thorough_cmd": "./check %s --tier thorough" % pid,
            "evidence_file": "/verif/evidence/%s.json" % pid,
            "replay_cmd_template": "./check %s --replay {path}" % pid,
            "engine": "coq-proof+correspondence",
            "level_claimed": {"category": "proof", "text": c["text"], "design_ref": c.get("design_ref", "DESIGN.md chapter 12 (12.2 theorems per property, 12.8 for the structural json models of C01/C02/C14); the plan is section 5 (%s)" % pid)},
            "level_note": c["note"],
            "technique": c.get("technique", technique_of(cfg)),
        })
    else:
        na.append({"property_id": pid, "reason": (cfg or {}).get("na_reason", "check not built yet in this session (planned, see DESIGN.md section 5); not a claim that the technique cannot apply")})
m = {
    "version": 1,
    "setup_cmd": "./setup.sh",
    "hooks": {"guard": "verif", "enable": "go build -tags verif (harness module replaces github.com/segmentio/encoding => /repo)",
              "baseline_off_cmd": "cd /repo && go test -vet=off -count=1 -timeout 25m ./...",
              "source_commits": hooks, "add_only": True},
    "engines": [
        {"name": "coq-proof+correspondence", "path": "check", "serves_properties": [c["property_id"] for c in checks],
         "kind_free_text": "Coq 8.16.1 development (coq/): models regenerated from /repo by the translator gen/, hand-written models for reflection-driven code, property theorems; tie checked on every run by differential execution of the extracted OCaml model (ocaml/) against the implementation and the property's oracle (harness/)"},
    ],
    "checks": checks,
    "notes": "Technique family: machine-checked proof in Rocq/Coq 8.16.1; see DESIGN.md. A check fails (exit 1) when a proof obligation, the translator, or a correspondence no longer checks, and then searches for a concrete failing input.",
    "not_applicable": na,
}
json.dump(m, open(os.path.join(ROOT, "MANIFEST.json"), "w"), indent=1)
print("MANIFEST: %d checks, %d not yet claimed" % (len(checks), len(na)))
