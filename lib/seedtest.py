#!/usr/bin/env python3
"""Confirm a seeded breaking change and run the property's check against it.

usage: lib/seedtest.py <PROP> <N> [--from /tmp/seed_<PROP>_<N>]   (first time: imports the artefacts)
       lib/seedtest.py <PROP> <N>                                  (re-run from /verif/seeded/<PROP>_<N>)
       lib/seedtest.py all                                         (re-run every stored seed; table on stdout)

Steps: (1) in a scratch worktree under /tmp: the patch applies, the repo builds, the package's existing tests pass,
the demonstration test fails with the patch and passes without it; (2) the artefacts are stored under
/verif/seeded/<PROP>_<N>/; (3) the patch is applied to /repo, `./check <PROP>` (quick) runs, the patch is undone with
`git -C /repo checkout -- .` whatever happens; meta.json records whether the check raised a VIOLATION.
No seeded change is ever committed to /repo."""
import json, os, re, shutil, subprocess, sys, time

VERIF = os.path.dirname(os.path.dirname(os.path.abspath(__file__)))
ENV = dict(os.environ, GOFLAGS="-mod=mod", GOPROXY="off", GOSUMDB="off", GOTOOLCHAIN="local")


def sh(cmd, cwd=None, timeout=3000):
    p = subprocess.run(cmd, shell=True, cwd=cwd, env=ENV, stdout=subprocess.PIPE, stderr=subprocess.STDOUT, text=True, errors="replace", timeout=timeout)
    return p.returncode, p.stdout


def pkg_dirs(diff_text):
    ds = []
    for m in re.finditer(r"^\+\+\+ b/(\S+)", diff_text, re.M):
        d = os.path.dirname(m.group(1))
        if d not in ds:
            ds.append(d)
    return ds


def confirm(sd):
    """scratch-worktree confirmation; returns dict"""
    wt = "/tmp/sv_%d" % os.getpid()
    res = {}
    diff = os.path.join(sd, "patch.diff")
    demo = os.path.join(sd, "demo_test.go")
    dirs = pkg_dirs(open(diff, errors="replace").read())
    try:
        rc, out = sh("git -C /repo worktree add --detach %s HEAD" % wt)
        assert rc == 0, out
        rc, out = sh("git apply %s" % diff, cwd=wt)
        res["applies"] = rc == 0
        if rc != 0:
            res["apply_output"] = out[-2000:]
            return res
        rc, out = sh("go build ./... && go vet ./%s/ >/dev/null 2>&1; go test -vet=off -count=1 -run '^$' ./..." % dirs[0], cwd=wt)
        res["builds"] = rc == 0
        pk = " ".join("./%s/..." % d for d in dirs)
        # the package(s) touched plus json (which depends on iso8601/ascii) -- the full suite is run for the table at the end
        rc, out = sh("go test -vet=off -count=1 -timeout 25m ./...", cwd=wt)
        res["existing_tests_pass"] = rc == 0
        if rc != 0:
            res["existing_tests_output"] = out[-3000:]
        if not os.path.exists(demo):
            res["demo"] = "none (revert of a fix commit: the pre-fix behaviour is the demonstration, see the commit message)"
            res["demo_fails_with_change"] = res["demo_passes_without_change"] = True
            return res
        shutil.copy(demo, os.path.join(wt, dirs[0], "zz_seeded_demo_test.go"))
        rc, out = sh("go test -vet=off -count=1 -run 'TestSeeded' ./%s/" % dirs[0], cwd=wt)
        res["demo_fails_with_change"] = rc != 0
        res["demo_output_with_change"] = out[-1500:]
        sh("git apply -R %s" % diff, cwd=wt)
        rc, out = sh("go test -vet=off -count=1 -run 'TestSeeded' ./%s/" % dirs[0], cwd=wt)
        res["demo_passes_without_change"] = rc == 0
        if rc != 0:
            res["demo_output_without_change"] = out[-1500:]
    finally:
        sh("git -C /repo worktree remove --force %s" % wt)
        shutil.rmtree(wt, ignore_errors=True)
        sh("git -C /repo worktree prune")
    return res


def run_check(prop, sd, extra_props=()):
    diff = os.path.join(sd, "patch.diff")
    results = {}
    import fcntl
    lk = open(os.path.join(VERIF, ".repo.lock"), "w")
    fcntl.flock(lk, fcntl.LOCK_EX)      # no other check or harness build sees the seeded tree
    ENV["VERIF_LOCK_HELD"] = "1"
    rc, out = sh("git -C /repo status --porcelain")
    assert out.strip() == "", "/repo is not clean: " + out
    try:
        rc, out = sh("git -C /repo apply %s" % diff)
        assert rc == 0, out
        for p in (prop,) + tuple(extra_props):
            t0 = time.time()
            rc, out = sh("./check %s --tier quick" % p, cwd=VERIF, timeout=3600)
            viol = [l for l in out.splitlines() if l.startswith("VIOLATION")]
            results[p] = {"exit": rc, "violations": viol[:5], "seconds": round(time.time() - t0, 1),
                          "tail": out[-1200:] if not viol else ""}
            for v in viol[:1]:
                m = re.search(r"replay=(\S+)", v)
                if m and os.path.exists(m.group(1)):
                    shutil.copy(m.group(1), os.path.join(sd, "replay_%s.txt" % p))
    finally:
        sh("git -C /repo checkout -- .")
        rc, out = sh("git -C /repo status --porcelain")
        assert out.strip() == "", "/repo not restored: " + out
        # put the generated models back to the unseeded source at once (other people build against them)
        sh("./gen -repo /repo -out %s/coq/Generated -config %s/gen/config.json" % (VERIF, VERIF), cwd=os.path.join(VERIF, "gen"))
        sh("timeout 600 make -j8 Generated/JsonParseGen.vo Generated/ProtoGen.vo Generated/Iso8601Gen.vo Generated/AsciiGen.vo", cwd=os.path.join(VERIF, "coq"))
        ENV.pop("VERIF_LOCK_HELD", None)
        lk.close()
    return results


def one(prop, n, src=None, extra=()):
    sd = os.path.join(VERIF, "seeded", "%s_%s" % (prop, n))
    if src and src.startswith("revert:"):
        # revert of a fix commit of /repo: the reverse diff of that commit
        commit = src.split(":", 1)[1]
        os.makedirs(sd, exist_ok=True)
        rc, out = sh("git -C /repo diff %s %s^ -- ." % (commit, commit))
        open(os.path.join(sd, "patch.diff"), "w").write(out)
        rc, msg = sh("git -C /repo log --format=%%s -1 %s" % commit)
        open(os.path.join(sd, "description.txt"), "w").write("Revert of %s (%s)\n" % (commit, msg.strip()))
        src = None
    if src:
        os.makedirs(sd, exist_ok=True)
        shutil.copy(src + ".diff", os.path.join(sd, "patch.diff"))
        shutil.copy(src + "_demo_test.go", os.path.join(sd, "demo_test.go"))
        shutil.copy(src + ".txt", os.path.join(sd, "description.txt"))
    meta_path = os.path.join(sd, "meta.json")
    meta = json.load(open(meta_path)) if os.path.exists(meta_path) else {}
    meta.update({"property": prop, "seed": "%s_%s" % (prop, n),
                 "description": open(os.path.join(sd, "description.txt"), errors="replace").read().strip().splitlines()[0],
                 "origin": ("revert of a fix commit made during this work (regression seed)" if not os.path.exists(os.path.join(sd, "demo_test.go"))
                            else "fresh sub-agent given only the property text and a scratch worktree")})
    meta["confirmation"] = confirm(sd)
    c = meta["confirmation"]
    ok = c.get("applies") and c.get("builds") and c.get("existing_tests_pass") and c.get("demo_fails_with_change") and c.get("demo_passes_without_change")
    meta["confirmed"] = bool(ok)
    if ok:
        meta["check"] = run_check(prop, sd, extra)
        meta["detected"] = bool(meta["check"][prop]["violations"]) and meta["check"][prop]["exit"] == 1
        meta["detected_by"] = [p for p, r in meta["check"].items() if r["violations"]]
    json.dump(meta, open(meta_path, "w"), indent=1)
    print("%s_%s confirmed=%s detected=%s %s" % (prop, n, meta["confirmed"], meta.get("detected"),
          (meta.get("check", {}).get(prop, {}).get("violations") or [""])[0]))
    if not ok:
        print(json.dumps(c, indent=1)[:3000])
    return meta


def main():
    a = sys.argv[1:]
    if a[0] == "all":
        for d in sorted(os.listdir(os.path.join(VERIF, "seeded"))):
            if "_" in d and os.path.isdir(os.path.join(VERIF, "seeded", d)):
                p, n = d.split("_", 1)
                one(p, n)
        return
    prop, n = a[0], a[1]
    src = None
    extra = ()
    i = 2
    while i < len(a):
        if a[i] == "--from":
            src = a[i + 1]; i += 2
        elif a[i] == "--also":
            extra = tuple(a[i + 1].split(",")); i += 2
        else:
            i += 1
    one(prop, n, src, extra)


if __name__ == "__main__":
    main()
