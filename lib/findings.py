"""Known-findings protocol (DESIGN.md section 8). The file known_findings.json is committed and
never written at run time. An entry suppresses a disagreement only if its *narrow* matcher
accepts the failing case; everything else is a VIOLATION."""
import json, os, re

MATCHERS = {}


def matcher(name):
    def deco(f):
        MATCHERS[name] = f
        return f
    return deco


def load(path, pid):
    if not os.path.exists(path):
        return []
    data = json.load(open(path))
    return [e for e in data.get("findings", []) if e.get("property") == pid and e.get("status") == "open"]


def match(entries, case):
    for e in entries:
        m = MATCHERS.get(e.get("matcher"))
        if m and m(e, case):
            return e
    return None


def unhex(h):
    return b"" if h == "-" else bytes.fromhex(h)


@matcher("exact-case")
def _exact(e, c):
    return c.fn == e.get("fn") and c.args == e.get("args")
