"""Known-findings protocol (DESIGN.md section 8). The file known_findings.json is committed and
never written at run time. An entry suppresses a disagreement only if its *narrow* matcher
accepts the failing case; everything else is a VIOLATION."""
import json, os, re

MATCHERS = {}


def matcher(name):
    def deco(f):
        MATCHERS[name] = f
        return f
    return deco


def load(path, pid):
    if not os.path.exists(path):
        return []
    data = json.load(open(path))
    return [e for e in data.get("findings", []) if e.get("property") == pid and e.get("status") == "open"]


def match(entries, case):
    for e in entries:
        m = MATCHERS.get(e.get("matcher"))
        if m and m(e, case):
            return e
    return None


def unhex(h):
    return b"" if h == "-" else bytes.fromhex(h)


@matcher("exact-case")
def _exact(e, c):
    return c.fn == e.get("fn") and c.args == e.get("args")




def _parse(s):
    toks = s.replace("(", " ( ").replace(")", " ) ").split()
    pos = [0]

    def rec():
        t = toks[pos[0]]
        pos[0] += 1
        if t == "(":
            items = []
            while toks[pos[0]] != ")":
                items.append(rec())
            pos[0] += 1
            return items
        return t
    return rec()


def _show(x):
    if isinstance(x, list):
        return "(" + " ".join(_show(i) for i in x) + ")"
    return x


def _empty_enc(x):
    """values whose proto encoding is empty even when a zero value is wanted"""
    if x == "nil":
        return True
    if isinstance(x, list):
        if x == ["l"]:
            return True
        if x and x[0] == "s":
            return all(_empty_enc(i) for i in x[1:])
        if len(x) == 2 and x[0] == "p":
            return isinstance(x[1], list) and x[1][:1] == ["s"] and _empty_enc(x[1]) or (isinstance(x[1], list) and x[1][:1] == ["p"] and _empty_enc(x[1]))
    return False


def _erase(x):
    if isinstance(x, list):
        x = [_erase(i) for i in x]
        if len(x) == 2 and x[0] == "p" and (_empty_enc(x) or x[1] == "nil"):
            return "nil"
    return x


def _erase_fields(x, in_field=True):
    """like _erase, but only for pointers in FIELD position of a struct: as elements of a repeated field the package
    keeps non-nil pointers to empty messages (each element is written with its own tag and zero length)"""
    if isinstance(x, list):
        if x[:1] == ["s"]:
            x = ["s"] + [_erase_fields(i, True) for i in x[1:]]
        elif x[:1] == ["p"]:
            x = ["p"] + [_erase_fields(i, in_field) for i in x[1:]]
        else:
            x = x[:1] + [_erase_fields(i, False) for i in x[1:]]
        if in_field and len(x) == 2 and x[0] == "p" and (_empty_enc(x) or x[1] == "nil"):
            return "nil"
    return x


@matcher("proto.ptr-to-empty-message")
def _ptr_empty(e, c):
    """p.rt: the only difference is that non-nil pointers to messages whose encoding is empty (struct{}, or a struct whose
    fields are all nil pointers, empty repeated fields or such structs) came back nil."""
    if c.fn != "p.rt" or c.impl == c.oracle or c.impl.startswith("err") or c.impl == "PANIC":
        return False
    try:
        o, i = _parse(c.oracle), _show(_parse(c.impl))
        return (_show(_erase(o)) == i or _show(_erase_fields(o)) == i) and "(p " in c.oracle
    except Exception:
        return False


@matcher("spec.known-deviation")
@matcher("thrift.known-deviation")
def _thrift_dev(e, c):
    """t.enc / t.msg: the bytes differ from the specification only by recorded deviations, and the one named by the entry is among them."""
    if c.fn not in ("t.enc", "t.enc.x", "t.msg", "p.customwire", "p.bigfield") or not c.oracle.startswith("spec="):
        return False
    m = re.search(r"known-deviations=([a-z0-9,]*)", c.oracle)
    return bool(m) and e.get("deviation") in m.group(1).split(",")


@matcher("fn-suffix")
def _fn_suffix(e, c):
    """the case belongs to a type-shape class identified by the harness (suffix of the case function name)"""
    return c.fn.endswith(e.get("suffix", "\0"))
