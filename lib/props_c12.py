"""C12: proto bytes are standard protobuf wire format, both ways."""

ENTRY = {
    "harness": "c12",
    "driver": "_c12",
    "builds": [("harness_c12", "verif,c12")],
    "models": ["Proto/Model.v (hand-written model of the package's encoder/decoder, shared with C03/C16/C07)",
               "Proto/WireSpec.v (transcription of the protobuf encoding specification: records, merge semantics, dialects, legal encodings; Go type -> message descriptor)",
               "Generated/ProtoGen.v (translated wire primitives)"],
    "rule": "hand-picked shapes + seeded random struct types (as C03, without RawMessage) x zero value and boundary-biased values (float32 signalling NaNs quieted: the oracle's API carries float32 as float64). "
            "Oracle: google.golang.org/protobuf v1.26.0 (dynamicpb over a proto2 descriptor built at run time from the Go struct type: pointers = optional with presence, slices = repeated unpacked, maps = map entries, tags zigzag/fixed = sint/fixed). "
            "w.std: the value the reference decodes from proto.Marshal(&v) vs v (model: spec_decode std o Model.Marshal); "
            "w.dec: proto.Unmarshal vs the reference on the reference's own encodings (with and without explicitly written zero values), on the package's encoding, and on legal re-encodings built from them at the record level "
            "(stable shuffle of fields at every nesting level, varints of tags/lengths/values padded up to 10 bytes, singular embedded messages split into 2-3 occurrences incl. inside repeated elements and map values, "
            "singular scalars preceded by 1-2 occurrences with arbitrary values, unknown fields of every wire type); the harness first checks that the reference reads each re-encoding as the original value (w.bug otherwise); "
            "model: Model.Unmarshal and spec_decode std, and inside the driver spec_decode pkgd accepted => same value as Model.Unmarshal (DIALECT-MISMATCH marker); "
            "o.dec: mutated encodings, reference vs spec_decode std only (ties the transcription to the reference; inputs with group wire types are skipped, reference panics are recorded as o.refpanic without verdict); "
            "w.type: proto.TypeOf vs the expected .proto shape. Case-name suffixes name input classes decided from the input alone: .boolpad (a bool written on more than one byte), .zzrep (repeated field tagged zigzag), "
            ".emap (map without entries / entry record with empty payload), .f17 (pointer to a message with empty encoding), .fixtag (uint32/uint64 tagged fixed32/fixed64, TypeOf only)",
    "nontrivial": nontrivial_default,
    "trusted_base": COMMON_TB + [
        "Proto/Model.v: hand-written model of the reflection-driven codecs, tied to the code by correspondence (w.dec: impl vs Model.Unmarshal on every reference encoding and re-encoding; C03/C16/C07 for the rest)",
        "Proto/WireSpec.v: transcription from memory of the protobuf encoding specification, tied to the reference implementation google.golang.org/protobuf v1.26.0 by correspondence on every w.dec and o.dec input (valid, re-encoded and mutated)",
        "the oracle: google.golang.org/protobuf v1.26.0 (proto, dynamicpb, protodesc, protowire) and the harness's construction of the descriptor from the Go type",
        "Go memory layout is abstracted to values (as C03)",
    ],
    "assumptions": ["universe: finite struct types with a .proto equivalent (no RawMessage; [N]byte is read as bytes of length N); field numbers unique, 1..2047 in the generated types; groups and packed repeated scalars excluded",
                    "nil-vs-empty of byte slices, slices and maps is not observable on the wire; map entry order is canonicalised by sorting"],
}
CLAIM = None
