"""C12: proto bytes are standard protobuf wire format, both ways."""

ENTRY = {
    "harness": "c12",
    "driver": "_c12",
    "builds": [("harness_c12", "verif,c12")],
    "models": ["Proto/Model.v (hand-written model of the package's encoder/decoder, shared with C03/C16/C07)",
               "Proto/WireSpec.v (transcription of the protobuf encoding specification: records, merge semantics, dialects, canonical encoder, the set of legal encodings; Go type -> message descriptor; message -> Go value)",
               "Generated/ProtoGen.v (translated wire primitives)"],
    "rule": "hand-picked shapes + seeded random struct types (as C03, without RawMessage) x zero value and boundary-biased values (float32 signalling NaNs quieted: the oracle's API carries float32 as float64). "
            "Oracle: google.golang.org/protobuf v1.26.0 (dynamicpb over a proto2 descriptor built at run time from the Go struct type: pointers = optional with presence, slices = repeated unpacked, maps = map entries, tags zigzag/fixed = sint/fixed). "
            "w.std: the value the reference decodes from proto.Marshal(&v) vs v (model: spec_decode std o Model.Marshal); "
            "w.dec: proto.Unmarshal vs the reference on the reference's own encodings (with and without explicitly written zero values), on the package's encoding, and on legal re-encodings built from them at the record level "
            "(stable shuffle of fields at every nesting level, varints of tags/lengths/values padded up to 10 bytes, singular embedded messages split into 2-3 occurrences incl. inside repeated elements and map values, "
            "singular scalars preceded by 1-2 occurrences with arbitrary values, unknown fields of every wire type, singular non-pointer scalar fields that hold their default left out -- map entries without key or value included); the harness first checks that the reference reads each re-encoding as the original value (w.bug otherwise); "
            "model: Model.Unmarshal and spec_decode std, and inside the driver the claim of theorem (b1) on this input: spec_decode pkgd accepted => same value as Model.Unmarshal (DIALECT-MISMATCH marker); "
            "o.dec: mutated encodings, reference vs spec_decode std only (ties the transcription to the reference; inputs with group wire types are skipped, reference panics are recorded as o.refpanic without verdict); "
            "w.type: proto.TypeOf vs the expected .proto shape. Case-name suffixes name input classes decided from the input alone (known findings): .zzrep (repeated field tagged zigzag/fixed32/fixed64), "
            ".emap (map without entries / entry record with empty payload), .f17 (pointer to a message with empty encoding; entry without value in a map of pointers), .zzstruct (zigzag tag on a struct-typed field)",
    "nontrivial": nontrivial_default,
    "trusted_base": COMMON_TB + [
        "Proto/Model.v: hand-written model of the reflection-driven codecs, tied to the code by correspondence (w.dec: impl vs Model.Unmarshal on every reference encoding and re-encoding; w.std; C03/C16/C07 for the rest)",
        "Proto/WireSpec.v: transcription from memory of the protobuf encoding specification, tied to the reference implementation google.golang.org/protobuf v1.26.0 by correspondence on every w.dec and o.dec input (valid, re-encoded and mutated); groups are not transcribed",
        "the oracle: google.golang.org/protobuf v1.26.0 (proto, dynamicpb, protodesc, protowire) and the harness's construction of the descriptor from the Go type",
        "Go memory layout is abstracted to values (as C03)",
    ],
    "assumptions": ["universe: finite struct types with a .proto equivalent (no RawMessage; [N]byte is read as bytes of length N); field numbers unique, 1..2047 in the generated types; groups and packed repeated scalars excluded",
                    "nil-vs-empty of byte slices, slices and maps is not observable on the wire; map entry order is canonicalised by sorting",
                    "theorem (b) leaves byte arrays, RawMessage and maps with pointer-typed values to the correspondence check (predicate plain)"],
}
CLAIM = {
    "text": "Theorems (Properties/C12.v), over an independent Coq transcription of the protobuf encoding specification (Proto/WireSpec.v: records, merge semantics, canonical encoder, and the inductively described set of ALL legal encodings of a message: "
            "occurrences of different fields interleaved in any order, every varint on any legal number of bytes, arbitrary earlier occurrences of singular scalars, embedded messages split into several occurrences, unknown fields): "
            "(a) for every struct type of the universe and every representable value the specification's decoder reads proto.Marshal's bytes as a message denoting the same Go value (nil-vs-empty aside); "
            "(b1) on EVERY byte string accepted by the specification's decoder in the package dialect (32-bit range errors, wire-type mismatch is an error, empty map-entry record ignored) Unmarshal returns the value of the decoded message - the package decoder is the standard decoder up to three named switches; "
            "(b) hence Unmarshal decodes every legal encoding of every message of the descriptor to the value of that message, and the specification reads the same bytes as that message; the specification decodes its own canonical encoder. "
            "Set aside by explicit boolean predicates, each shown necessary by a machine-checked counterexample replayed on the real code: repeated fields tagged zigzag/fixed (F33), maps without entries (F34), pointers to empty messages (F17), a zigzag tag on a struct-typed field. "
            "Found and repaired through this check: decodeBool read one byte of a padded varint; TypeOf ignored fixed32/fixed64 tags. Open findings carried by the harness alone, outside the descriptor universe of the model: F43 (a zigzag tag on a struct-typed field), F46 (a nested gogoproto-style custom message is written with two length prefixes), F48 (field numbers of 65536 and more are kept in 16 bits).",
    "note": "Trusted: Coq kernel; the hand-written package model (tied to the code by correspondence on ~17k reference encodings and re-encodings per run); the transcription of the specification (tied to google.golang.org/protobuf v1.26.0 on the same inputs plus ~6k mutated ones); extraction+driver; harness and descriptor construction. "
            "Theorem (b) excludes byte arrays, RawMessage and maps with pointer values (correspondence only); packed repeated scalars and groups are excluded by the property / not transcribed.",
}
