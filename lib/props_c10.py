"""C10 -- json memory ownership: inputs untouched, results stable, aliasing opt-in."""

ENTRY = {
    "harness": "c10",
    "driver": "_c10",
    "models": ["Json/MemModel.v (hand-written provenance model of decode.go / parse.go leaf decoders + region state machine of Marshal, Encoder.Encode, Decoder.readValue, Tokenizer.String)",
               "Generated/JsonParseGen.v (regenerated parseString and ParseFlags constants used by the model)"],
    "rule": "types: 31 fixed shapes + seeded random types over {string, Number, RawMessage, []byte, interface{}, int, bool, float64} x {pointer, slice, array, map with string / int / TextUnmarshaler keys incl. the five map[string]T fast paths, struct with renamed / non-ASCII / ,string / omitempty fields}; "
            "documents: generated as typed trees whose leaves keep their raw token (plain, escaped, non-ASCII, invalid UTF-8, 8/16/17-byte quote-search boundaries, empty; escaped and mixed-case struct keys, unknown members, escaped map keys, base64 with escapes), rendered with seeded white space; "
            "m.alias/m.own: Unmarshal and Parse under all 8 subsets of {DontCopyString, DontCopyNumber, DontCopyRawMessage} (x UseNumber), input slice with and without spare capacity inside a guarded arena; "
            "m.dalias/m.down: Decoder with the same flags, 3-5 documents per stream, reader scripts {single read, chunks of <=7/100/5000 bytes, data returned with EOF}, white-space gaps of 29-40 KB and in-document padding of 30-70 KB so that compaction and regrowth of the read buffer happen between Decode calls; "
            "every case is run twice: by the plain build and by a build with the Go race detector (any data race report fails the run); m.tok/m.tokown: Tokenizer over generic documents; m.marshal: Marshal / Encoder over the shared json type universe (jtypes.go); m.bad: mutated and truncated documents through Parse, Unmarshal, Valid, Tokenizer, Decoder. "
            "ALIASING MAP (impl of m.alias / m.dalias / m.tok): for every decoded string, Number, RawMessage, []byte, map key, interface{} string / Number / key, in document order, kind:letter with the letter decided by unsafe pointer-range tests against the input arena, the Decoder's internal buffer (read by reflection right after each Decode) and the pooled encode buffers (reached by go:linkname): "
            "I input, D decoder buffer, F elsewhere, E no bytes, X straddling, P pooled; compared with the extracted Coq model's prediction (correspondence). "
            "VERDICT (impl of m.own / m.down / m.tokown / m.marshal / m.bad, oracle = ok): input arena incl. guard bytes byte-identical after the call; I/D only for kinds whose flag is set, never X or P; leaves pairwise disjoint; after the input is overwritten with 0xFF, (Decoder) the rest of the stream decoded and EOF reached, "
            "and a burst of Marshal / Unmarshal / Parse(ZeroCopy) / Encoder / Tokenizer / Decoder calls on this and three other goroutines (plus GC every 5th case), every F leaf has its bytes unchanged and a value without aliasing leaves renders identically; "
            "Marshal: argument unchanged, two results disjoint and equal, not inside a pooled buffer, unchanged after concurrent Marshal calls of the same and other values from 4 goroutines, Encoder output = Marshal + newline, an equal value marshals to the same bytes afterwards (cached key fragments), writing over the whole capacity of a result changes no later result",
    "nontrivial": nontrivial_default,
    "trusted_base": COMMON_TB + [
        "Json/MemModel.v part 1 is a hand transcription of decodeString / decodeNumber / decodeRawMessage / decodeBytes / decodeFromString / decodeInterface / map-key decoding / Tokenizer.String (copy-or-alias decisions only); its Unescaped test is the regenerated parseString; tied to the code by the aliasing map on every run",
        "Json/MemModel.v part 2 (order of Pool.Get / Append / copy-out or Write / Pool.Put in Marshal and Encoder.Encode, the error return of Marshal without Put, compaction / regrowth / Read in Decoder.readValue) is a hand transcription of json.go that no correspondence case can observe step by step: it is tied only through the verdict cases (results stable, disjoint, outside the pooled buffers)",
        "the harness's pointer-range tests (unsafe.StringData / SliceData), its reflection read of Decoder.buffer and its go:linkname access to json.encoderBufferPool",
        "typed-tree generator and walker of harness/c10.go (which decoded Go value belongs to which raw token)",
    ],
    "assumptions": [
        "ParseFlags words within {DisallowUnknownFields, UseNumber, DontCopyString, DontCopyNumber, DontCopyRawMessage, DontMatchCaseInsensitiveStructFields}: UseBigInt / UseInt64 / UseUint64 change what an interface{} number decodes to and are outside the model",
        "reading of the property for Decoder (from the doc comments of Decoder.DontCopy* / ZeroCopy and of the ZeroCopy flag in json.go): the input buffer of a Decoder is its internal read buffer; with a zero-copy flag a decoded value may point into it (and is overwritten by later Decode calls), without the flag it may not",
        "user-defined UnmarshalJSON / UnmarshalText methods receive sub-slices of the input and must copy what they keep (contract of encoding/json); io.Writer implementations given to an Encoder must not retain the slice passed to Write (io.Writer contract): the pooled buffer is lent to Write",
        "ONLY OBSERVED, not modelled: goroutine scheduling and the Go memory model, sync.Pool's own exclusivity guarantee (assumed by the model's OGet / OPut), garbage collection (a result stays valid while referenced), the runtime's shared read-only table behind one-byte strings (such leaves are reported F and exempted from the disjointness check), "
        "append growth inside Append, the stack scratch buffer of decodeStruct (appendToLower), encodeKeyFragment's unsafe string conversion (checked by re-marshalling an equal value after the burst), Tokenizer's pooled stack, and that contents stay unchanged after concurrent calls (the model proves no write event targets an owned region; the harness re-reads the bytes)",
        "that Unmarshal / Parse / Decoder.Decode / Tokenizer contain no store into the bytes they read (the model's OParse / ODecode / OTokString emit no write event on the source buffer) is a reading of the code checked only by the byte-identical-arena verdict of every case",
        "a Decoder, an Encoder and a Tokenizer are each used from one goroutine at a time",
    ],
    # the second binary is the same harness under the Go race detector: a report (e.g. a pooled encode buffer
    # touched by two goroutines) makes the harness exit with status 66, which check reports
    "builds": [("harness_c10", "verif,c10"), ("harness_c10_race", "verif,c10")],
}

CLAIM = {
    "text": "Theorems (Properties/C10.v) on the memory model: for EVERY flag word, document and target shape a decoded string, Number, RawMessage, map key or interface{} content lies in the source buffer only if the zero-copy flag of its kind is set (never for []byte; never at all for Unmarshal); "
            "for EVERY interleaving of Marshal / Encoder.Encode steps on any goroutines, Unmarshal / Parse calls, Decoder refills (compaction, regrowth) and Decode calls, Tokenizer.String calls and writes by the caller: no library write targets a region given to the caller as its own or a buffer the caller lent; owned results are fresh allocations; "
            "the caller's input or a Decoder read buffer is handed out only as shared and only under the matching flag; pooled encode buffers are never handed out, are in the pool or held by exactly one goroutine, are written only by their holder and are the only thing lent to a Writer. "
            "The model's copy-or-alias decisions are tied to the code on every run by the aliasing map (pointer-range tests on the real decoded values, ~1.7k maps per quick run: Unmarshal, Parse x 8 flag subsets, Decoder across buffer compaction and regrowth, Tokenizer.String); "
            "input bytes untouched, stability of results after the input is overwritten and after bursts of calls on several goroutines, disjointness of Marshal results from each other and from the pooled buffers are decided by the harness's verdict cases.",
    "note": "Trusted: Coq kernel; the hand-written memory model (leaf decisions tied by correspondence; the step order of Marshal / Encode / readValue transcribed by hand and checked only through behaviour); extraction+driver; harness (unsafe pointer tests, reflection on Decoder.buffer, linkname to the encoder pool). "
            "For a Decoder the input buffer is its internal read buffer: zero-copy values point into it and are invalidated by later Decode calls (documented use: values not retained). Runtime aspects (scheduling, GC, sync.Pool) are observed, not modelled.",
}
