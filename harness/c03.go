package main

import (
	"encoding/hex"
	"errors"
	"fmt"
	"io"
	"reflect"
	"strconv"
	"strings"

	"github.com/segmentio/encoding/proto"
)

func init() {
	register("c03", c03)
	register("c16", c16)
	register("c07", c07)
	replayers["p.enc"] = func(a []string) { t, v := tvArgs(a); pEnc(t, v) }
	replayers["p.rt"] = func(a []string) { t, v := tvArgs(a); pRoundTrip(t, v) }
	replayers["p.mto"] = func(a []string) {
		f := strings.Split(strings.Join(a, " "), "|")
		t := tyFromSx(parseSx(f[0]))
		v := valFromSx(t, parseSx(f[1]))
		l, _ := strconv.Atoi(f[2])
		pMarshalTo(t, v, l)
	}
	replayers["p.dec"] = func(a []string) {
		f := strings.Split(strings.Join(a, " "), "|")
		pDecode(tyFromSx(parseSx(f[0])), unhex(f[1]))
	}
}

func tvArgs(a []string) (*pty, *pval) {
	f := strings.Split(strings.Join(a, " "), "|")
	t := tyFromSx(parseSx(f[0]))
	return t, valFromSx(t, parseSx(f[1]))
}

// guarded runs f and converts a panic into the observable "PANIC".
func guarded(f func() string) (s string) {
	defer func() {
		if r := recover(); r != nil {
			s = "PANIC"
		}
	}()
	return f()
}

func pEnc(t *pty, v *pval) {
	if !mine() {
		skip()
		return
	}
	trace("p.enc", t.String()+"|"+v.String())
	impl := guarded(func() string {
		x := t.toGo(v).Addr().Interface()
		n := proto.Size(x)
		b, err := proto.Marshal(x)
		if err != nil {
			return fmt.Sprintf("size=%d marshal=err", n)
		}
		return fmt.Sprintf("size=%d marshal=%s", n, hexs(b))
	})
	// property-level oracle: Size == len(Marshal) and Marshal never fails
	orc := "-"
	if strings.HasSuffix(impl, "marshal=err") || impl == "PANIC" {
		orc = "marshal-must-not-fail"
	} else {
		var n int
		var h string
		fmt.Sscanf(impl, "size=%d marshal=%s", &n, &h)
		l := len(h) / 2
		if h == "-" {
			l = 0
		}
		if n != l {
			orc = fmt.Sprintf("size-must-equal-len(%d)", l)
		} else {
			orc = impl
		}
	}
	emit("p.enc", t.String()+"|"+v.String(), impl, orc)
}

func pRoundTrip(t *pty, v *pval) {
	if !mine() {
		skip()
		return
	}
	trace("p.rt", t.String()+"|"+v.String())
	impl := guarded(func() string {
		x := t.toGo(v).Addr().Interface()
		b, err := proto.Marshal(x)
		if err != nil {
			return "err:marshal"
		}
		y := reflect.New(t.goType())
		if err := proto.Unmarshal(b, y.Interface()); err != nil {
			return "err:unmarshal"
		}
		return t.fromGo(y.Elem()).canon()
	})
	emit("p.rt", t.String()+"|"+v.String(), impl, v.canon())
}

func errClass(err error) string {
	switch {
	case err == nil:
		return "nil"
	case errors.Is(err, io.ErrShortBuffer):
		return "short"
	case errors.Is(err, io.ErrUnexpectedEOF):
		return "eof"
	}
	return "other"
}

func pMarshalTo(t *pty, v *pval, l int) {
	if !mine() {
		skip()
		return
	}
	trace("p.mto", t.String()+"|"+v.String()+"|"+strconv.Itoa(l))
	var size int
	var full []byte
	impl := guarded(func() string {
		x := t.toGo(v).Addr().Interface()
		size = proto.Size(x)
		full, _ = proto.Marshal(x)
		const guard = 16
		buf := make([]byte, l+guard)
		for i := range buf {
			buf[i] = 0xA5
		}
		n, err := proto.MarshalTo(buf[:l:l+guard], x)
		for _, g := range buf[l:] {
			if g != 0xA5 {
				return "GUARD-OVERWRITTEN"
			}
		}
		if err != nil {
			return errClass(err)
		}
		if n < 0 || n > l {
			return fmt.Sprintf("ok n=%d OUT-OF-RANGE", n)
		}
		return fmt.Sprintf("ok n=%d %s", n, hexs(buf[:n]))
	})
	orc := "short"
	if l >= size {
		orc = fmt.Sprintf("ok n=%d %s", size, hexs(full))
	}
	if v.multiMap() && l >= size {
		// entry order is not determined: compare the count only
		if strings.HasPrefix(impl, fmt.Sprintf("ok n=%d ", size)) {
			orc = impl
		}
	}
	emit("p.mto", fmt.Sprintf("%s|%s|%d", t.String(), v.String(), l), impl, orc)
}

func pDecode(t *pty, b []byte) { pDecodeExpect(t, b, "-") }

func pDecodeExpect(t *pty, b []byte, expect string) {
	if !mine() {
		skip()
		return
	}
	trace("p.dec", t.String()+"|"+hexs(b))
	impl := guarded(func() string {
		y := reflect.New(t.goType())
		if err := proto.Unmarshal(b, y.Interface()); err != nil {
			return "err"
		}
		return t.fromGo(y.Elem()).canon()
	})
	emit("p.dec", t.String()+"|"+hexs(b), impl, expect)
}

// refScan is an independent transcription of the protobuf wire format at field level: the top-level fields of b as
// (number, wire type, payload) or the reason why b is not a sequence of fields. status: ok, trunc (input ends inside
// a field), invalid (10-byte varint overflow, group or reserved wire types), lenient (a field number protobuf does
// not allow, 0 or above 2^29-1, which the package is free to accept or reject)
func refScan(b []byte) (string, string) {
	var sb strings.Builder
	status := "ok"
	uv := func() (uint64, bool, bool) { // value, complete, overflow
		var x uint64
		for i := 0; i < len(b); i++ {
			c := b[i]
			if i == 9 && c > 1 {
				return 0, true, true
			}
			x |= uint64(c&0x7f) << (7 * uint(i))
			if c < 0x80 {
				b = b[i+1:]
				return x, true, false
			}
			if i == 9 {
				return 0, true, true
			}
		}
		return 0, false, false
	}
	for len(b) > 0 {
		tag, complete, ovf := uv()
		if ovf {
			return "", "invalid"
		}
		if !complete {
			return "", "trunc"
		}
		f, wt := tag>>3, tag&7
		if f == 0 || f >= 1<<29 {
			status = "lenient"
		}
		var payload []byte
		switch wt {
		case 0:
			start := b
			_, complete, ovf := uv()
			if ovf {
				return "", "invalid"
			}
			if !complete {
				return "", "trunc"
			}
			payload = start[:len(start)-len(b)]
		case 1:
			if len(b) < 8 {
				return "", "trunc"
			}
			payload, b = b[:8], b[8:]
		case 5:
			if len(b) < 4 {
				return "", "trunc"
			}
			payload, b = b[:4], b[4:]
		case 2:
			l, complete, ovf := uv()
			if ovf {
				return "", "invalid"
			}
			if !complete || uint64(len(b)) < l {
				return "", "trunc"
			}
			payload, b = b[:l], b[l:]
		default:
			return "", "invalid"
		}
		fmt.Fprintf(&sb, "%d:%d:%s ", f, wt, hexs(payload))
	}
	return "ok " + sb.String(), status
}

// pScan: proto.Scan (and therefore proto.Parse) on any byte string: the fields enumerated or an error, never a panic
func pScan(b []byte) {
	if !mine() {
		skip()
		return
	}
	b = append(make([]byte, 0, len(b)), b...) // exact capacity: an out-of-range slice cannot hide in spare capacity
	trace("p.scan", hexs(b))
	impl := guarded(func() string {
		var sb strings.Builder
		err := proto.Scan(b, func(f proto.FieldNumber, t proto.WireType, v proto.RawValue) (bool, error) {
			fmt.Fprintf(&sb, "%d:%d:%s ", uint64(f), int(t), hexs(v))
			return true, nil
		})
		if err != nil {
			return "err"
		}
		return "ok " + sb.String()
	})
	list, status := refScan(b)
	oracle := "-"
	switch status {
	case "ok":
		oracle = list
	case "trunc", "invalid":
		oracle = "err"
	default:
		if strings.HasPrefix(impl, "panic") {
			oracle = "nopanic"
		}
	}
	emit("p.scan", hexs(b), impl, oracle)
}

func protoGen() *pgen { return &pgen{maxDepth: 3, allowRaw: true, allowMap: true, bigNumber: false} }

// hand-picked shapes that the random generator reaches rarely
var c03Fixed = []string{
	"(struct (f - (ptr bool)))",
	"(struct (f - (slice bool)))",
	"(struct (f - (map str bool)))",
	"(struct (f - (map str str)))",
	"(struct (f - (ptr (struct (f - int)))))",
	"(struct (f - (ptr (struct))))",
	"(struct (f - (struct (f - (ptr int)))))",
	"(struct (f - (map i32 (struct (f - str) (f - (slice i64))))))",
	"(struct (f (t 0 3 1 1) (slice i64)) (f (t 0 1 0 1) i32))",
	"(struct (f - raw) (f - (ptr raw)) (f - (slice raw)))",
	"(struct (f - (ptr raw)))", // single pointer field leading to a Message implementation: the toplevel flag must not leak into the size pass
	"(struct (f - raw))",
	"(struct (f - (ptr (struct (f - (ptr raw))))))",
	"(struct (f - (ptr (struct (f - raw) (f - i32)))))",
	"(struct (f - (arr 8)) (f - (arr 9)) (f - (arr 0)))",
	"(struct (f - int) (f - (arr 6)))", "(struct (f - (arr 14)) (f - (arr 22)) (f - (arr 5)) (f - (arr 7)))", "(struct (f - (arr 1)) (f - (arr 2)) (f - (arr 3)) (f - (arr 4)))",
	"(struct (f - (slice (ptr i32))) (f - (slice (ptr (struct (f - bool))))))",
}

func c03() {
	g := protoGen()
	nTypes, nVals := 600, 6
	if *tier == "thorough" {
		nTypes, nVals = 6000, 10
	}
	var types []*pty
	for _, s := range c03Fixed {
		types = append(types, tyFromSx(parseSx(s)))
	}
	for i := 0; i < nTypes; i++ {
		types = append(types, g.structType(0))
	}
	for _, t := range types {
		pRoundTrip(t, zeroValue(t))
		pEnc(t, zeroValue(t))
		for j := 0; j < nVals; j++ {
			v := g.value(t, 0)
			pRoundTrip(t, v)
			if !v.multiMap() {
				pEnc(t, v)
			}
		}
	}
	// map entries whose payload crosses the 127/128 boundary of the entry length varint
	for l := 118; l <= 132; l++ {
		t := tyFromSx(parseSx("(struct (f - (map str str)))"))
		v := &pval{k: kStruct, elems: []*pval{{k: kMap, keys: []*pval{{k: kString, s: []byte("k")}}, elems: []*pval{{k: kString, s: make([]byte, l)}}}}}
		pRoundTrip(t, v)
		pEnc(t, v)
	}
	// long repeated fields
	for _, n := range []int{9, 10, 11, 20, 21, 500} {
		t := tyFromSx(parseSx("(struct (f - (slice u32)) (f - (slice str)))"))
		v := &pval{k: kStruct, elems: []*pval{{k: kSlice}, {k: kSlice}}}
		for i := 0; i < n; i++ {
			v.elems[0].elems = append(v.elems[0].elems, &pval{k: kUint32, u: uint64(i * 7919)})
			v.elems[1].elems = append(v.elems[1].elems, &pval{k: kString, s: []byte(strconv.Itoa(i))})
		}
		pRoundTrip(t, v)
		pEnc(t, v)
	}
	c03Fixed2(40)
}

func c16() {
	g := protoGen()
	nTypes := 150
	if *tier == "thorough" {
		nTypes = 1500
	}
	var types []*pty
	for _, s := range c03Fixed {
		types = append(types, tyFromSx(parseSx(s)))
	}
	for i := 0; i < nTypes; i++ {
		types = append(types, g.structType(0))
	}
	types = append(types, &pty{k: kRaw})
	for _, t := range types {
		for j := 0; j < 3; j++ {
			v := g.value(t, 0)
			if v.multiMap() {
				continue // entry order is Go's random map order: bytes are not comparable
			}
			x := t.toGo(v).Addr().Interface()
			size := guardedSize(x)
			if size < 0 || size > 400 {
				continue
			}
			for l := 0; l <= size+3; l++ {
				pMarshalTo(t, v, l)
			}
		}
	}
	c16TopLevel(30)
}

func guardedSize(x any) (n int) {
	defer func() {
		if recover() != nil {
			n = -1
		}
	}()
	return proto.Size(x)
}

func c07() {
	g := protoGen()
	nTypes := 300
	if *tier == "thorough" {
		nTypes = 3000
	}
	for i := 0; i < nTypes; i++ {
		t := g.structType(0)
		v := g.value(t, 0)
		x := t.toGo(v).Addr().Interface()
		b, err := proto.Marshal(x)
		if err != nil {
			continue
		}
		pDecode(t, b)
		pScan(b)
		// the same fields occurring again (legal protobuf: scalars take the last occurrence, repeated fields append,
		// messages merge): the encodings of two or three values of the type concatenated, shorter and longer
		// payloads in both orders
		if v2 := g.value(t, 0); true {
			if b2, err := proto.Marshal(t.toGo(v2).Addr().Interface()); err == nil {
				pDecode(t, append(append([]byte(nil), b...), b2...))
				pDecode(t, append(append([]byte(nil), b2...), b...))
				pDecode(t, append(append(append([]byte(nil), b2...), b...), b2...))
			}
		}
		// the value the encoding decodes to: inserting unknown fields must not change it
		base := guarded(func() string {
			y := reflect.New(t.goType())
			if err := proto.Unmarshal(b, y.Interface()); err != nil {
				return "err"
			}
			return t.fromGo(y.Elem()).canon()
		})
		// every prefix
		if len(b) <= 200 {
			for l := 0; l < len(b); l++ {
				pDecode(t, b[:l])
				pScan(b[:l])
			}
		}
		// mutations
		for k := 0; k < 12 && len(b) > 0; k++ {
			m := append([]byte(nil), b...)
			switch rndn(4) {
			case 0:
				m[rndn(len(m))] = byte(rnd())
			case 1:
				m[rndn(len(m))] ^= 0x80
			case 2:
				p := rndn(len(m))
				m = append(m[:p], append([]byte{byte(rnd()), byte(rnd())}, m[p:]...)...)
			case 3:
				p := rndn(len(m))
				m[p] = pick([]byte{0xff, 0x7f, 0x80, 0x00, 0x01})
			}
			pDecode(t, m)
			pScan(m)
		}
		// unknown fields of every wire type inserted at the front, the end and between top-level fields
		unknown := [][]byte{
			proto.AppendVarint(nil, 9000, rnd()), proto.AppendVarlen(nil, 9001, rndBytes(10)),
			proto.AppendFixed32(nil, 9002, uint32(rnd())), proto.AppendFixed64(nil, 9003, rnd()),
			proto.AppendVarint(nil, 9004, 1<<63|rnd()),
			// legal field numbers above 2^16 that are congruent to declared ones modulo 2^16 (the package stores field
			// numbers of declared fields in 16 bits)
			proto.AppendVarint(nil, 65537, rnd()), proto.AppendVarlen(nil, 65538, rndBytes(3)), proto.AppendFixed32(nil, 131073, uint32(rnd())),
			proto.AppendFixed64(nil, 65536+3, rnd()), proto.AppendVarint(nil, 1<<28+1, 7), proto.AppendVarlen(nil, 65536*5+2, nil),
		}
		var bounds []int
		rest := b
		off := 0
		bounds = append(bounds, 0)
		for len(rest) > 0 {
			_, _, _, m, err := proto.Parse(rest)
			if err != nil {
				break
			}
			off += len(rest) - len(m)
			bounds = append(bounds, off)
			rest = m
		}
		for _, u := range unknown {
			for _, p := range bounds {
				if len(bounds) > 8 && rndn(3) != 0 {
					continue
				}
				m := append(append(append([]byte(nil), b[:p]...), u...), b[p:]...)
				pDecodeExpect(t, m, base)
				pScan(m)
			}
		}
		// length prefixes of declared and unknown length-delimited fields replaced by huge or slightly-too-large values
		// (2^31, 2^32, 2^63 and above wrap when converted to int)
		{
			rest, off := b, 0
			for len(rest) > 0 {
				_, wt, val, m, err := proto.Parse(rest)
				if err != nil {
					break
				}
				flen := len(rest) - len(m)
				if wt == proto.Varlen {
					// the field is tag ++ varint(len(val)) ++ val: rebuild it with another length
					lenSize := len(proto.AppendVarint(nil, 1, uint64(len(val)))) - 1
					tagSize := flen - lenSize - len(val)
					for _, extra := range []int{1, 4, 9, 40} { // a longer payload, correctly framed
						longer := append(append([]byte(nil), val...), rndBytes(extra)...)
						lv := proto.AppendVarint(nil, 1, uint64(len(longer)))[1:]
						mut := append(append(append(append([]byte(nil), b[:off+tagSize]...), lv...), longer...), m...)
						pDecode(t, mut)
					}
					for _, l := range []uint64{uint64(len(val)) + 1, 1 << 31, 1<<32 + 3, 1 << 62, 1 << 63, 1<<63 + 5, ^uint64(0), ^uint64(0) - 9} {
						lv := proto.AppendVarint(nil, 1, l)[1:]
						mut := append(append(append(append([]byte(nil), b[:off+tagSize]...), lv...), val...), m...)
						pDecode(t, mut)
						pScan(mut)
					}
				}
				off += flen
				rest = m
			}
		}
		// random bytes
		pDecode(t, rndBytes(24))
		pScan(rndBytes(24))
		// length prefixes that point just beyond the end, with the prefix itself 1..3 bytes long
		for _, l := range []int{0, 1, 2, 127, 128, 129, 300} {
			body := rndBytes(l)
			f := proto.AppendVarlen(nil, proto.FieldNumber(1+rndn(40)), body)
			for cut := 1; cut <= 3 && cut <= len(f); cut++ {
				pScan(f[:len(f)-cut])
			}
			pScan(f)
		}
	}
	c07Alloc()
	_ = hex.EncodeToString
}
