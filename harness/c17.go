package main

import (
	"bytes"
	stdjson "encoding/json"
	"fmt"
	"math"
	"strconv"
	"strings"

	"github.com/segmentio/encoding/json"
)

func init() {
	register("c17", c17)
	replayers["j.tok"] = func(a []string) { jTokenize(unhex(a[0])) }
	replayers["j.tokreuse"] = func(a []string) { jTokReuse(unhex(a[0]), unhex(a[1])) }
}

func tokObs(value []byte, delim byte, depth, index int, isKey bool) string {
	switch delim {
	case ',', ':', ']', '}':
		return hexs(value)
	}
	k := 0
	if isKey {
		k = 1
	}
	return fmt.Sprintf("%s/%d/%d/%d", hexs(value), depth, index, k)
}

func runTokenizer(t *json.Tokenizer, b []byte) string {
	var out []string
	steps := 0
	for t.Next() {
		steps++
		if steps > len(b)+2 {
			return "DOES-NOT-TERMINATE"
		}
		// each Value is the sub-slice of the input that ends Remaining() bytes before its end
		end := len(b) - t.Remaining()
		if end < len(t.Value) || !bytes.Equal(b[end-len(t.Value):end], t.Value) {
			return "SUBSLICE-VIOLATION"
		}
		out = append(out, tokObs(t.Value, byte(t.Delim), t.Depth, t.Index, t.IsKey))
		if t.Delim == 0 && len(t.Value) > 0 {
			if m := accessorMismatch(t); m != "" {
				return "ACCESSOR-MISMATCH " + m + " on " + hexs(t.Value)
			}
		}
	}
	if t.Err != nil {
		out = append(out, "ERR")
		// once Err is set Next keeps returning false
		for i := 0; i < 3; i++ {
			if t.Next() {
				return "NEXT-AFTER-ERROR"
			}
		}
	}
	return strings.Join(out, " ")
}

// expected tokens of a VALID document, derived from encoding/json's token stream
func expectTokens(b []byte) (string, bool) {
	if !stdjson.Valid(b) {
		return "", false
	}
	var cb bytes.Buffer
	stdjson.Compact(&cb, b)
	doc := cb.Bytes()
	dec := stdjson.NewDecoder(bytes.NewReader(doc))
	dec.UseNumber() // number tokens are kept as literals: a valid number outside the float64 range (1e400) is still a token
	type frame struct {
		obj   bool
		n     int // number of completed members/elements
		isKey bool
	}
	var stack []frame
	var out []string
	pos := 0
	emit := func(val []byte, delim byte) {
		depth := len(stack)
		index := 0
		iskey := false
		if depth > 0 {
			f := &stack[depth-1]
			index = f.n
			iskey = f.obj && f.isKey
		}
		out = append(out, tokObs(val, delim, depth, index, iskey))
	}
	for {
		start := int(dec.InputOffset())
		tok, err := dec.Token()
		if err != nil {
			break
		}
		end := int(dec.InputOffset())
		// separators between pos and the token: std skips them; the tokenizer yields them as tokens
		raw := doc[start:end]
		i := 0
		for i < len(raw) && (raw[i] == ',' || raw[i] == ':') {
			out = append(out, hexs(raw[i:i+1]))
			i++
		}
		raw = raw[i:]
		_ = pos
		if d, ok := tok.(stdjson.Delim); ok {
			switch d {
			case '{', '[':
				emit(raw, byte(d))
				stack = append(stack, frame{obj: d == '{', isKey: true})
				continue
			default:
				stack = stack[:len(stack)-1]
				out = append(out, hexs(raw))
			}
		} else {
			emit(raw, 0)
		}
		// a value (or a key) was completed in the parent
		if n := len(stack); n > 0 {
			f := &stack[n-1]
			if f.obj {
				if f.isKey {
					if _, isDelim := tok.(stdjson.Delim); !isDelim {
						f.isKey = false
						continue
					}
				}
				f.isKey = true
				f.n++
			} else {
				f.n++
			}
		}
	}
	return strings.Join(out, " "), true
}

func jTokenize(b []byte) {
	if !mine() {
		skip()
		return
	}
	impl := guarded(func() string { return runTokenizer(json.NewTokenizer(b), b) })
	orc := "-"
	if e, ok := expectTokens(b); ok {
		orc = e
	} else if strings.HasPrefix(impl, "NEXT-AFTER-ERROR") || strings.HasPrefix(impl, "DOES-NOT-TERMINATE") || strings.HasPrefix(impl, "SUBSLICE-VIOLATION") {
		orc = "the contract of Next holds on invalid input too (termination, sub-slices, a sticky error)"
	}
	emit("j.tok", hexs(b), impl, orc)
}

// a Reset tokenizer (pooled stack reuse included) behaves like a new one
func jTokReuse(first, second []byte) {
	if !mine() {
		skip()
		return
	}
	var orc string
	impl := guarded(func() string {
		orc = runTokenizer(json.NewTokenizer(second), second)
		t := json.NewTokenizer(first)
		for i := rndn(len(first) + 1); i > 0 && t.Next(); i-- {
		}
		t.Reset(second)
		return runTokenizer(t, second)
	})
	emit("j.tokreuse", hexs(first)+" "+hexs(second), impl, orc)
}

// two tokenizers alive at the same time, the first one run to the END of a document (which releases its pooled scope
// stack) and Reset before the second is created: advancing them in turns, each yields the tokens it yields alone
func jTokPair(first, a, b []byte) {
	if !mine() {
		skip()
		return
	}
	var orc string
	impl := guarded(func() string {
		orc = runTokenizer(json.NewTokenizer(a), a) + " | " + runTokenizer(json.NewTokenizer(b), b)
		t1 := json.NewTokenizer(first)
		for t1.Next() {
		}
		t1.Next() // Next after the end is allowed and must not release anything twice
		t1.Reset(a)
		t2 := json.NewTokenizer(b)
		var o1, o2 []string
		d1, d2 := false, false
		for steps := 0; (!d1 || !d2) && steps < len(a)+len(b)+8; steps++ {
			if !d1 {
				if t1.Next() {
					o1 = append(o1, tokObs(t1.Value, byte(t1.Delim), t1.Depth, t1.Index, t1.IsKey))
				} else {
					d1 = true
					if t1.Err != nil {
						o1 = append(o1, "ERR")
					}
				}
			}
			if !d2 {
				if t2.Next() {
					o2 = append(o2, tokObs(t2.Value, byte(t2.Delim), t2.Depth, t2.Index, t2.IsKey))
				} else {
					d2 = true
					if t2.Err != nil {
						o2 = append(o2, "ERR")
					}
				}
			}
		}
		return strings.Join(o1, " ") + " | " + strings.Join(o2, " ")
	})
	emit("j.tokpair", hexs(first)+" "+hexs(a)+" "+hexs(b), impl, orc)
}

func c17() {
	thorough := *tier == "thorough"
	// (1) all strings of <= 3 symbols over the class alphabet (termination, stickiness; exact tokens when valid)
	c05enum(3, "", func(s string) { jTokenize([]byte(s)) })
	// (2) grammar-directed documents emphasising empty containers inside non-empty ones and keys after nested containers
	n := 4000
	if thorough {
		n = 60000
	}
	special := []string{`[{},1]`, `[[],{}]`, `{"a":{},"b":1}`, `{"a":[],"b":{"c":[{}]},"d":null}`, `[{"a":1},2,{"b":{}},[]]`, `[[[]]]`, `{"a":{"b":{"c":{}}},"d":[]}`, `[1,[2,[3,[4]]],5]`, `{"":""}`, `[{},{},{}]`, `[[{}],1]`, `{"k":[{},{"x":[]}],"z":true}`}
	// number tokens at the boundaries of the accessors (Int/Uint/Float): the int64 and uint64 ranges, exponents, zeros
	for _, lit := range []string{"0", "-0", "9223372036854775807", "9223372036854775808", "-9223372036854775808", "-9223372036854775809",
		"18446744073709551615", "18446744073709551616", "12345678901234567890", "4294967296", "-1", "1e0", "1E+2", "-1.5e-3", "0.0", "1.7976931348623157e308", "1e400", "5e-324", "123456789012345678901234567890"} {
		special = append(special, lit, "["+lit+"]", `{"id":`+lit+`,"small":42}`, "[9223372036854775807,"+lit+"]")
	}
	for _, s := range special {
		jTokenize([]byte(s))
	}
	// containers with more than 65535 elements / members: Index counts on
	{
		var a, o strings.Builder
		a.WriteString("[")
		o.WriteString(`[true,{`)
		for i := 0; i < 66000; i++ {
			if i > 0 {
				a.WriteString(",")
				o.WriteString(",")
			}
			fmt.Fprintf(&a, "%d", i%10)
			fmt.Fprintf(&o, `"k%d":[]`, i)
		}
		a.WriteString("]")
		o.WriteString("},null]")
		jTokenize([]byte(a.String()))
		jTokenize([]byte(o.String()))
	}
	for i := 0; i < n; i++ {
		d := genDoc(5)
		jTokenize([]byte(d))
		if i%4 == 0 {
			m := []byte(d)
			if len(m) > 0 {
				m[rndn(len(m))] = pick([]byte(`{}[],:" 0nx`))
			}
			jTokenize(m)
		}
		if i%10 == 3 {
			jTokPair([]byte(pick([]string{`[{"a":[1]}]`, `{}`, `[[[[1]]]]`, `1`})), []byte(genDoc(4)), []byte(d))
		}
		if i%5 == 0 {
			jTokReuse([]byte(genDoc(4)+pick([]string{"", "]", "x", "{"})), []byte(d))
		}
	}
}

// accessorMismatch: Kind/String/Int/Uint/Float/Bool report the class and decoded value of the scalar token the
// tokenizer is positioned on, as encoding/json and strconv decode the same token text
func accessorMismatch(t *json.Tokenizer) string {
	v := t.Value
	k := t.Kind()
	switch c := v[0]; {
	case c == '"':
		if k.Class() != json.String {
			return fmt.Sprintf("kind %d of a string", k)
		}
		var want string
		if err := stdjson.Unmarshal(v, &want); err != nil {
			return "" // not a complete string literal: outside the accessor contract
		}
		if got := t.String(); string(got) != want {
			return fmt.Sprintf("String %q want %q", got, want)
		}
	case c == 't' || c == 'f':
		if (c == 't' && k != json.True) || (c == 'f' && k != json.False) || t.Bool() != (c == 't') {
			return fmt.Sprintf("kind %d / Bool %v", k, t.Bool())
		}
	case c == 'n':
		if k != json.Null {
			return fmt.Sprintf("kind %d of null", k)
		}
	case c == '-' || (c >= '0' && c <= '9'):
		if k.Class() != json.Num {
			return fmt.Sprintf("kind %d of a number", k)
		}
		if !stdjson.Valid(v) {
			return ""
		}
		want, err := strconv.ParseFloat(string(v), 64)
		if got := t.Float(); err == nil && math.Float64bits(got) != math.Float64bits(want) {
			return fmt.Sprintf("Float %v want %v", got, want)
		}
		if i, err := strconv.ParseInt(string(v), 10, 64); err == nil {
			if k == json.Float {
				return "kind Float of an integer literal"
			}
			if k == json.Int && t.Int() != i {
				return fmt.Sprintf("Int %d want %d", t.Int(), i)
			}
		}
		if u, err := strconv.ParseUint(string(v), 10, 64); err == nil && k == json.Uint && t.Uint() != u {
			return fmt.Sprintf("Uint %d want %d", t.Uint(), u)
		}
	}
	return ""
}
