//go:build verif && (c01tree || c14tree)

package main

// Structural part of json.Marshal / json.Unmarshal over a typed value tree (Coq model Json/TreeModel.v).
//
//	j.tree.enc   <type sx>|<value sx>      impl: hex of segmentio json.Marshal, oracle: hex of encoding/json Marshal
//	j.tree.dec   <type sx>|<hex document>  impl: value sx after segmentio json.Unmarshal into a fresh zero value (or err),
//	                                       oracle: the same through encoding/json
//	j.tree.dec.pp  the same, when the type has a pointer to a pointer and the document a duplicated key (F31)
//
// Value s-expressions: true false <decimal> x<hex> nil (p V) (l V ...) (m (xKEY V) ...) (st V ...).

import (
	"bytes"
	stdjson "encoding/json"
	"fmt"
	"math/big"
	"reflect"
	"sort"
	"strconv"
	"strings"

	"github.com/segmentio/encoding/json"
)

func init() {
	register("c01tree", runC01Tree)
	register("c01treeenc", func() { treeOnly = "enc"; runC01Tree() }) // C01: the encode cases only
	register("c01treedec", func() { treeOnly = "dec"; runC01Tree() }) // C02: the decode cases only
	replayers["j.tree.enc"] = func(a []string) {
		f := strings.SplitN(strings.Join(a, " "), "|", 2)
		tx := parseSx(f[0])
		treeEnc(tx, jType(tx), tvParse(parseSx(f[1])))
	}
	dec := func(a []string) {
		f := strings.SplitN(strings.Join(a, " "), "|", 2)
		tx := parseSx(f[0])
		treeDec(tx, jType(tx), unhex(f[1]))
	}
	replayers["j.tree.dec"] = dec
	replayers["j.tree.dec.pp"] = dec
}

// ------------------------------------------------------------------ value trees

type jtVal struct {
	k    byte // 'b' bool, 'i' integer, 's' string, 'n' nil, 'p' pointer, 'l' list, 'm' map, 't' struct
	b    bool
	neg  bool   // integer: sign
	mag  uint64 // integer: magnitude
	s    []byte
	kids []*jtVal // 'p': one, 'l', 't'; 'm': the values
	keys [][]byte // 'm'
}

func jtHex(b []byte) string {
	o := make([]byte, 2*len(b))
	for i, c := range b {
		o[2*i] = hexdigits[c>>4]
		o[2*i+1] = hexdigits[c&15]
	}
	return string(o)
}

func (v *jtVal) render(w *strings.Builder) {
	switch v.k {
	case 'b':
		if v.b {
			w.WriteString("true")
		} else {
			w.WriteString("false")
		}
	case 'i':
		if v.neg && v.mag != 0 {
			w.WriteByte('-')
		}
		w.WriteString(strconv.FormatUint(v.mag, 10))
	case 's':
		w.WriteByte('x')
		w.WriteString(jtHex(v.s))
	case 'n':
		w.WriteString("nil")
	case 'p':
		w.WriteString("(p ")
		v.kids[0].render(w)
		w.WriteByte(')')
	case 'l', 't':
		if v.k == 'l' {
			w.WriteString("(l")
		} else {
			w.WriteString("(st")
		}
		for _, k := range v.kids {
			w.WriteByte(' ')
			k.render(w)
		}
		w.WriteByte(')')
	case 'm':
		w.WriteString("(m")
		for i, k := range v.kids {
			w.WriteString(" (x")
			w.WriteString(jtHex(v.keys[i]))
			w.WriteByte(' ')
			k.render(w)
			w.WriteByte(')')
		}
		w.WriteByte(')')
	}
}

func (v *jtVal) String() string {
	var w strings.Builder
	v.render(&w)
	return w.String()
}

func tvParse(x *sx) *jtVal {
	if x.list == nil {
		a := x.atom
		switch {
		case a == "true":
			return &jtVal{k: 'b', b: true}
		case a == "false":
			return &jtVal{k: 'b'}
		case a == "nil":
			return &jtVal{k: 'n'}
		case a[0] == 'x':
			b := []byte{}
			if len(a) > 1 {
				b = unhex(a[1:])
			}
			return &jtVal{k: 's', s: b}
		}
		v := &jtVal{k: 'i'}
		if a[0] == '-' {
			v.neg = true
			a = a[1:]
		}
		m, err := strconv.ParseUint(a, 10, 64)
		if err != nil {
			panic(err)
		}
		v.mag = m
		return v
	}
	switch x.list[0].atom {
	case "p":
		return &jtVal{k: 'p', kids: []*jtVal{tvParse(x.list[1])}}
	case "l", "st":
		v := &jtVal{k: 'l', kids: []*jtVal{}}
		if x.list[0].atom == "st" {
			v.k = 't'
		}
		for _, e := range x.list[1:] {
			v.kids = append(v.kids, tvParse(e))
		}
		return v
	case "m":
		v := &jtVal{k: 'm', kids: []*jtVal{}}
		for _, e := range x.list[1:] {
			v.keys = append(v.keys, tvParse(e.list[0]).s)
			v.kids = append(v.kids, tvParse(e.list[1]))
		}
		return v
	}
	panic("bad value sx")
}

// tvBuild: value tree + Go type -> Go value
func tvBuild(t reflect.Type, v *jtVal) reflect.Value {
	rv := reflect.New(t).Elem()
	tvFill(rv, v)
	return rv
}

func tvFill(rv reflect.Value, v *jtVal) {
	t := rv.Type()
	switch t.Kind() {
	case reflect.Bool:
		rv.SetBool(v.b)
	case reflect.Int8, reflect.Int16, reflect.Int32, reflect.Int64:
		n := int64(v.mag)
		if v.neg {
			n = -n
		}
		rv.SetInt(n)
	case reflect.Uint8, reflect.Uint16, reflect.Uint32, reflect.Uint64:
		rv.SetUint(v.mag)
	case reflect.String:
		rv.SetString(string(v.s))
	case reflect.Ptr:
		if v.k == 'n' {
			return
		}
		p := reflect.New(t.Elem())
		tvFill(p.Elem(), v.kids[0])
		rv.Set(p)
	case reflect.Slice:
		if v.k == 'n' {
			return
		}
		s := reflect.MakeSlice(t, len(v.kids), len(v.kids))
		for i, k := range v.kids {
			tvFill(s.Index(i), k)
		}
		rv.Set(s)
	case reflect.Array:
		if len(v.kids) != t.Len() {
			panic("array length")
		}
		for i, k := range v.kids {
			tvFill(rv.Index(i), k)
		}
	case reflect.Map:
		if v.k == 'n' {
			return
		}
		m := reflect.MakeMapWithSize(t, len(v.kids))
		for i, k := range v.kids {
			e := reflect.New(t.Elem()).Elem()
			tvFill(e, k)
			m.SetMapIndex(reflect.ValueOf(string(v.keys[i])), e)
		}
		rv.Set(m)
	case reflect.Struct:
		if len(v.kids) != t.NumField() {
			panic("struct fields")
		}
		for i, k := range v.kids {
			tvFill(rv.Field(i), k)
		}
	default:
		panic("kind outside the universe")
	}
}

// tvOf: Go value -> value tree (canonical: nil pointer / slice / map -> nil, map entries sorted bytewise by key)
func tvOf(rv reflect.Value) *jtVal {
	switch rv.Kind() {
	case reflect.Bool:
		return &jtVal{k: 'b', b: rv.Bool()}
	case reflect.Int8, reflect.Int16, reflect.Int32, reflect.Int64:
		n := rv.Int()
		if n < 0 {
			return &jtVal{k: 'i', neg: true, mag: uint64(-n)} // -min wraps to 1<<63 as wanted
		}
		return &jtVal{k: 'i', mag: uint64(n)}
	case reflect.Uint8, reflect.Uint16, reflect.Uint32, reflect.Uint64:
		return &jtVal{k: 'i', mag: rv.Uint()}
	case reflect.String:
		return &jtVal{k: 's', s: []byte(rv.String())}
	case reflect.Ptr:
		if rv.IsNil() {
			return &jtVal{k: 'n'}
		}
		return &jtVal{k: 'p', kids: []*jtVal{tvOf(rv.Elem())}}
	case reflect.Slice:
		if rv.IsNil() {
			return &jtVal{k: 'n'}
		}
		fallthrough
	case reflect.Array:
		v := &jtVal{k: 'l'}
		for i := 0; i < rv.Len(); i++ {
			v.kids = append(v.kids, tvOf(rv.Index(i)))
		}
		return v
	case reflect.Map:
		if rv.IsNil() {
			return &jtVal{k: 'n'}
		}
		var ks []string
		for _, k := range rv.MapKeys() {
			ks = append(ks, k.String())
		}
		sort.Strings(ks)
		v := &jtVal{k: 'm'}
		for _, k := range ks {
			v.keys = append(v.keys, []byte(k))
			v.kids = append(v.kids, tvOf(rv.MapIndex(reflect.ValueOf(k))))
		}
		return v
	case reflect.Struct:
		v := &jtVal{k: 't'}
		for i := 0; i < rv.NumField(); i++ {
			v.kids = append(v.kids, tvOf(rv.Field(i)))
		}
		return v
	}
	panic("kind outside the universe")
}

// ------------------------------------------------------------------ types

type jtTy struct {
	k      byte // 'b' bool, 'i' integer, 's' string, 'p' ptr, 'l' slice, 'a' array, 'm' map, 't' struct
	signed bool
	bits   int
	n      int
	elem   *jtTy
	fs     []jtField
}

type jtField struct {
	name string
	omit bool
	t    *jtTy
}

var treeAtoms = []string{"bool", "i8", "i16", "i32", "i64", "u8", "u16", "u32", "u64", "str", "str", "str", "i64", "bool"}

func ttyOf(x *sx) *jtTy {
	if x.list == nil {
		switch x.atom {
		case "bool":
			return &jtTy{k: 'b'}
		case "str":
			return &jtTy{k: 's'}
		}
		b, err := strconv.Atoi(x.atom[1:])
		if err != nil || (x.atom[0] != 'i' && x.atom[0] != 'u') {
			panic("bad atom " + x.atom)
		}
		return &jtTy{k: 'i', signed: x.atom[0] == 'i', bits: b}
	}
	switch x.list[0].atom {
	case "ptr":
		return &jtTy{k: 'p', elem: ttyOf(x.list[1])}
	case "slice":
		return &jtTy{k: 'l', elem: ttyOf(x.list[1])}
	case "arr":
		n, _ := strconv.Atoi(x.list[1].atom)
		return &jtTy{k: 'a', n: n, elem: ttyOf(x.list[2])}
	case "map":
		return &jtTy{k: 'm', elem: ttyOf(x.list[2])}
	case "struct":
		t := &jtTy{k: 't'}
		for _, fx := range x.list[1:] {
			name, opt, _ := strings.Cut(fx.list[2].atom, ",")
			t.fs = append(t.fs, jtField{name: name, omit: opt == "omitempty", t: ttyOf(fx.list[3])})
		}
		return t
	}
	panic("bad type sx")
}

var treeNames = []string{"a", "b", "c", "A", "B", "id", "Id", "ID", "name", "Name", "NAME", "x", "X", "y", "k", "K", "s", "S", "v1", "V1", "value", "Value", "n0", "0", "7", "aB", "Ab", "ab", "AB",
	"key", "Key", "kind", "items", "Items", "next", "ok", "Ok", "OK", "t", "T", "longFieldNameOverSixteenBytes", "LongFieldNameOverSixteenBytes", "z9", "Z9", "null", "true", "e", "E"}

func jtFlipCase(s string) string {
	b := []byte(s)
	ok := false
	for tries := 0; tries < 8 && !ok; tries++ {
		i := rndn(len(b))
		c := b[i]
		switch {
		case c >= 'a' && c <= 'z':
			b[i] = c - 32
			ok = true
		case c >= 'A' && c <= 'Z':
			b[i] = c + 32
			ok = true
		}
	}
	return string(b)
}

func treeRandName() string {
	const al = "abcdefghijklmnopqrstuvwxyzABCDEFGHIJKLMNOPQRSTUVWXYZ0123456789"
	n := 1 + rndn(6)
	if rndn(10) == 0 {
		n = 15 + rndn(6)
	}
	b := make([]byte, n)
	for i := range b {
		b[i] = al[rndn(len(al))]
	}
	return string(b)
}

type treeGen struct{ maxDepth int }

func (g *treeGen) atomTy() *sx { return atom(pick(treeAtoms)) }

func (g *treeGen) ty(depth int) *sx {
	r := rndn(100)
	switch {
	case r < 34 || depth >= g.maxDepth:
		return g.atomTy()
	case r < 46:
		return list(atom("ptr"), g.ty(depth+1))
	case r < 58:
		e := g.ty(depth + 1)
		for e.list == nil && e.atom == "u8" {
			e = g.atomTy()
		}
		return list(atom("slice"), e)
	case r < 66:
		return list(atom("arr"), atom(strconv.Itoa(rndn(4))), g.ty(depth+1))
	case r < 78:
		return list(atom("map"), atom("str"), g.ty(depth+1))
	}
	return g.structTy(depth+1, rndn(6), false)
}

func (g *treeGen) structTy(depth, n int, scalarOnly bool) *sx {
	out := []*sx{atom("struct")}
	used := map[string]bool{}
	var names []string
	for i := 0; i < n; i++ {
		var name string
		for {
			switch {
			case len(names) > 0 && rndn(7) == 0:
				name = jtFlipCase(pick(names))
			case rndn(4) == 0:
				name = treeRandName()
			default:
				name = pick(treeNames)
			}
			if !used[name] {
				break
			}
		}
		used[name] = true
		names = append(names, name)
		var ft *sx
		if scalarOnly {
			ft = g.atomTy()
			if rndn(8) == 0 {
				ft = list(atom("ptr"), g.atomTy())
			}
		} else {
			ft = g.ty(depth)
		}
		tag := name
		if rndn(3) == 0 {
			tag += ",omitempty"
		}
		out = append(out, list(atom("f"), atom("F"+strconv.Itoa(i)), atom(tag), ft))
	}
	return list(out...)
}

// top: a type for one round of cases
func (g *treeGen) top() *sx {
	switch r := rndn(100); {
	case r < 2:
		return g.structTy(1, 33+rndn(8), true)
	case r < 40:
		return g.structTy(1, rndn(6), false)
	}
	return g.ty(0)
}

// ------------------------------------------------------------------ values

var treeRunes = jtRunesOf(0xe9, 0x65e5, 0x1F600, 0x2028, 0x2029, 0xFFFD, 0x80, 0x7FF, 0x800, 0xFFFF, 0x10000, 0x10FFFF, 0x17F, 0x212A, 0xDF)
var treeBadUTF8 = []string{"\xff", "\xc0\x80", "\xed\xa0\x80", "\xc3", "\xf4\x90\x80\x80", "\x80", "\xe2\x82", "\xf0\x9f\x98", "\xfe", "\xc1\xbf", "\xed\xbf\xbf", "\xe0\x80\x80"}

type jtValGen struct{ budget int }

func (g *jtValGen) str(allowBad bool) []byte {
	var b []byte
	n := rndn(8)
	switch rndn(12) {
	case 0:
		n = 0
	case 1:
		n = 12 + rndn(20)
	}
	for i := 0; i < n; i++ {
		r := rndn(100)
		switch {
		case r < 55:
			for j := 1 + rndn(4); j > 0; j-- {
				b = append(b, byte(0x20+rndn(0x5f)))
			}
		case r < 72:
			b = append(b, `<>&"\/`[rndn(6)])
		case r < 79:
			b = append(b, byte(rndn(0x20)))
		case r < 82:
			b = append(b, 0x7f)
		case r < 94:
			b = append(b, pick(treeRunes)...)
		default:
			if allowBad {
				b = append(b, pick(treeBadUTF8)...)
			} else {
				b = append(b, 'q')
			}
		}
	}
	if b == nil {
		b = []byte{}
	}
	return b
}

func jtIntBounds(signed bool, bits int) (lo, hi *big.Int) {
	one := big.NewInt(1)
	if signed {
		hi = new(big.Int).Sub(new(big.Int).Lsh(one, uint(bits-1)), one)
		lo = new(big.Int).Neg(new(big.Int).Lsh(one, uint(bits-1)))
		return
	}
	return big.NewInt(0), new(big.Int).Sub(new(big.Int).Lsh(one, uint(bits)), one)
}

// jtRandInt: a boundary-heavy integer of the type
func jtRandInt(signed bool, bits int) *big.Int {
	lo, hi := jtIntBounds(signed, bits)
	one := big.NewInt(1)
	switch rndn(12) {
	case 0:
		return big.NewInt(0)
	case 1:
		return hi
	case 2:
		return lo
	case 3:
		return new(big.Int).Sub(hi, one)
	case 4:
		return new(big.Int).Add(lo, one)
	case 5:
		if signed {
			return big.NewInt(-1)
		}
		return big.NewInt(1)
	case 6, 7:
		x := big.NewInt(int64(rndn(100)))
		if signed && rndBool() {
			x.Neg(x)
		}
		return x
	case 8: // a power of ten or of two, or one less
		var x *big.Int
		if rndBool() {
			x = new(big.Int).Exp(big.NewInt(10), big.NewInt(int64(rndn(20))), nil)
		} else {
			x = new(big.Int).Lsh(one, uint(rndn(bits)))
		}
		if rndBool() {
			x.Sub(x, one)
		}
		if signed && rndBool() {
			x.Neg(x)
		}
		if x.Cmp(lo) < 0 || x.Cmp(hi) > 0 {
			return big.NewInt(7)
		}
		return x
	}
	x := new(big.Int).SetUint64(rnd() >> uint(64-bits) >> uint(rndn(bits)))
	if signed {
		x.Rsh(x, 1)
		if rndBool() {
			x.Neg(x)
		}
	}
	if x.Cmp(lo) < 0 || x.Cmp(hi) > 0 {
		return big.NewInt(3)
	}
	return x
}

func tvInt(x *big.Int) *jtVal {
	return &jtVal{k: 'i', neg: x.Sign() < 0, mag: new(big.Int).Abs(x).Uint64()}
}

func (g *jtValGen) key(bad bool) []byte {
	switch rndn(10) {
	case 0:
		return []byte{}
	case 1, 2, 3:
		return []byte(pick(treeNames))
	}
	return g.str(bad)
}

func (g *jtValGen) val(t *jtTy) *jtVal {
	g.budget--
	tight := g.budget <= 0
	switch t.k {
	case 'b':
		return &jtVal{k: 'b', b: rndBool()}
	case 'i':
		return tvInt(jtRandInt(t.signed, t.bits))
	case 's':
		return &jtVal{k: 's', s: g.str(rndn(10) == 0)}
	case 'p':
		if rndn(4) == 0 || (tight && rndBool()) {
			return &jtVal{k: 'n'}
		}
		return &jtVal{k: 'p', kids: []*jtVal{g.val(t.elem)}}
	case 'l':
		r := rndn(12)
		if r == 0 || (tight && rndn(3) == 0) {
			return &jtVal{k: 'n'}
		}
		n := rndn(5)
		switch {
		case r == 1 || tight:
			n = 0
		case r == 2 && g.budget > 60:
			n = 11 + rndn(10)
		}
		v := &jtVal{k: 'l', kids: []*jtVal{}}
		for i := 0; i < n; i++ {
			v.kids = append(v.kids, g.val(t.elem))
		}
		return v
	case 'a':
		v := &jtVal{k: 'l', kids: []*jtVal{}}
		for i := 0; i < t.n; i++ {
			v.kids = append(v.kids, g.val(t.elem))
		}
		return v
	case 'm':
		r := rndn(10)
		if r == 0 || (tight && rndn(3) == 0) {
			return &jtVal{k: 'n'}
		}
		n := 1 + rndn(3)
		if r == 1 || tight {
			n = 0
		}
		if r == 2 && g.budget > 100 {
			n = 9 + rndn(4)
		}
		bad := rndn(30) == 0
		seen := map[string]bool{}
		var ks []string
		for i := 0; i < n; i++ {
			k := string(g.key(bad))
			if !seen[k] {
				seen[k] = true
				ks = append(ks, k)
			}
		}
		sort.Strings(ks)
		v := &jtVal{k: 'm', kids: []*jtVal{}}
		for _, k := range ks {
			v.keys = append(v.keys, []byte(k))
			v.kids = append(v.kids, g.val(t.elem))
		}
		return v
	case 't':
		v := &jtVal{k: 't', kids: []*jtVal{}}
		for _, f := range t.fs {
			if f.omit && rndn(3) == 0 {
				v.kids = append(v.kids, jtZeroVal(f.t, rndBool()))
				continue
			}
			v.kids = append(v.kids, g.val(f.t))
		}
		return v
	}
	panic("type")
}

// jtZeroVal: an "empty" value for the omitempty paths (emptyNonNil: empty non-nil slice / map instead of nil)
func jtZeroVal(t *jtTy, emptyNonNil bool) *jtVal {
	switch t.k {
	case 'b':
		return &jtVal{k: 'b'}
	case 'i':
		return &jtVal{k: 'i'}
	case 's':
		return &jtVal{k: 's', s: []byte{}}
	case 'p':
		return &jtVal{k: 'n'}
	case 'l':
		if emptyNonNil {
			return &jtVal{k: 'l', kids: []*jtVal{}}
		}
		return &jtVal{k: 'n'}
	case 'm':
		if emptyNonNil {
			return &jtVal{k: 'm', kids: []*jtVal{}}
		}
		return &jtVal{k: 'n'}
	case 'a':
		v := &jtVal{k: 'l', kids: []*jtVal{}}
		for i := 0; i < t.n; i++ {
			v.kids = append(v.kids, jtZeroVal(t.elem, emptyNonNil))
		}
		return v
	case 't':
		v := &jtVal{k: 't', kids: []*jtVal{}}
		for _, f := range t.fs {
			v.kids = append(v.kids, jtZeroVal(f.t, emptyNonNil))
		}
		return v
	}
	panic("type")
}

// ------------------------------------------------------------------ documents

// jtToks splits a JSON text into tokens (a string literal is one token); white space is dropped
func jtToks(b []byte) [][]byte {
	var toks [][]byte
	i := 0
	for i < len(b) {
		c := b[i]
		switch {
		case c == '"':
			j := i + 1
			for j < len(b) && b[j] != '"' {
				if b[j] == '\\' {
					j++
				}
				j++
			}
			j++
			if j > len(b) {
				j = len(b)
			}
			toks = append(toks, b[i:j])
			i = j
		case strings.IndexByte("{}[],:", c) >= 0:
			toks = append(toks, b[i:i+1])
			i++
		case c == ' ' || c == '\t' || c == '\n' || c == '\r':
			i++
		default:
			j := i
			for j < len(b) && strings.IndexByte("{}[],:\" \t\n\r", b[j]) < 0 {
				j++
			}
			toks = append(toks, b[i:j])
			i = j
		}
	}
	return toks
}

// jtWSAlpha: the white space bytes in use for the current document (spaces only keeps a printable-ASCII document
// printable: the decoder has a fast path for such inputs)
var jtWSAlpha = " \t\n\r"

func jtPickWS() {
	jtWSAlpha = " \t\n\r"
	if rndn(3) == 0 {
		jtWSAlpha = " "
	}
}

func jtRandWS(max int) []byte {
	n := rndn(max + 1)
	b := make([]byte, n)
	for i := range b {
		b[i] = jtWSAlpha[rndn(len(jtWSAlpha))]
	}
	return b
}

func jtWithWS(doc []byte) []byte {
	var o []byte
	jtPickWS()
	dense := rndn(3) // 0: everywhere, otherwise sparse
	for _, t := range jtToks(doc) {
		if dense == 0 || rndn(3) == 0 {
			o = append(o, jtRandWS(3)...)
		}
		o = append(o, t...)
	}
	return append(o, jtRandWS(3)...)
}

// jtDupKey reports whether some object of the document holds the same key twice (after unescaping; case folded).
// Lenient: works on malformed documents too.
func jtDupKey(doc []byte) bool {
	toks := jtToks(doc)
	var stack []map[string]bool
	for i, t := range toks {
		switch {
		case len(t) == 1 && (t[0] == '{' || t[0] == '['):
			if t[0] == '{' {
				stack = append(stack, map[string]bool{})
			} else {
				stack = append(stack, nil)
			}
		case len(t) == 1 && (t[0] == '}' || t[0] == ']'):
			if len(stack) > 0 {
				stack = stack[:len(stack)-1]
			}
		case t[0] == '"' && i+1 < len(toks) && len(toks[i+1]) == 1 && toks[i+1][0] == ':':
			if len(stack) == 0 || stack[len(stack)-1] == nil {
				continue
			}
			var s string
			if stdjson.Unmarshal(t, &s) != nil {
				s = string(t)
			}
			s = strings.ToLower(strings.ToUpper(s)) // simple case folding: U+017F folds onto s, U+212A onto k
			if stack[len(stack)-1][s] {
				return true
			}
			stack[len(stack)-1][s] = true
		}
	}
	return false
}

// jtDocGen writes JSON text for a type with random deviations.
type jtDocGen struct {
	w      bytes.Buffer
	wsP    int // white space between tokens: one chance in wsP (0: never)
	errP   int // error-provoking deviations: chance per node in 1000
	size   int
	isDup  bool
	inList bool // the next value is an element of a slice or an array
}

func (d *jtDocGen) sp() {
	if d.wsP > 0 && rndn(d.wsP) == 0 {
		d.w.Write(jtRandWS(2))
		if rndn(4) == 0 {
			d.w.Write(jtRandWS(1))
		}
	}
}

func (d *jtDocGen) bad() bool { return d.errP > 0 && rndn(1000) < d.errP }

// ue: the six bytes of a JSON escape for a UTF-16 unit given in hex
func jtUE(hs ...string) string {
	o := ""
	for _, h := range hs {
		o += "\\" + "u" + h
	}
	return o
}

func jtRunesOf(cs ...rune) []string {
	var o []string
	for _, c := range cs {
		o = append(o, string(c))
	}
	return o
}

var jtDocEscapes = []string{`\n`, `\t`, `\r`, `\b`, `\f`, `\"`, `\\`, `\/`, jtUE("0041"), jtUE("00e9"), jtUE("00E9"), jtUE("2028"), jtUE("2029"), jtUE("0000"), jtUE("001f"), jtUE("007f"), jtUE("ffff"), jtUE("fffd"), jtUE("003c"), jtUE("0026"),
	jtUE("d83d", "de00"), jtUE("D83D", "DE00"), jtUE("dbff", "dfff"), jtUE("d800", "dc00"), jtUE("0022"), jtUE("005c"), jtUE("000a")}
var jtDocLone = []string{jtUE("d800"), jtUE("dc00"), jtUE("d800", "0041"), jtUE("d800", "d800"), jtUE("d800") + "x", jtUE("dbff") + `\n`, jtUE("dfff", "d800"), jtUE("d83d", "00e9"), jtUE("d83d", "0041", "de00"), jtUE("d800", "dbff", "dc00"), jtUE("D800"), jtUE("dFfF")}
var jtDocBadEsc = []string{`\x41`, `\a`, jtUE("12"), jtUE("12G4"), `\U0041`, `\'`, `\0`, jtUE(""), jtUE(" 041"), jtUE("d800", "12"), jtUE("d83d", "ZZ00"), `\v`, jtUE("+123"), jtUE("-123")}

// strBody: the inside of a string literal
func (d *jtDocGen) strBody() []byte {
	var b []byte
	n := rndn(6)
	switch rndn(10) {
	case 0:
		n = 0
	case 1:
		n = 8 + rndn(12)
	}
	for i := 0; i < n; i++ {
		r := rndn(100)
		switch {
		case r < 45:
			for j := 1 + rndn(5); j > 0; j-- {
				c := byte(0x20 + rndn(0x5f))
				if c == '"' || c == '\\' {
					c = '<'
				}
				b = append(b, c)
			}
		case r < 70:
			b = append(b, pick(jtDocEscapes)...)
		case r < 80:
			b = append(b, pick(treeRunes)...)
		case r < 84:
			b = append(b, 0x7f)
		case r < 90:
			b = append(b, pick(jtDocLone)...)
		case r < 96:
			b = append(b, pick(treeBadUTF8)...)
		default:
			if d.bad() {
				if rndBool() {
					b = append(b, pick(jtDocBadEsc)...)
				} else {
					b = append(b, byte(rndn(0x20)))
				}
			} else {
				b = append(b, "&>/"[rndn(3)])
			}
		}
	}
	return b
}

func (d *jtDocGen) strLit() {
	d.w.WriteByte('"')
	d.w.Write(d.strBody())
	if d.bad() && rndn(3) == 0 {
		if rndBool() {
			d.w.WriteByte('\\') // escapes the closing quote
		} else {
			return // unterminated
		}
	}
	d.w.WriteByte('"')
}

// keyLit writes an object key for the given bytes, plainly or with escapes
func (d *jtDocGen) keyLit(k []byte, escapes bool) {
	d.w.WriteByte('"')
	for _, c := range k {
		switch {
		case escapes && rndn(3) == 0 && c < 0x80:
			if rndBool() {
				d.w.WriteString(jtUE(fmt.Sprintf("00%02x", c)))
			} else {
				d.w.WriteString(jtUE(fmt.Sprintf("00%02X", c)))
			}
		case c == '"' || c == '\\':
			d.w.WriteByte('\\')
			d.w.WriteByte(c)
		case c < 0x20:
			d.w.WriteString(jtUE(fmt.Sprintf("00%02x", c)))
		default:
			d.w.WriteByte(c)
		}
	}
	d.w.WriteByte('"')
}

var jtDocNumbers = []string{"0", "-0", "1", "-1", "12", "1.5", "-0.25", "1e2", "1E+2", "1e-2", "0.0", "0e0", "123456789012345678901234567890", "-99999999999999999999", "1.0e+308", "1e400", "3.141592653589793", "18446744073709551616", "-9223372036854775809", "2.5E-3"}
var jtDocBadNumbers = []string{"01", "00", "-", "+1", "1.", ".5", "1e", "1e+", "-01", "0x10", "1.e1", "--1", "1..2", "1e1.5", "NaN", "Infinity", "-Infinity", "0.", "-.5", "1E", "1_000"}
var jtDocBadLits = []string{"tru", "nul", "fals", "True", "NULL", "nulll", "truee", "undefined", "t", "n", "f", "'a'", "nil"}

// anyJSON writes an arbitrary JSON value
func (d *jtDocGen) anyJSON(depth int) {
	d.size++
	r := rndn(100)
	if depth > 3 || d.size > 400 {
		r = rndn(60)
	}
	switch {
	case r < 8:
		d.w.WriteString("null")
	case r < 16:
		d.w.WriteString(pick([]string{"true", "false"}))
	case r < 36:
		if d.bad() {
			d.w.WriteString(pick(jtDocBadNumbers))
		} else {
			d.w.WriteString(pick(jtDocNumbers))
		}
	case r < 58:
		d.strLit()
	case r < 60:
		if d.bad() {
			d.w.WriteString(pick(jtDocBadLits))
		} else {
			d.w.WriteString("null")
		}
	case r < 80:
		d.w.WriteByte('[')
		n := rndn(4)
		for i := 0; i < n; i++ {
			d.sp()
			if i > 0 {
				d.comma()
			}
			d.anyJSON(depth + 1)
		}
		d.sp()
		if n > 0 && d.bad() {
			d.w.WriteByte(',')
		}
		d.closer(']')
	default:
		d.w.WriteByte('{')
		n := rndn(4)
		for i := 0; i < n; i++ {
			d.sp()
			if i > 0 {
				d.comma()
			}
			if rndn(3) == 0 {
				d.strLit()
			} else {
				d.keyLit([]byte(pick(treeNames)), rndn(8) == 0)
			}
			d.sp()
			d.colon()
			d.anyJSON(depth + 1)
		}
		d.sp()
		d.closer('}')
	}
}

func (d *jtDocGen) comma() {
	if d.bad() {
		switch rndn(3) {
		case 0:
			return
		case 1:
			d.w.WriteString(",,")
		default:
			d.w.WriteByte(';')
		}
		return
	}
	d.w.WriteByte(',')
	d.sp()
}

func (d *jtDocGen) colon() {
	if d.bad() {
		switch rndn(3) {
		case 0:
		case 1:
			d.w.WriteString("::")
		default:
			d.w.WriteByte('=')
		}
		return
	}
	d.w.WriteByte(':')
	d.sp()
}

func (d *jtDocGen) closer(c byte) {
	if d.bad() {
		switch rndn(3) {
		case 0:
			return
		case 1:
			d.w.WriteByte(c ^ 0x20) // ] <-> }
		default:
			d.w.WriteByte(c)
			d.w.WriteByte(c)
		}
		return
	}
	d.w.WriteByte(c)
}

func (d *jtDocGen) intText(t *jtTy) {
	lo, hi := jtIntBounds(t.signed, t.bits)
	one := big.NewInt(1)
	if d.bad() {
		switch rndn(12) {
		case 0:
			d.w.WriteString("0" + jtRandInt(t.signed, t.bits).Text(10)) // leading zero (also "0-5")
		case 1:
			x := jtRandInt(false, t.bits)
			d.w.WriteString("-0" + x.Text(10))
		case 2:
			d.w.WriteString("-")
		case 3:
			d.w.WriteString(new(big.Int).Add(hi, one).Text(10))
		case 4:
			d.w.WriteString(new(big.Int).Sub(lo, one).Text(10)) // -1 for the unsigned types
		case 5:
			d.w.WriteString(pick([]string{"123456789012345678901", "-99999999999999999999", "18446744073709551616", "00000000000000000000001", "100000000000000000000", "-9223372036854775809", "9223372036854775808", "340282366920938463463374607431768211456"}))
		case 6:
			d.w.WriteString(jtRandInt(t.signed, 8).Text(10) + pick([]string{".5", ".0", ".", ".e1", ".00"}))
		case 7:
			d.w.WriteString(jtRandInt(t.signed, 8).Text(10) + pick([]string{"e2", "E2", "e+2", "e-2", "e0", "e", "E+", "e00"}))
		case 8:
			d.w.WriteString(pick([]string{"+1", ".5", "-.5", "0x1f", "1_0", "١", "1 2", "- 1"}))
		case 9:
			if t.signed {
				d.w.WriteString("--1")
			} else {
				d.w.WriteString("-" + jtRandInt(false, t.bits).Text(10)) // minus for unsigned (also -0)
			}
		case 10:
			d.w.WriteString(new(big.Int).Lsh(hi, 1).Text(10))
		default:
			d.w.WriteString(pick(jtDocBadNumbers))
		}
		return
	}
	if rndn(25) == 0 {
		d.w.WriteString("-0")
		return
	}
	d.w.WriteString(jtRandInt(t.signed, t.bits).Text(10))
}

// wrongKind writes a value of a JSON kind that does not fit the type
func (d *jtDocGen) wrongKind(t *jtTy) {
	for tries := 0; tries < 5; tries++ {
		c := "bnsao"[rndn(5)]
		switch {
		case c == 'b' && t.k != 'b':
			d.w.WriteString(pick([]string{"true", "false"}))
			return
		case c == 'n' && t.k != 'i':
			d.w.WriteString(pick(jtDocNumbers))
			return
		case c == 's' && t.k != 's':
			if t.k == 'i' && rndBool() {
				d.w.WriteString(`"12"`)
			} else {
				d.strLit()
			}
			return
		case c == 'a' && t.k != 'l' && t.k != 'a':
			d.w.WriteString(pick([]string{"[]", "[1]", `["a",{}]`, "[[]]", "[null]"}))
			return
		case c == 'o' && t.k != 'm' && t.k != 't':
			d.w.WriteString(pick([]string{"{}", `{"a":1}`, `{"a":{"b":[]}}`}))
			return
		}
	}
	d.anyJSON(2)
}

func (d *jtDocGen) val(t *jtTy, depth int) {
	d.size++
	nullP := 30
	switch {
	case t.k == 'p':
		nullP = 5
	case d.inList:
		nullP = 9 // null elements: what stays in a reused backing array shows here
	}
	d.inList = false
	if rndn(nullP) == 0 {
		d.w.WriteString("null")
		return
	}
	if d.bad() {
		d.wrongKind(t)
		return
	}
	if d.bad() {
		d.w.WriteString(pick(jtDocBadLits))
		return
	}
	small := d.size > 300
	switch t.k {
	case 'b':
		d.w.WriteString(pick([]string{"true", "false"}))
	case 'i':
		d.intText(t)
	case 's':
		d.strLit()
	case 'p':
		d.size--
		d.val(t.elem, depth)
	case 'l', 'a':
		n := rndn(5)
		switch r := rndn(12); {
		case r == 0 || small:
			n = 0
		case r == 1 && d.size < 100:
			n = 11 + rndn(10)
		}
		surplus := 0
		if t.k == 'a' {
			n = t.n
			switch rndn(8) {
			case 0:
				n = rndn(t.n + 1) // shorter
			case 1:
				surplus = 1 + rndn(3) // longer
			}
		}
		d.w.WriteByte('[')
		for i := 0; i < n+surplus; i++ {
			d.sp()
			if i > 0 {
				d.comma()
			}
			if i < n {
				d.inList = true
				d.val(t.elem, depth+1)
			} else {
				d.anyJSON(1)
			}
		}
		d.sp()
		if n+surplus > 0 && d.bad() {
			d.w.WriteByte(',')
		}
		d.closer(']')
	case 'm':
		n := rndn(4)
		switch {
		case small:
			n = 0
		case rndn(8) == 0 && d.size < 150:
			n = 5 + rndn(6)
		}
		var prev [][]byte
		d.w.WriteByte('{')
		for i := 0; i < n; i++ {
			d.sp()
			if i > 0 {
				d.comma()
			}
			switch r := rndn(12); {
			case r == 0 && len(prev) > 0: // duplicate key
				d.keyLit(pick(prev), rndn(3) == 0)
				d.isDup = true
			case r == 1:
				d.w.WriteString(`""`)
				prev = append(prev, []byte{})
			case r < 6:
				k := []byte(pick(treeNames))
				prev = append(prev, k)
				d.keyLit(k, rndn(6) == 0)
			default:
				d.strLit()
			}
			d.sp()
			d.colon()
			d.val(t.elem, depth+1)
		}
		d.sp()
		d.closer('}')
	case 't':
		d.structDoc(t, depth)
	}
}

type jtMember struct {
	fi  int // field index, -1: unknown key
	key []byte
	esc bool
	raw bool // key is written by strLit
	nul bool
}

func (d *jtDocGen) structDoc(t *jtTy, depth int) {
	var ms []jtMember
	for i, f := range t.fs {
		if rndn(6) == 0 {
			continue // absent
		}
		ms = append(ms, jtMember{fi: i, key: []byte(f.name)})
	}
	// duplicates
	if len(ms) > 0 && rndn(10) == 0 {
		for k := 1 + rndn(2); k > 0; k-- {
			m := pick(ms)
			m.nul = rndn(3) == 0
			ms = append(ms, m)
			d.isDup = true
		}
	}
	// unknown keys
	if rndn(6) == 0 {
		for k := 1 + rndn(2); k > 0; k-- {
			m := jtMember{fi: -1}
			switch rndn(6) {
			case 0:
				m.raw = true
			case 1:
				m.key = []byte(pick([]string{"", " ", "a b", "a.b", "_", "-", "a-b", "$x", "é", "日本", "aé", "K", "ſ"}))
			case 2:
				if len(t.fs) > 0 { // a prefix / an extension of a field name
					nm := pick(t.fs).name
					if rndBool() {
						m.key = []byte(nm + pick([]string{"x", "0", "_", " ", "\x00", "\x00\x00", "\x00a"}))
					} else {
						m.key = []byte(nm[:len(nm)-1])
					}
				} else {
					m.key = []byte("q")
				}
			default:
				m.key = []byte(treeRandName())
				if rndBool() {
					m.key = []byte(pick(treeNames))
				}
			}
			ms = append(ms, m)
		}
	}
	// key spelling
	for i := range ms {
		if ms[i].fi < 0 {
			continue
		}
		switch rndn(40) {
		case 0:
			ms[i].key = []byte(jtFlipCase(string(ms[i].key)))
		case 1:
			ms[i].key = []byte(strings.ToUpper(string(ms[i].key)))
		case 2:
			ms[i].key = []byte(strings.ToLower(string(ms[i].key)))
		case 3, 4:
			ms[i].esc = true
		case 5: // non-ASCII letters that fold to ASCII ones
			s := string(ms[i].key)
			s = strings.Replace(s, "k", "K", 1)
			s = strings.Replace(s, "s", "ſ", 1)
			ms[i].key = []byte(s)
		}
	}
	// order
	if rndn(3) == 0 {
		for i := len(ms) - 1; i > 0; i-- {
			j := rndn(i + 1)
			ms[i], ms[j] = ms[j], ms[i]
		}
	}
	d.w.WriteByte('{')
	for i, m := range ms {
		d.sp()
		if i > 0 {
			d.comma()
		}
		switch {
		case m.raw:
			d.strLit()
		case d.bad() && rndn(4) == 0:
			d.w.Write(m.key) // unquoted key
		default:
			d.keyLit(m.key, m.esc)
		}
		d.sp()
		d.colon()
		switch {
		case m.fi < 0:
			d.anyJSON(1)
		case m.nul:
			d.w.WriteString("null")
		default:
			d.val(t.fs[m.fi].t, depth+1)
		}
	}
	d.sp()
	if len(ms) > 0 && d.bad() {
		d.w.WriteByte(',')
	}
	d.closer('}')
}

func jtGenDoc(t *jtTy) []byte {
	d := &jtDocGen{wsP: pick([]int{0, 0, 8, 2}), errP: pick([]int{0, 0, 3, 10, 30})}
	jtPickWS()
	if d.wsP > 0 {
		d.w.Write(jtRandWS(2))
	}
	d.val(t, 0)
	if d.wsP > 0 {
		d.w.Write(jtRandWS(2))
	}
	return append([]byte(nil), d.w.Bytes()...)
}

var jtTrailGarbage = []string{"x", "}", "]", " 1", ",", "null", "{}", "\x00", " \n\t}", "\"", ":", "0", "[]", "\xff", "\xef\xbb\xbf", "//", "\x0b", "\x0c", "\xc2\xa0"}

const jtMutBytes = "{}[],:\"\\ 0-e.ntf\x00/u19"

// jtMutate: the malformed stream
func jtMutate(doc []byte) []byte {
	b := append([]byte(nil), doc...)
	switch r := rndn(100); {
	case r < 3:
		return []byte{}
	case r < 6:
		return jtRandWS(4)
	case r < 36: // truncation
		if len(b) == 0 {
			return b
		}
		if rndBool() { // at a token boundary
			toks := jtToks(b)
			if len(toks) > 1 {
				n := rndn(len(toks))
				var o []byte
				for _, t := range toks[:n] {
					o = append(o, t...)
				}
				if rndn(3) == 0 && n < len(toks) && len(toks[n]) > 1 {
					o = append(o, toks[n][:1+rndn(len(toks[n])-1)]...) // inside the next token
				}
				return o
			}
		}
		return b[:rndn(len(b))]
	case r < 56: // one byte replaced
		if len(b) == 0 {
			return []byte("x")
		}
		i := rndn(len(b))
		if rndBool() {
			b[i] = byte(rnd())
		} else {
			b[i] = jtMutBytes[rndn(len(jtMutBytes))]
		}
		return b
	case r < 70: // insertion
		i := rndn(len(b) + 1)
		var c byte
		if rndBool() {
			c = byte(rnd())
		} else {
			c = jtMutBytes[rndn(len(jtMutBytes))]
		}
		return append(b[:i:i], append([]byte{c}, b[i:]...)...)
	case r < 84: // deletion
		if len(b) == 0 {
			return b
		}
		i := rndn(len(b))
		return append(b[:i:i], b[i+1:]...)
	case r < 88: // leading garbage
		return append([]byte(pick(jtTrailGarbage)), b...)
	}
	return append(b, pick(jtTrailGarbage)...)
}

// ------------------------------------------------------------------ cases

func jtOneLine(s string) string {
	var o strings.Builder
	for _, c := range []byte(s) {
		if c < 0x20 || c >= 0x7f {
			fmt.Fprintf(&o, "\\x%02x", c)
		} else {
			o.WriteByte(c)
		}
	}
	if o.Len() > 200 {
		return o.String()[:200]
	}
	return o.String()
}

func jtGuarded(f func() string) (s string) {
	defer func() {
		if r := recover(); r != nil {
			s = "panic " + jtOneLine(fmt.Sprint(r))
		}
	}()
	return f()
}

// treeOnly restricts a run to the encode or the decode cases (the generation is the same)
var treeOnly string

func treeEnc(tx *sx, rt reflect.Type, v *jtVal) {
	if treeOnly == "dec" {
		return
	}
	if !mine() {
		skip()
		return
	}
	args := sxString(tx) + "|" + v.String()
	trace("j.tree.enc", args)
	orc := jtGuarded(func() string {
		b, err := stdjson.Marshal(tvBuild(rt, v).Interface())
		if err != nil {
			return "err"
		}
		return hexs(b)
	})
	impl := jtGuarded(func() string {
		b, err := json.Marshal(tvBuild(rt, v).Interface())
		if err != nil {
			return "err"
		}
		return hexs(b)
	})
	emit("j.tree.enc", args, impl, orc)
}

func treeDec(tx *sx, rt reflect.Type, doc []byte) {
	if treeOnly == "enc" {
		return
	}
	if !mine() {
		skip()
		return
	}
	ts := sxString(tx)
	fn := "j.tree.dec"
	if strings.Contains(ts, "(ptr (ptr") && jtDupKey(doc) {
		fn += ".pp"
	}
	args := ts + "|" + hexs(doc)
	trace(fn, args)
	orc := jtGuarded(func() string {
		p := reflect.New(rt)
		if err := stdjson.Unmarshal(append([]byte(nil), doc...), p.Interface()); err != nil {
			return "err"
		}
		return tvOf(p.Elem()).String()
	})
	impl := jtGuarded(func() string {
		p := reflect.New(rt)
		if err := json.Unmarshal(append([]byte(nil), doc...), p.Interface()); err != nil {
			return "err"
		}
		return tvOf(p.Elem()).String()
	})
	emit(fn, args, impl, orc)
}

// documents tried against every type
var jtFixedDocs = []string{"null", " null ", "{}", "[]", `""`, "0", "1", "-1", "true", "false", "[null]", `{"a":null}`, "[[]]", `{"":0}`, "[0]", `["a"]`, `{"a":"b"}`, `{"a":[]}`, `{"a":{}}`,
	"[{}]", "[null,null,null,null]", `{"a":null,"a":null}`, "nul", "[", "{", `"`, "-", "[]]", "{}}", "nullnull", "null,", "[1,2,3,4,5]", `{"a":1,"A":2}`, "\xef\xbb\xbfnull", "0.0", "1e0", "-0"}

var treeFixedTypes = []string{
	"bool", "i8", "u64", "i64", "str", "(ptr (ptr i32))", "(slice str)", "(arr 2 u8)", "(arr 0 str)", "(map str (map str i16))", "(map str str)", "(map str bool)", "(map str (slice str))",
	"(struct)", "(struct (f F0 a i32) (f F1 A,omitempty str))",
	"(struct (f F0 p (ptr (ptr u8))) (f F1 s,omitempty (slice (struct (f F0 x bool)))) (f F2 m,omitempty (map str i8)) (f F3 z,omitempty (arr 0 i8)) (f F4 r,omitempty (arr 2 str)) (f F5 e,omitempty (struct)))",
	"(slice (struct (f F0 id u32) (f F1 name,omitempty str) (f F2 next,omitempty (ptr (struct (f F0 v i64))))))",
	"(ptr (struct (f F0 k (map str (ptr str))) (f F1 K (arr 3 (slice i8)))))",
}

func runC01Tree() {
	nT := 3000
	if *tier == "thorough" {
		nT *= 10
	}
	g := &treeGen{maxDepth: 4}
	for i := 0; i < nT; i++ {
		var tx *sx
		if i < len(treeFixedTypes) {
			tx = parseSx(treeFixedTypes[i])
		} else {
			tx = g.top()
		}
		rt := jType(tx)
		t := ttyOf(tx)
		var docs [][]byte
		for j := 0; j < 5; j++ {
			vg := &jtValGen{budget: pick([]int{30, 80, 300})}
			v := vg.val(t)
			treeEnc(tx, rt, v)
			doc, err := stdjson.Marshal(tvBuild(rt, v).Interface())
			if err != nil {
				continue
			}
			docs = append(docs, doc)
			if j < 3 {
				treeDec(tx, rt, doc)
			}
			treeDec(tx, rt, jtWithWS(doc))
		}
		for j := 0; j < 6; j++ {
			doc := jtGenDoc(t)
			docs = append(docs, doc)
			treeDec(tx, rt, doc)
		}
		for j := 0; j < 4; j++ {
			treeDec(tx, rt, jtMutate(pick(docs)))
		}
		treeDec(tx, rt, []byte(pick(jtFixedDocs)))
	}
}
