//go:build verif && c14tree

package main

// Structural part of C14: json.Append under every AppendFlags subset and json.Parse under the ParseFlags that change the
// documents accepted or the copying, over the typed value trees of c01tree.go (Coq model Json/TreeFlagsModel.v).
//
//	f.tree.enc      <type sx>|<value sx>|<aflags>   impl: hex of json.Append(nil, v, flags); oracle: hex of what the
//	                encoding/json Encoder writes with SetEscapeHTML(flags has EscapeHTML), newline trimmed, WHEN SortMapKeys
//	                is set or no map of the value has two entries; otherwise -
//	f.tree.encsort  the same args, SortMapKeys clear: impl: hex of the output of json.Append with the members of every
//	                object that encodes a MAP sorted by their decoded key (a type-directed re-tokenisation, nothing else
//	                is touched); oracle: the encoding/json Encoder output. Members are only permuted.
//	f.tree.encrt    the same args, SortMapKeys clear: impl: same / different: the output of json.Append, decoded by
//	                encoding/json into a fresh value and re-encoded by encoding/json, equals the encoding/json
//	                encoding of the original value; oracle: same
//	f.tree.dec(.pp) <type sx>|<hex document>|<pflags>   impl: value sx after json.Parse(doc, &fresh, flags) (err when an
//	                error is returned or input is left over); oracle: the same through the encoding/json Decoder, with
//	                DisallowUnknownFields() when that flag is set; - when DontMatchCaseInsensitiveStructFields is set and
//	                some key of the document equals a field name of the type only up to case. Without DontCopyString the
//	                input buffer is overwritten before the value is rendered (no aliasing allowed)
//
// aflags: decimal, bit 0 EscapeHTML, bit 1 SortMapKeys, bit 2 TrustRawMessage.
// pflags: letters, u DisallowUnknownFields, c DontMatchCaseInsensitiveStructFields, s DontCopyString, n DontCopyNumber,
// r DontCopyRawMessage; 0 for none.

import (
	"bytes"
	stdjson "encoding/json"
	"reflect"
	"sort"
	"strconv"
	"strings"
	"unicode/utf8"

	"github.com/segmentio/encoding/json"
)

func init() {
	register("c14tree", runC14Tree)
	replayers["f.tree.enc"] = func(a []string) {
		f := strings.SplitN(strings.Join(a, " "), "|", 3)
		tx := parseSx(f[0])
		fl, _ := strconv.Atoi(f[2])
		ftEnc(tx, jType(tx), ttyOf(tx), tvParse(parseSx(f[1])), fl)
	}
	dec := func(a []string) {
		f := strings.SplitN(strings.Join(a, " "), "|", 3)
		tx := parseSx(f[0])
		ftDec(tx, jType(tx), ttyOf(tx), unhex(f[1]), f[2])
	}
	replayers["f.tree.dec"] = dec
	replayers["f.tree.dec.pp"] = dec
	replayers["f.tree.encsort"] = replayers["f.tree.enc"]
	replayers["f.tree.encrt"] = replayers["f.tree.enc"]
}

func ftAppendFlags(fl int) json.AppendFlags {
	var o json.AppendFlags
	if fl&1 != 0 {
		o |= json.EscapeHTML
	}
	if fl&2 != 0 {
		o |= json.SortMapKeys
	}
	if fl&4 != 0 {
		o |= json.TrustRawMessage
	}
	return o
}

func ftParseFlags(s string) json.ParseFlags {
	var o json.ParseFlags
	for _, c := range s {
		switch c {
		case 'u':
			o |= json.DisallowUnknownFields
		case 'c':
			o |= json.DontMatchCaseInsensitiveStructFields
		case 's':
			o |= json.DontCopyString
		case 'n':
			o |= json.DontCopyNumber
		case 'r':
			o |= json.DontCopyRawMessage
		}
	}
	return o
}

// ftSmallMaps: no map of the value has two entries; ftKeysUTF8: every map key is well-formed UTF-8
func ftSmallMaps(v *jtVal) bool {
	if v.k == 'm' && len(v.kids) > 1 {
		return false
	}
	for _, k := range v.kids {
		if !ftSmallMaps(k) {
			return false
		}
	}
	return true
}

func ftKeysUTF8(v *jtVal) bool {
	for _, k := range v.keys {
		if !utf8.Valid(k) {
			return false
		}
	}
	for _, k := range v.kids {
		if !ftKeysUTF8(k) {
			return false
		}
	}
	return true
}

func ftStdEncode(x any, html bool) ([]byte, error) {
	var w bytes.Buffer
	e := stdjson.NewEncoder(&w)
	e.SetEscapeHTML(html)
	if err := e.Encode(x); err != nil {
		return nil, err
	}
	return bytes.TrimSuffix(w.Bytes(), []byte("\n")), nil
}

// ftSortMaps re-emits the tokens of a compact document of type t with the members of every object that stands for a
// map sorted by decoded key. ok is false when the document does not have the shape of the type.
type ftCanon struct {
	toks [][]byte
	pos  int
	ok   bool
}

func (c *ftCanon) next() []byte {
	if c.pos >= len(c.toks) {
		c.ok = false
		return nil
	}
	t := c.toks[c.pos]
	c.pos++
	return t
}

func (c *ftCanon) peek() byte {
	if c.pos >= len(c.toks) || len(c.toks[c.pos]) == 0 {
		c.ok = false
		return 0
	}
	return c.toks[c.pos][0]
}

func (c *ftCanon) expect(b byte) {
	t := c.next()
	if len(t) != 1 || t[0] != b {
		c.ok = false
	}
}

func (c *ftCanon) val(t *jtTy, w *bytes.Buffer) {
	if !c.ok {
		return
	}
	if c.pos < len(c.toks) && string(c.toks[c.pos]) == "null" {
		w.Write(c.next())
		return
	}
	switch t.k {
	case 'b', 'i', 's':
		w.Write(c.next())
	case 'p':
		c.val(t.elem, w)
	case 'l', 'a':
		c.expect('[')
		w.WriteByte('[')
		for i := 0; c.ok && c.peek() != ']'; i++ {
			if i > 0 {
				c.expect(',')
				w.WriteByte(',')
			}
			c.val(t.elem, w)
		}
		c.expect(']')
		w.WriteByte(']')
	case 'm':
		c.expect('{')
		type memb struct {
			key string
			raw []byte
		}
		var ms []memb
		for i := 0; c.ok && c.peek() != '}'; i++ {
			if i > 0 {
				c.expect(',')
			}
			kt := c.next()
			var key string
			if stdjson.Unmarshal(kt, &key) != nil {
				c.ok = false
			}
			c.expect(':')
			var mw bytes.Buffer
			mw.Write(kt)
			mw.WriteByte(':')
			c.val(t.elem, &mw)
			ms = append(ms, memb{key, mw.Bytes()})
		}
		c.expect('}')
		sort.SliceStable(ms, func(i, j int) bool { return ms[i].key < ms[j].key })
		w.WriteByte('{')
		for i, m := range ms {
			if i > 0 {
				w.WriteByte(',')
			}
			w.Write(m.raw)
		}
		w.WriteByte('}')
	case 't':
		c.expect('{')
		w.WriteByte('{')
		for i := 0; c.ok && c.peek() != '}'; i++ {
			if i > 0 {
				c.expect(',')
				w.WriteByte(',')
			}
			kt := c.next()
			var key string
			if stdjson.Unmarshal(kt, &key) != nil {
				c.ok = false
				return
			}
			var ft *jtTy
			for _, f := range t.fs {
				if f.name == key {
					ft = f.t
				}
			}
			if ft == nil {
				c.ok = false
				return
			}
			w.Write(kt)
			c.expect(':')
			w.WriteByte(':')
			c.val(ft, w)
		}
		c.expect('}')
		w.WriteByte('}')
	}
}

func ftSortMaps(t *jtTy, doc []byte) ([]byte, bool) {
	// the tokens must cover the document (compact output: no white space)
	toks := jtToks(doc)
	n := 0
	for _, k := range toks {
		n += len(k)
	}
	if n != len(doc) {
		return nil, false
	}
	c := &ftCanon{toks: toks, ok: true}
	var w bytes.Buffer
	c.val(t, &w)
	if !c.ok || c.pos != len(toks) {
		return nil, false
	}
	return w.Bytes(), true
}

func ftEnc(tx *sx, rt reflect.Type, t *jtTy, v *jtVal, fl int) {
	sorted := fl&2 != 0
	nCases := 1
	if !sorted {
		nCases = 3
	}
	hit := false
	for i := 1; i <= nCases; i++ {
		if ((caseNo + i) % *nshard) == *shard {
			hit = true
		}
	}
	if !hit {
		caseNo += nCases
		return
	}
	args := sxString(tx) + "|" + v.String() + "|" + strconv.Itoa(fl)
	trace("f.tree.enc", args)
	var out []byte
	impl := jtGuarded(func() string {
		b, err := json.Append(nil, tvBuild(rt, v).Interface(), ftAppendFlags(fl))
		if err != nil {
			return "err"
		}
		out = b
		return hexs(b)
	})
	var stdOut []byte
	std := jtGuarded(func() string {
		b, err := ftStdEncode(tvBuild(rt, v).Interface(), fl&1 != 0)
		if err != nil {
			return "err"
		}
		stdOut = b
		return hexs(b)
	})
	orc := "-"
	if sorted || ftSmallMaps(v) {
		orc = std
	}
	emit("f.tree.enc", args, impl, orc)
	if sorted {
		return
	}
	// members only permuted
	srt := "err"
	if out != nil {
		srt = jtGuarded(func() string {
			b, ok := ftSortMaps(t, out)
			if !ok {
				return "shape"
			}
			return hexs(b)
		})
	}
	orc = "-"
	if ftKeysUTF8(v) {
		orc = std
	}
	emit("f.tree.encsort", args, srt, orc)
	// decodes to the same value
	rtv := "err"
	if out != nil && stdOut != nil {
		rtv = jtGuarded(func() string {
			p := reflect.New(rt)
			if err := stdjson.Unmarshal(out, p.Interface()); err != nil {
				return "undecodable"
			}
			q := reflect.New(rt)
			if err := stdjson.Unmarshal(stdOut, q.Interface()); err != nil {
				return "oracle undecodable"
			}
			if tvOf(p.Elem()).String() == tvOf(q.Elem()).String() {
				return "same"
			}
			return "different"
		})
	} else if out == nil && stdOut == nil {
		rtv = "same"
	}
	emit("f.tree.encrt", args, rtv, "same")
}

// ftFieldNames collects the field names of every struct of the type
func ftFieldNames(t *jtTy, out *[]string) {
	if t == nil {
		return
	}
	for _, f := range t.fs {
		*out = append(*out, f.name)
		ftFieldNames(f.t, out)
	}
	ftFieldNames(t.elem, out)
}

// ftFoldOnly: some key of the document equals a field name of the type up to case (Unicode simple folding) and not
// exactly; conservative (true) when a key cannot be unquoted
func ftFoldOnly(names []string, doc []byte) bool {
	if len(names) == 0 {
		return false
	}
	toks := jtToks(doc)
	for i, t := range toks {
		if len(t) == 0 || t[0] != '"' || i+1 >= len(toks) || len(toks[i+1]) != 1 || toks[i+1][0] != ':' {
			continue
		}
		var s string
		if stdjson.Unmarshal(t, &s) != nil {
			return true
		}
		exact := false
		fold := false
		for _, n := range names {
			if n == s {
				exact = true
			} else if strings.EqualFold(n, s) {
				fold = true
			}
		}
		// an exact name of one struct may be a folded name of another: only the folded match counts
		if fold {
			return true
		}
		_ = exact
	}
	return false
}

func ftDec(tx *sx, rt reflect.Type, t *jtTy, doc []byte, pf string) {
	if !mine() {
		skip()
		return
	}
	ts := sxString(tx)
	fn := "f.tree.dec"
	if strings.Contains(ts, "(ptr (ptr") && jtDupKey(doc) {
		fn += ".pp" // the known deviation F31 (null into a non-nil pointer to a pointer), as j.tree.dec.pp of c01tree.go
	}
	args := ts + "|" + hexs(doc) + "|" + pf
	trace(fn, args)
	impl := jtGuarded(func() string {
		p := reflect.New(rt)
		buf := append([]byte(nil), doc...)
		rest, err := json.Parse(buf, p.Interface(), ftParseFlags(pf))
		if err != nil || len(rest) != 0 {
			return "err"
		}
		// copying: without DontCopyString nothing of the result may alias the input buffer, so overwriting the
		// buffer must not show in the value (with the flag the value is rendered before the buffer is touched)
		if !strings.Contains(pf, "s") {
			for i := range buf {
				buf[i] = '#'
			}
		}
		return tvOf(p.Elem()).String()
	})
	orc := "-"
	var names []string
	ftFieldNames(t, &names)
	if !strings.Contains(pf, "c") || !ftFoldOnly(names, doc) {
		orc = jtGuarded(func() string {
			p := reflect.New(rt)
			rd := bytes.NewReader(append([]byte(nil), doc...))
			d := stdjson.NewDecoder(rd)
			if strings.Contains(pf, "u") {
				d.DisallowUnknownFields()
			}
			if err := d.Decode(p.Interface()); err != nil {
				return "err"
			}
			// nothing but white space may follow (json.Unmarshal semantics)
			rest, _ := readAllBuffered(d, rd)
			if len(bytes.TrimLeft(rest, " \t\r\n")) != 0 {
				return "err"
			}
			return tvOf(p.Elem()).String()
		})
	}
	emit(fn, args, impl, orc)
}

// readAllBuffered: everything that follows the decoded value: what the Decoder has read and not consumed, then what
// it has not read yet
func readAllBuffered(d *stdjson.Decoder, rd *bytes.Reader) ([]byte, error) {
	var w bytes.Buffer
	if _, err := w.ReadFrom(d.Buffered()); err != nil {
		return nil, err
	}
	_, err := w.ReadFrom(rd)
	return w.Bytes(), err
}

var ftParseSubsets = []string{"0", "u", "c", "uc", "s", "n", "r", "snr", "us", "cs", "ucsnr", "csn", "ur", "cn"}

func runC14Tree() {
	nT := 700
	if *tier == "thorough" {
		nT *= 10
	}
	g := &treeGen{maxDepth: 4}
	for i := 0; i < nT; i++ {
		var tx *sx
		if i < len(treeFixedTypes) {
			tx = parseSx(treeFixedTypes[i])
		} else {
			tx = g.top()
		}
		rt := jType(tx)
		t := ttyOf(tx)
		var docs [][]byte
		decBoth := func(doc []byte) {
			ftDec(tx, rt, t, doc, pick([]string{"u", "c", "uc"}))
			ftDec(tx, rt, t, doc, pick(ftParseSubsets))
		}
		for j := 0; j < 3; j++ {
			vg := &jtValGen{budget: pick([]int{30, 80, 300})}
			v := vg.val(t)
			for fl := 0; fl < 8; fl++ {
				ftEnc(tx, rt, t, v, fl)
			}
			// the package's own output under every AppendFlags subset
			for fl := 0; fl < 4; fl++ {
				var doc []byte
				jtGuarded(func() string {
					b, err := json.Append(nil, tvBuild(rt, v).Interface(), ftAppendFlags(fl))
					if err == nil {
						doc = b
					}
					return ""
				})
				if doc == nil {
					continue
				}
				docs = append(docs, doc)
				decBoth(doc)
			}
		}
		for j := 0; j < 5; j++ {
			doc := jtGenDoc(t)
			docs = append(docs, doc)
			decBoth(doc)
		}
		for j := 0; j < 2; j++ {
			decBoth(jtMutate(pick(docs)))
		}
		ftDec(tx, rt, t, []byte(pick(jtFixedDocs)), pick(ftParseSubsets))
	}
}
