//go:build verif

package main

import (
	stdjson "encoding/json"
	"fmt"
	"strings"

	"github.com/segmentio/encoding/json"
)

type seqFailing struct{}

func (seqFailing) MarshalJSON() ([]byte, error) { return nil, fmt.Errorf("refused") }

// jEncSeq: a FAILED encode followed by encodes of other values on the same goroutine: scratch objects that went back
// to a pool on the error path (sort buffers of the specialised map encoders, encode buffers) must not leak state into
// later calls. Every later call is compared with encoding/json.
func jEncSeq(k int) {
	if !mine() {
		skip()
		return
	}
	args := fmt.Sprint(k)
	trace("j.encseq", args)
	failing := []any{
		map[string]json.RawMessage{"a": json.RawMessage("1"), "bad": json.RawMessage("{"), "z": json.RawMessage(" ")},
		map[string]any{"a": 1, "m": make(chan int), "z": nil},
		map[string]any{"x": seqFailing{}},
		[]any{map[string]json.RawMessage{"k": json.RawMessage("tru")}},
		struct {
			M map[string]json.RawMessage
			N int
		}{map[string]json.RawMessage{"p": nil, "q": json.RawMessage("[1,")}, 1},
	}
	follow := []any{
		map[string]any{"m": 2}, map[string]any{}, map[string]json.RawMessage{"k": json.RawMessage("[1]")}, map[string]string{"s": "t"},
		map[string]bool{"b": true}, map[string][]string{"l": {"x"}}, []any{map[string]any{"q": nil}}, map[string]json.RawMessage{}, map[string]string{},
	}
	flagSets := []json.AppendFlags{json.EscapeHTML | json.SortMapKeys, json.SortMapKeys, 0}
	fl := flagSets[k%len(flagSets)]
	f := failing[(k/len(flagSets))%len(failing)]
	var o []string
	for _, v := range follow {
		b, err := stdjson.Marshal(v)
		o = append(o, fmt.Sprintf("%s/%v", b, err != nil))
	}
	impl := guarded(func() string {
		if _, err := json.Append(nil, f, fl); err == nil {
			return "FAILING-VALUE-ENCODED"
		}
		var out []string
		for _, v := range follow {
			b, err := json.Append(nil, v, fl)
			out = append(out, fmt.Sprintf("%s/%v", b, err != nil))
			// and once more after another failure, through Marshal and the Encoder
			_, _ = json.Marshal(f)
		}
		return strings.Join(out, " ")
	})
	emit("j.encseq", args, impl, strings.Join(o, " "))
}

func jEncSeqAll() {
	for k := 0; k < 45; k++ {
		jEncSeq(k)
	}
}
