//go:build verif

package main

import (
	stdjson "encoding/json"
	"fmt"
	"reflect"

	"github.com/segmentio/encoding/thrift"
)

// Self-recursive struct types (through a pointer, a list, a map) cannot be built with reflect.StructOf, so these
// shapes are declared here. The decoder of such a type re-enters itself: whatever it keeps per TYPE rather than per
// VALUE (the bitmap of required fields seen, scratch values) is shared between the levels. Field ids span more than 64
// so that the bitmap has several words, required fields sit before and after the recursive field. Oracle: the value
// itself (compared through encoding/json with omitempty on the nillable fields: nil and empty are the same content).
type tRecWide struct {
	Name string    `thrift:"1,required" json:"name"`
	Next *tRecWide `thrift:"2" json:"next,omitempty"`
	Tail int64     `thrift:"100" json:"tail"`
	Last string    `thrift:"101,required" json:"last"`
}
type tRecList struct {
	ID   int32      `thrift:"3,required" json:"id"`
	Kids []tRecList `thrift:"70" json:"kids,omitempty"`
	Note string     `thrift:"200,required" json:"note"`
}
type tRecMap struct {
	A bool               `thrift:"1,required" json:"a"`
	M map[string]tRecMap `thrift:"65" json:"m,omitempty"`
	Z int16              `thrift:"130,required" json:"z"`
}
type tRecNarrow struct {
	Name string      `thrift:"1,required" json:"name"`
	Next *tRecNarrow `thrift:"2" json:"next,omitempty"`
	Tail int64       `thrift:"3,required" json:"tail"`
}

func tRecWideVal(d int) *tRecWide {
	v := &tRecWide{Name: fmt.Sprintf("n%d-%d", d, rndn(1000)), Tail: int64(rndn(100000)) - 50000, Last: fmt.Sprintf("l%d", rndn(50))}
	if d > 0 {
		v.Next = tRecWideVal(d - 1)
	}
	return v
}
func tRecListVal(d int) tRecList {
	v := tRecList{ID: int32(rndn(1 << 20)), Note: fmt.Sprintf("note%d", rndn(100))}
	if d > 0 {
		for k := 1 + rndn(3); k > 0; k-- {
			v.Kids = append(v.Kids, tRecListVal(d-1-rndn(d)))
		}
	}
	return v
}
func tRecMapVal(d int) tRecMap {
	v := tRecMap{A: rndBool(), Z: int16(rndn(60000) - 30000)}
	if d > 0 {
		v.M = map[string]tRecMap{}
		for k := 1 + rndn(3); k > 0; k-- {
			v.M[fmt.Sprintf("k%d", rndn(100))] = tRecMapVal(d - 1 - rndn(d))
		}
	}
	return v
}
func tRecNarrowVal(d int) *tRecNarrow {
	v := &tRecNarrow{Name: fmt.Sprintf("n%d", rndn(1000)), Tail: int64(rndn(1000))}
	if d > 0 {
		v.Next = tRecNarrowVal(d - 1)
	}
	return v
}

func tRecCase(name string, x any, p string) {
	if !mine() {
		skip()
		return
	}
	wantJ, _ := stdjson.Marshal(x)
	want := string(wantJ)
	trace("t.rt.x", "rec:"+name+"|"+want+"|"+p)
	impl := guarded(func() string {
		b, err := thrift.Marshal(tproto(p), x)
		if err != nil {
			return "err:marshal"
		}
		y := reflect.New(reflect.TypeOf(x).Elem())
		if err := thrift.Unmarshal(tproto(p), b, y.Interface()); err != nil {
			return "err:unmarshal"
		}
		gotJ, _ := stdjson.Marshal(y.Interface())
		return string(gotJ)
	})
	emit("t.rt.x", "rec:"+name+"|"+want+"|"+p, impl, want)
}

func c04Recursive() {
	n := 6
	if *tier == "thorough" {
		n = 60
	}
	for i := 0; i < n; i++ {
		for d := 0; d < 4; d++ {
			w, l, m, nr := tRecWideVal(d), tRecListVal(d), tRecMapVal(d), tRecNarrowVal(d)
			for _, p := range tprotos {
				tRecCase("wide", w, p)
				tRecCase("list", &l, p)
				tRecCase("map", &m, p)
				tRecCase("narrow", nr, p)
			}
		}
	}
}
