package main

// Type descriptors and values for the proto model (coq/Proto/Model.v: gty / val), their text form
// shared with the OCaml driver, generators, and the bijection with run-time Go types built by
// reflect.StructOf & co.

import (
	"encoding/hex"
	"fmt"
	"math"
	"reflect"
	"sort"
	"strconv"
	"strings"

	"github.com/segmentio/encoding/proto"
)

type pkind int

const (
	kBool pkind = iota
	kInt
	kInt32
	kInt64
	kUint
	kUint32
	kUint64
	kFloat32
	kFloat64
	kString
	kBytes
	kArr
	kPtr
	kStruct
	kSlice
	kMap
	kRaw
)

var kindNames = []string{"bool", "int", "i32", "i64", "uint", "u32", "u64", "f32", "f64", "str", "bytes", "arr", "ptr", "struct", "slice", "map", "raw"}

type ptag struct {
	wire     int // 0 varint 1 fixed64 2 bytes 5 fixed32
	number   int
	repeated bool
	zigzag   bool
	zz32     bool // spelled zigzag32 rather than zigzag64 in the tag string
}

type pfield struct {
	tag *ptag
	t   *pty
}

type pty struct {
	k      pkind
	n      int // array length
	elem   *pty
	key    *pty
	fields []pfield
	rt     reflect.Type
}

func (t *pty) String() string {
	switch t.k {
	case kArr:
		return fmt.Sprintf("(arr %d)", t.n)
	case kPtr:
		return "(ptr " + t.elem.String() + ")"
	case kSlice:
		return "(slice " + t.elem.String() + ")"
	case kMap:
		return "(map " + t.key.String() + " " + t.elem.String() + ")"
	case kStruct:
		var sb strings.Builder
		sb.WriteString("(struct")
		for _, f := range t.fields {
			if f.tag == nil {
				sb.WriteString(" (f - " + f.t.String() + ")")
			} else {
				sb.WriteString(fmt.Sprintf(" (f (t %d %d %d %d) %s)", f.tag.wire, f.tag.number, b2i(f.tag.repeated), b2i(f.tag.zigzag), f.t.String()))
			}
		}
		sb.WriteString(")")
		return sb.String()
	}
	return kindNames[t.k]
}

func b2i(b bool) int {
	if b {
		return 1
	}
	return 0
}

func (tg *ptag) tagString() string {
	w := map[int]string{0: "varint", 1: "fixed64", 2: "bytes", 5: "fixed32"}[tg.wire]
	if tg.zigzag {
		w = "zigzag64"
		if tg.zz32 {
			w = "zigzag32"
		}
	}
	opt := "opt"
	if tg.repeated {
		opt = "rep"
	}
	return fmt.Sprintf("%s,%d,%s,name=x", w, tg.number, opt)
}

var basicRT = map[pkind]reflect.Type{
	kBool: reflect.TypeOf(false), kInt: reflect.TypeOf(int(0)), kInt32: reflect.TypeOf(int32(0)), kInt64: reflect.TypeOf(int64(0)),
	kUint: reflect.TypeOf(uint(0)), kUint32: reflect.TypeOf(uint32(0)), kUint64: reflect.TypeOf(uint64(0)),
	kFloat32: reflect.TypeOf(float32(0)), kFloat64: reflect.TypeOf(float64(0)), kString: reflect.TypeOf(""),
	kBytes: reflect.TypeOf([]byte(nil)), kRaw: reflect.TypeOf(proto.RawMessage(nil)),
}

func (t *pty) goType() reflect.Type {
	if t.rt != nil {
		return t.rt
	}
	switch t.k {
	case kArr:
		t.rt = reflect.ArrayOf(t.n, reflect.TypeOf(byte(0)))
	case kPtr:
		t.rt = reflect.PointerTo(t.elem.goType())
	case kSlice:
		t.rt = reflect.SliceOf(t.elem.goType())
	case kMap:
		t.rt = reflect.MapOf(t.key.goType(), t.elem.goType())
	case kStruct:
		var fs []reflect.StructField
		for i, f := range t.fields {
			sf := reflect.StructField{Name: fmt.Sprintf("F%d", i), Type: f.t.goType()}
			if f.tag != nil {
				sf.Tag = reflect.StructTag(`protobuf:"` + f.tag.tagString() + `"`)
			}
			fs = append(fs, sf)
		}
		t.rt = reflect.StructOf(fs)
	default:
		t.rt = basicRT[t.k]
	}
	return t.rt
}

// ---- values ----

type pval struct {
	k     pkind
	b     bool
	i     int64  // signed kinds
	u     uint64 // unsigned kinds and float bits
	s     []byte
	isnil bool
	elem  *pval   // pointer target
	elems []*pval // struct fields, slice elements
	keys  []*pval // map keys (parallel to elems)
}

func (v *pval) String() string {
	switch v.k {
	case kBool:
		if v.b {
			return "t"
		}
		return "f"
	case kInt, kInt32, kInt64:
		return strconv.FormatInt(v.i, 10)
	case kUint, kUint32, kUint64, kFloat32, kFloat64:
		return strconv.FormatUint(v.u, 10)
	case kString:
		return "s:" + hex.EncodeToString(v.s)
	case kBytes:
		if v.isnil {
			return "nil"
		}
		return "b:" + hex.EncodeToString(v.s)
	case kRaw:
		if v.isnil {
			return "nil"
		}
		return "r:" + hex.EncodeToString(v.s)
	case kArr:
		return "a:" + hex.EncodeToString(v.s)
	case kPtr:
		if v.isnil {
			return "nil"
		}
		return "(p " + v.elem.String() + ")"
	case kStruct, kSlice:
		h := "(s"
		if v.k == kSlice {
			h = "(l"
		}
		var sb strings.Builder
		sb.WriteString(h)
		for _, e := range v.elems {
			sb.WriteString(" " + e.String())
		}
		sb.WriteString(")")
		return sb.String()
	case kMap:
		if v.isnil {
			return "nilmap"
		}
		var sb strings.Builder
		sb.WriteString("(m")
		for i := range v.elems {
			sb.WriteString(" (" + v.keys[i].String() + " " + v.elems[i].String() + ")")
		}
		sb.WriteString(")")
		return sb.String()
	}
	return "?"
}

// canon renders a value with the nil-versus-empty distinction of slices, byte slices, maps erased
// and map entries sorted: the equality the round-trip properties speak about.
func (v *pval) canon() string {
	switch v.k {
	case kBytes:
		return "b:" + hex.EncodeToString(v.s)
	case kRaw:
		return "r:" + hex.EncodeToString(v.s)
	case kPtr:
		if v.isnil {
			return "nil"
		}
		return "(p " + v.elem.canon() + ")"
	case kStruct, kSlice:
		h := "(s"
		if v.k == kSlice {
			h = "(l"
		}
		var sb strings.Builder
		sb.WriteString(h)
		for _, e := range v.elems {
			sb.WriteString(" " + e.canon())
		}
		sb.WriteString(")")
		return sb.String()
	case kMap:
		var es []string
		for i := range v.elems {
			es = append(es, "("+v.keys[i].canon()+" "+v.elems[i].canon()+")")
		}
		sort.Strings(es)
		return "(m " + strings.Join(es, " ") + ")"
	}
	return v.String()
}

func (t *pty) toGo(v *pval) reflect.Value {
	rv := reflect.New(t.goType()).Elem()
	switch t.k {
	case kBool:
		rv.SetBool(v.b)
	case kInt, kInt32, kInt64:
		rv.SetInt(v.i)
	case kUint, kUint32, kUint64:
		rv.SetUint(v.u)
	case kFloat32:
		rv.SetFloat(float64(math.Float32frombits(uint32(v.u))))
		// SetFloat goes through float64: NaN payloads of float32 would be canonicalised; write the bits directly
		*(*uint32)(rv.Addr().UnsafePointer()) = uint32(v.u)
	case kFloat64:
		*(*uint64)(rv.Addr().UnsafePointer()) = v.u
	case kString:
		rv.SetString(string(v.s))
	case kBytes, kRaw:
		if !v.isnil {
			rv.SetBytes(append(make([]byte, 0, len(v.s)), v.s...))
		}
	case kArr:
		reflect.Copy(rv, reflect.ValueOf(v.s))
	case kPtr:
		if !v.isnil {
			p := reflect.New(t.elem.goType())
			p.Elem().Set(t.elem.toGo(v.elem))
			rv.Set(p)
		}
	case kStruct:
		for i, f := range t.fields {
			rv.Field(i).Set(f.t.toGo(v.elems[i]))
		}
	case kSlice:
		if !v.isnil {
			s := reflect.MakeSlice(t.goType(), 0, len(v.elems))
			for _, e := range v.elems {
				s = reflect.Append(s, t.elem.toGo(e))
			}
			rv.Set(s)
		}
	case kMap:
		if !v.isnil {
			m := reflect.MakeMap(t.goType())
			for i := range v.elems {
				m.SetMapIndex(t.key.toGo(v.keys[i]), t.elem.toGo(v.elems[i]))
			}
			rv.Set(m)
		}
	}
	return rv
}

func (t *pty) fromGo(rv reflect.Value) *pval {
	v := &pval{k: t.k}
	switch t.k {
	case kBool:
		v.b = rv.Bool()
	case kInt, kInt32, kInt64:
		v.i = rv.Int()
	case kUint, kUint32, kUint64:
		v.u = rv.Uint()
	case kFloat32:
		// read the bits without a float64 round trip (which would quiet signalling NaNs)
		v.u = uint64(math.Float32bits(rv.Interface().(float32)))
	case kFloat64:
		v.u = math.Float64bits(rv.Float())
	case kString:
		v.s = []byte(rv.String())
	case kBytes, kRaw:
		v.isnil = rv.IsNil()
		v.s = append([]byte(nil), rv.Bytes()...)
	case kArr:
		v.s = make([]byte, t.n)
		reflect.Copy(reflect.ValueOf(v.s), rv)
	case kPtr:
		v.isnil = rv.IsNil()
		if !v.isnil {
			v.elem = t.elem.fromGo(rv.Elem())
		}
	case kStruct:
		for i, f := range t.fields {
			v.elems = append(v.elems, f.t.fromGo(rv.Field(i)))
		}
	case kSlice:
		v.isnil = rv.IsNil()
		for i := 0; i < rv.Len(); i++ {
			v.elems = append(v.elems, t.elem.fromGo(rv.Index(i)))
		}
	case kMap:
		v.isnil = rv.IsNil()
		it := rv.MapRange()
		for it.Next() {
			v.keys = append(v.keys, t.key.fromGo(it.Key()))
			v.elems = append(v.elems, t.elem.fromGo(it.Value()))
		}
	}
	return v
}

// ---- generators ----

var scalarKinds = []pkind{kBool, kInt, kInt32, kInt64, kUint, kUint32, kUint64, kFloat32, kFloat64, kString, kBytes}

type pgen struct {
	maxDepth  int
	allowRaw  bool
	allowMap  bool
	bigNumber bool // field numbers beyond 15 / 2047 / 65535
}

func (g *pgen) scalar() *pty { return &pty{k: pick(scalarKinds)} }

func (g *pgen) mapKey() *pty {
	return &pty{k: pick([]pkind{kBool, kInt, kInt32, kInt64, kUint, kUint32, kUint64, kString})}
}

// fieldType: a type usable as a struct field
func (g *pgen) fieldType(depth int) *pty {
	r := rndn(100)
	switch {
	case r < 45:
		return g.scalar()
	case r < 50:
		return &pty{k: kArr, n: pick([]int{0, 1, 2, 3, 4, 5, 6, 7, 8, 9, 10, 12, 14, 15, 16, 17, 20, 22, 30})}
	case r < 60:
		return &pty{k: kPtr, elem: g.elemType(depth + 1)}
	case r < 72 && depth < g.maxDepth:
		return g.structType(depth + 1)
	case r < 86:
		return &pty{k: kSlice, elem: g.elemType(depth + 1)}
	case r < 95 && g.allowMap:
		return &pty{k: kMap, key: g.mapKey(), elem: g.elemType(depth + 1)}
	case r < 97 && g.allowRaw:
		return &pty{k: kRaw}
	}
	return g.scalar()
}

// elemType: element of pointer / slice / map value: scalar, array, struct, pointer (no slice / map)
func (g *pgen) elemType(depth int) *pty {
	r := rndn(100)
	switch {
	case r < 60:
		t := g.scalar()
		return t
	case r < 65:
		return &pty{k: kArr, n: pick([]int{0, 1, 2, 4, 6, 8, 12, 14})}
	case r < 85 && depth < g.maxDepth:
		return g.structType(depth + 1)
	case r < 92 && depth < g.maxDepth:
		return &pty{k: kPtr, elem: g.elemType(depth + 1)}
	}
	return g.scalar()
}

func (g *pgen) structType(depth int) *pty {
	nf := 1 + rndn(6)
	if rndn(12) == 0 {
		nf = rndn(3)
	}
	if rndn(25) == 0 {
		nf = 17 + rndn(24)
	}
	t := &pty{k: kStruct}
	usedNum := map[int]bool{}
	for i := 0; i < nf; i++ {
		ft := g.fieldType(depth)
		f := pfield{t: ft}
		if rndn(3) == 0 {
			base := ft
			for base.k == kPtr {
				base = base.elem
			}
			tg := &ptag{wire: 0, number: i + 1}
			switch rndn(6) {
			case 0:
				tg.number = 1 + rndn(15)
			case 1:
				tg.number = 16 + rndn(2032)
			case 2:
				if g.bigNumber {
					tg.number = pick([]int{2047, 2048, 65535, 40000, 16383, 16384})
				}
			}
			for usedNum[tg.number] {
				tg.number++
			}
			switch base.k {
			case kUint32, kFloat32:
				if rndBool() {
					tg.wire = 5
				}
			case kUint64, kFloat64:
				if rndBool() {
					tg.wire = 1
				}
			case kInt, kInt32, kInt64:
				if rndBool() {
					tg.zigzag = true
					tg.zz32 = base.k == kInt32
				}
			case kString, kBytes, kStruct, kMap, kArr, kRaw:
				tg.wire = 2
			case kSlice:
				tg.repeated = true
				if e := base.elem; e.k == kInt || e.k == kInt32 || e.k == kInt64 {
					tg.zigzag = rndBool()
				}
				if e := base.elem; e.k == kString || e.k == kBytes || e.k == kStruct || e.k == kArr {
					tg.wire = 2
				}
			}
			f.tag = tg
		}
		num := i + 1
		if f.tag != nil {
			num = f.tag.number
		}
		usedNum[num] = true
		t.fields = append(t.fields, f)
	}
	// implicit numbers (i+1) may collide with explicit tag numbers of other fields: keep such types out
	seen := map[int]bool{}
	for i, f := range t.fields {
		n := i + 1
		if f.tag != nil {
			n = f.tag.number
		}
		if seen[n] {
			f.tag = nil
			t.fields[i] = f
			return g.structType(depth)
		}
		seen[n] = true
	}
	return t
}

var int64Edges = []int64{0, 1, -1, 2, 63, 64, 127, 128, 129, 255, 256, 16383, 16384, -64, -65, -128, -129, 1<<21 - 1, 1 << 21, 1<<28 - 1, 1 << 28, 1<<31 - 1, -1 << 31, 1 << 31, 1<<35 - 1, 1 << 35, 1 << 42, 1 << 49, 1<<56 - 1, 1 << 56, 1<<62 - 1, 1 << 62, math.MaxInt64, math.MinInt64, math.MinInt64 + 1}
var uint64Edges = []uint64{0, 1, 2, 127, 128, 255, 16383, 16384, 1<<21 - 1, 1 << 21, 1<<28 - 1, 1 << 28, 1<<32 - 1, 1 << 32, 1<<35 - 1, 1 << 35, 1 << 42, 1 << 49, 1<<56 - 1, 1 << 56, 1<<63 - 1, 1 << 63, math.MaxUint64}
var f64Edges = []uint64{0, 1 << 63, 0x3ff0000000000000, 0xbff0000000000000, 0x7ff0000000000000, 0xfff0000000000000, 0x7ff8000000000001, 0xfff8000000000000, 1, 0x7fefffffffffffff}
var f32Edges = []uint64{0, 1 << 31, 0x3f800000, 0xbf800000, 0x7f800000, 0xff800000, 0x7fc00001, 0xffc00000, 1, 0x7f7fffff}

func rndBytes(max int) []byte {
	n := rndn(max + 1)
	b := make([]byte, n)
	for i := range b {
		b[i] = byte(rnd())
	}
	return b
}

func (g *pgen) value(t *pty, depth int) *pval {
	v := &pval{k: t.k}
	zeroish := rndn(5) == 0
	switch t.k {
	case kBool:
		v.b = rndBool()
	case kInt, kInt64:
		v.i = pick(int64Edges)
		if rndn(4) == 0 {
			v.i = int64(rnd())
		}
	case kInt32:
		v.i = int64(int32(pick(int64Edges)))
		if rndn(4) == 0 {
			v.i = int64(int32(rnd()))
		}
	case kUint, kUint64:
		v.u = pick(uint64Edges)
		if rndn(4) == 0 {
			v.u = rnd()
		}
	case kUint32:
		v.u = uint64(uint32(pick(uint64Edges)))
		if rndn(4) == 0 {
			v.u = uint64(uint32(rnd()))
		}
	case kFloat32:
		v.u = pick(f32Edges)
		if rndn(3) == 0 {
			v.u = uint64(uint32(rnd()))
		}
	case kFloat64:
		v.u = pick(f64Edges)
		if rndn(3) == 0 {
			v.u = rnd()
		}
	case kString:
		v.s = rndBytes(pick([]int{0, 0, 1, 5, 20}))
		if rndn(40) == 0 {
			v.s = make([]byte, pick([]int{126, 127, 128, 129, 300}))
		}
	case kBytes, kRaw:
		v.isnil = rndn(4) == 0
		if !v.isnil {
			v.s = rndBytes(pick([]int{0, 0, 1, 5, 20}))
			if rndn(40) == 0 {
				v.s = make([]byte, pick([]int{126, 127, 128, 129, 300}))
			}
		}
		if t.k == kRaw && !v.isnil {
			// a RawMessage must hold well-formed fields: a few varint fields
			var m proto.RawMessage
			for i := rndn(3); i > 0; i-- {
				m = proto.AppendVarint(m, proto.FieldNumber(1+rndn(20)), rnd()>>uint(rndn(64)))
			}
			v.s = m
			if v.s == nil {
				v.s = []byte{}
			}
		}
	case kArr:
		v.s = make([]byte, t.n)
		if !zeroish && t.n > 0 {
			switch rndn(4) {
			case 0: // a single non-zero byte, most often near the end (the zero test of the encoder works word by word)
				pos := t.n - 1 - rndn(min(t.n, 3))
				if rndn(4) == 0 {
					pos = rndn(t.n)
				}
				v.s[pos] = byte(1 + rndn(255))
			default:
				for i := range v.s {
					if rndn(3) == 0 {
						v.s[i] = byte(rnd())
					}
				}
			}
		}
	case kPtr:
		v.isnil = rndn(3) == 0
		if !v.isnil {
			v.elem = g.value(t.elem, depth+1)
			// a non-nil pointer to a nil pointer has no protobuf representation: outside the universe
			for v.elem.k == kPtr && v.elem.isnil {
				v.elem = g.value(t.elem, depth+1)
			}
		}
	case kStruct:
		for _, f := range t.fields {
			fv := g.value(f.t, depth+1)
			if zeroish && rndBool() {
				fv = zeroValue(f.t)
			}
			v.elems = append(v.elems, fv)
		}
	case kSlice:
		n := pick([]int{0, 0, 1, 1, 2, 3, 6})
		if rndn(60) == 0 {
			n = 11 + rndn(30)
		}
		v.isnil = n == 0 && rndBool()
		for i := 0; i < n; i++ {
			e := g.value(t.elem, depth+1)
			// protobuf has no absent element: nil pointers as slice elements / map values are outside the universe
			for e.k == kPtr && e.isnil {
				e = g.value(t.elem, depth+1)
			}
			v.elems = append(v.elems, e)
		}
	case kMap:
		n := pick([]int{0, 0, 1, 1, 1, 2, 3})
		v.isnil = n == 0 && rndBool()
		seen := map[string]bool{}
		for i := 0; i < n; i++ {
			k := g.value(t.key, depth+1)
			if seen[k.String()] {
				continue
			}
			seen[k.String()] = true
			v.keys = append(v.keys, k)
			e := g.value(t.elem, depth+1)
			for e.k == kPtr && e.isnil {
				e = g.value(t.elem, depth+1)
			}
			v.elems = append(v.elems, e)
		}
	}
	return v
}

func zeroValue(t *pty) *pval {
	v := &pval{k: t.k}
	switch t.k {
	case kBytes, kRaw, kPtr, kSlice, kMap:
		v.isnil = true
	case kArr:
		v.s = make([]byte, t.n)
	case kStruct:
		for _, f := range t.fields {
			v.elems = append(v.elems, zeroValue(f.t))
		}
	}
	return v
}

// multiMap reports whether a value contains a map with more than one entry (Go's iteration order
// is then not determined, so encoded bytes are compared only up to entry order).
func (v *pval) multiMap() bool {
	if v == nil {
		return false
	}
	if v.k == kMap && len(v.elems) > 1 {
		return true
	}
	if v.elem.multiMap() {
		return true
	}
	for _, e := range v.elems {
		if e.multiMap() {
			return true
		}
	}
	for _, e := range v.keys {
		if e.multiMap() {
			return true
		}
	}
	return false
}

// ---- parsing the text form back (for replay) ----

type sx struct {
	atom string
	list []*sx
}

func parseSx(s string) *sx {
	toks := strings.Fields(strings.NewReplacer("(", " ( ", ")", " ) ").Replace(s))
	pos := 0
	var rec func() *sx
	rec = func() *sx {
		if toks[pos] == "(" {
			pos++
			n := &sx{}
			for toks[pos] != ")" {
				n.list = append(n.list, rec())
			}
			pos++
			return n
		}
		pos++
		return &sx{atom: toks[pos-1]}
	}
	return rec()
}

func tyFromSx(x *sx) *pty {
	if x.list == nil {
		for i, n := range kindNames {
			if n == x.atom {
				return &pty{k: pkind(i)}
			}
		}
		panic("bad type atom " + x.atom)
	}
	switch x.list[0].atom {
	case "arr":
		n, _ := strconv.Atoi(x.list[1].atom)
		return &pty{k: kArr, n: n}
	case "ptr":
		return &pty{k: kPtr, elem: tyFromSx(x.list[1])}
	case "slice":
		return &pty{k: kSlice, elem: tyFromSx(x.list[1])}
	case "map":
		return &pty{k: kMap, key: tyFromSx(x.list[1]), elem: tyFromSx(x.list[2])}
	case "struct":
		t := &pty{k: kStruct}
		for _, fx := range x.list[1:] {
			f := pfield{t: tyFromSx(fx.list[2])}
			if tg := fx.list[1]; tg.list != nil {
				w, _ := strconv.Atoi(tg.list[1].atom)
				n, _ := strconv.Atoi(tg.list[2].atom)
				f.tag = &ptag{wire: w, number: n, repeated: tg.list[3].atom == "1", zigzag: tg.list[4].atom == "1"}
				base := f.t
				for base.k == kPtr {
					base = base.elem
				}
				f.tag.zz32 = base.k == kInt32
			}
			t.fields = append(t.fields, f)
		}
		return t
	}
	panic("bad type")
}

func valFromSx(t *pty, x *sx) *pval {
	v := &pval{k: t.k}
	unh := func(s string) []byte {
		b, err := hex.DecodeString(s[2:])
		if err != nil {
			panic(err)
		}
		return b
	}
	switch t.k {
	case kBool:
		v.b = x.atom == "t"
	case kInt, kInt32, kInt64:
		v.i, _ = strconv.ParseInt(x.atom, 10, 64)
	case kUint, kUint32, kUint64, kFloat32, kFloat64:
		v.u, _ = strconv.ParseUint(x.atom, 10, 64)
	case kString, kArr:
		v.s = unh(x.atom)
	case kBytes, kRaw:
		if x.atom == "nil" {
			v.isnil = true
		} else {
			v.s = unh(x.atom)
		}
	case kPtr:
		if x.list == nil {
			v.isnil = true
		} else {
			v.elem = valFromSx(t.elem, x.list[1])
		}
	case kStruct:
		for i, f := range t.fields {
			v.elems = append(v.elems, valFromSx(f.t, x.list[1+i]))
		}
	case kSlice:
		for _, e := range x.list[1:] {
			v.elems = append(v.elems, valFromSx(t.elem, e))
		}
	case kMap:
		if x.list == nil {
			v.isnil = true
		} else {
			for _, e := range x.list[1:] {
				v.keys = append(v.keys, valFromSx(t.key, e.list[0]))
				v.elems = append(v.elems, valFromSx(t.elem, e.list[1]))
			}
		}
	}
	return v
}
