package main

import (
	"reflect"
	"sort"
	"strings"
)

// Two transcriptions of how the JSON names of a struct type are resolved when embedded structs promote fields:
// resolveStd is encoding/json's typeFields (breadth-first, dominance by depth then tag, annihilation of ties),
// resolvePkg is appendStructFields of json/codec.go (recursive, ambiguity decided by counting names and tags one
// level at a time). The recorded finding F28 is the set of types on which the two differ; every other type with
// repeated names is an ordinary case with encoding/json as oracle.

type rfield struct {
	name string
	path string // field indices from the outermost struct, dot separated
	tag  bool
}

func tagNameOf(f reflect.StructField) (name string, hasTag bool, ignored bool) {
	tag := f.Tag.Get("json")
	if tag == "-" {
		return "", false, true
	}
	parts := strings.Split(tag, ",")
	return parts[0], parts[0] != "", false
}

func resolvePkg(t reflect.Type, busy map[reflect.Type]bool) []rfield {
	if busy[t] {
		return nil // a struct type under construction has no fields yet
	}
	busy[t] = true
	defer delete(busy, t)
	type emb struct {
		i   int
		sub rfield
	}
	var fields []rfield
	var embedded []emb
	names := map[string]bool{}
	for i := 0; i < t.NumField(); i++ {
		f := t.Field(i)
		unexported := f.PkgPath != ""
		if unexported && !f.Anonymous {
			continue
		}
		name, tag, ignored := tagNameOf(f)
		if ignored {
			continue
		}
		if !tag {
			name = f.Name
		}
		if !validTagName(name) {
			name = f.Name
		}
		if f.Anonymous && !tag {
			typ := f.Type
			if typ.Kind() == reflect.Ptr {
				typ = typ.Elem()
			}
			if typ.Kind() == reflect.Struct {
				for _, s := range resolvePkg(typ, busy) {
					embedded = append(embedded, emb{i, s})
				}
				continue
			}
			if unexported {
				continue
			}
		}
		fields = append(fields, rfield{name: name, path: itoa(i), tag: tag})
		names[name] = true
	}
	ambNames, ambTags := map[string]int{}, map[string]int{}
	for n := range names {
		ambNames[n]++
		ambTags[n]++
	}
	for _, e := range embedded {
		ambNames[e.sub.name]++
		if e.sub.tag {
			ambTags[e.sub.name]++
		}
	}
	for _, e := range embedded {
		s := e.sub
		if ambNames[s.name] > 1 && (!s.tag || ambTags[s.name] != 1) {
			continue
		}
		fields = append(fields, rfield{name: s.name, path: itoa(e.i) + "." + s.path, tag: false})
	}
	return fields
}

func itoa(i int) string {
	if i < 10 {
		return string(rune('0' + i))
	}
	return itoa(i/10) + string(rune('0'+i%10))
}

func resolveStd(t reflect.Type) []rfield {
	type sfield struct {
		rfield
		depth int
		index []int
		typ   reflect.Type
	}
	current := []sfield{}
	next := []sfield{{typ: t}}
	var count, nextCount map[reflect.Type]int
	visited := map[reflect.Type]bool{}
	var all []sfield
	for len(next) > 0 {
		current, next = next, current[:0]
		count, nextCount = nextCount, map[reflect.Type]int{}
		for _, f := range current {
			if visited[f.typ] {
				continue
			}
			visited[f.typ] = true
			for i := 0; i < f.typ.NumField(); i++ {
				sf := f.typ.Field(i)
				if sf.Anonymous {
					et := sf.Type
					if et.Kind() == reflect.Ptr {
						et = et.Elem()
					}
					if sf.PkgPath != "" && et.Kind() != reflect.Struct {
						continue
					}
				} else if sf.PkgPath != "" {
					continue
				}
				name, _, ignored := tagNameOf(sf)
				if ignored {
					continue
				}
				if !validTagName(name) {
					name = ""
				}
				index := append(append([]int(nil), f.index...), i)
				ft := sf.Type
				if ft.Name() == "" && ft.Kind() == reflect.Ptr {
					ft = ft.Elem()
				}
				if name != "" || !sf.Anonymous || ft.Kind() != reflect.Struct {
					tagged := name != ""
					if name == "" {
						name = sf.Name
					}
					var ps []string
					for _, x := range index {
						ps = append(ps, itoa(x))
					}
					fld := sfield{rfield: rfield{name: name, path: strings.Join(ps, "."), tag: tagged}, depth: len(index), index: index, typ: ft}
					all = append(all, fld)
					if count[f.typ] > 1 {
						all = append(all, fld)
					}
					continue
				}
				nextCount[ft]++
				if nextCount[ft] == 1 {
					next = append(next, sfield{index: index, typ: ft})
				}
			}
		}
	}
	sort.SliceStable(all, func(i, j int) bool {
		a, b := all[i], all[j]
		if a.name != b.name {
			return a.name < b.name
		}
		if a.depth != b.depth {
			return a.depth < b.depth
		}
		if a.tag != b.tag {
			return a.tag
		}
		for k := range a.index {
			if k >= len(b.index) {
				return false
			}
			if a.index[k] != b.index[k] {
				return a.index[k] < b.index[k]
			}
		}
		return len(a.index) < len(b.index)
	})
	var out []rfield
	for i := 0; i < len(all); {
		j := i
		for j < len(all) && all[j].name == all[i].name {
			j++
		}
		if j-i == 1 || !(all[i].depth == all[i+1].depth && all[i].tag == all[i+1].tag) {
			out = append(out, all[i].rfield)
		}
		i = j
	}
	return out
}

// namesDisagree: the two resolutions pick different fields for some name of t
func namesDisagree(t reflect.Type) bool {
	key := func(fs []rfield) string {
		var s []string
		for _, f := range fs {
			s = append(s, f.name+"@"+f.path)
		}
		sort.Strings(s)
		return strings.Join(s, "|")
	}
	return key(resolvePkg(t, map[reflect.Type]bool{})) != key(resolveStd(t))
}
