//go:build verif && c12

package main

// C12: proto bytes are standard protobuf wire format, both ways.
//
// Oracle: the reference implementation google.golang.org/protobuf v1.26.0 (dynamicpb over a message
// descriptor built at run time from the generated Go struct type, protowire for raw records).
//
//	w.std  T|V     impl   = value the reference decodes from proto.Marshal(&V)      (canonical text)
//	               oracle = V
//	               model  = spec_decode (desc T) (Model.Marshal T V)                 (Coq spec o Coq model)
//	w.dec  T|hex   impl   = value proto.Unmarshal decodes from the bytes, or err
//	               oracle = value the reference decodes from the same bytes, or err  (the harness checks that this is
//	                        the original value for every legal re-encoding it builds)
//	               model  = Model.Unmarshal / spec_decode
//	o.dec  T|hex   impl   = value the REFERENCE decodes (mutated / malformed bytes), oracle = -, model = spec_decode:
//	               ties the Coq transcription of the encoding specification to the reference implementation
//
// A suffix on the case name (.f17 .emap .zzrep .zzstruct) names a class of inputs on which the package is known
// to deviate (reported to the main session); the class is decided from the input alone.

import (
	"fmt"
	"math"
	"reflect"
	"sort"
	"strings"

	segproto "github.com/segmentio/encoding/proto"

	"google.golang.org/protobuf/encoding/protowire"
	gproto "google.golang.org/protobuf/proto"
	"google.golang.org/protobuf/reflect/protodesc"
	"google.golang.org/protobuf/reflect/protoreflect"
	"google.golang.org/protobuf/types/descriptorpb"
	"google.golang.org/protobuf/types/dynamicpb"
)

func init() {
	register("c12", c12)
	for _, sfx := range []string{"", ".f17", ".emap", ".zzrep", ".zzstruct"} {
		replayers["w.std"+sfx] = func(a []string) { t, v := tvArgs(a); wStd(t, v) }
		replayers["w.dec"+sfx] = func(a []string) {
			f := strings.Split(strings.Join(a, " "), "|")
			wDec(tyFromSx(parseSx(f[0])), unhex(f[1]))
		}
	}
	replayers["o.dec"] = func(a []string) {
		f := strings.Split(strings.Join(a, " "), "|")
		oDec(tyFromSx(parseSx(f[0])), unhex(f[1]))
	}
	replayers["w.type"] = func(a []string) { wType(tyFromSx(parseSx(strings.Join(a, " ")))) }
	replayers["w.type.zzrep"] = replayers["w.type"]
}

// ---------------------------------------------------------------------------------------------
// Go type -> message descriptor (the .proto equivalent as TypeOf documents it, proto2 syntax so that
// pointers map to explicit presence, repeated scalars are not packed and strings are not UTF-8 checked)

func fieldNum(t *pty, i int) int {
	if tg := t.fields[i].tag; tg != nil {
		return tg.number
	}
	return i + 1
}

func stripPtr(t *pty) *pty {
	for t.k == kPtr {
		t = t.elem
	}
	return t
}

func c12ScalarType(k pkind, tg *ptag) descriptorpb.FieldDescriptorProto_Type {
	zz := tg != nil && tg.zigzag
	switch k {
	case kBool:
		return descriptorpb.FieldDescriptorProto_TYPE_BOOL
	case kInt, kInt64:
		if zz {
			return descriptorpb.FieldDescriptorProto_TYPE_SINT64
		}
		return descriptorpb.FieldDescriptorProto_TYPE_INT64
	case kInt32:
		if zz {
			return descriptorpb.FieldDescriptorProto_TYPE_SINT32
		}
		return descriptorpb.FieldDescriptorProto_TYPE_INT32
	case kUint, kUint64:
		if tg != nil && tg.wire == 1 && k == kUint64 {
			return descriptorpb.FieldDescriptorProto_TYPE_FIXED64
		}
		return descriptorpb.FieldDescriptorProto_TYPE_UINT64
	case kUint32:
		if tg != nil && tg.wire == 5 {
			return descriptorpb.FieldDescriptorProto_TYPE_FIXED32
		}
		return descriptorpb.FieldDescriptorProto_TYPE_UINT32
	case kFloat32:
		return descriptorpb.FieldDescriptorProto_TYPE_FLOAT
	case kFloat64:
		return descriptorpb.FieldDescriptorProto_TYPE_DOUBLE
	case kString:
		return descriptorpb.FieldDescriptorProto_TYPE_STRING
	case kBytes, kArr:
		return descriptorpb.FieldDescriptorProto_TYPE_BYTES
	}
	panic("c12: no scalar type for " + kindNames[k])
}

// c12Msg builds the descriptor of struct type t named name whose fully-qualified name is path.
func c12Msg(name, path string, t *pty) *descriptorpb.DescriptorProto {
	d := &descriptorpb.DescriptorProto{Name: gproto.String(name)}
	for i, f := range t.fields {
		fname := fmt.Sprintf("f%d", i)
		fd := &descriptorpb.FieldDescriptorProto{
			Name:   gproto.String(fname),
			Number: gproto.Int32(int32(fieldNum(t, i))),
			Label:  descriptorpb.FieldDescriptorProto_LABEL_OPTIONAL.Enum(),
		}
		setType := func(fd *descriptorpb.FieldDescriptorProto, et *pty, tg *ptag, sub string, into *descriptorpb.DescriptorProto, intoPath string) {
			et = stripPtr(et)
			if et.k == kStruct {
				into.NestedType = append(into.NestedType, c12Msg(sub, intoPath+"."+sub, et))
				fd.Type = descriptorpb.FieldDescriptorProto_TYPE_MESSAGE.Enum()
				fd.TypeName = gproto.String(intoPath + "." + sub)
				return
			}
			fd.Type = c12ScalarType(et.k, tg).Enum()
		}
		base := stripPtr(f.t)
		switch base.k {
		case kSlice:
			fd.Label = descriptorpb.FieldDescriptorProto_LABEL_REPEATED.Enum()
			setType(fd, base.elem, f.tag, fmt.Sprintf("S%d", i), d, path)
		case kMap:
			fd.Label = descriptorpb.FieldDescriptorProto_LABEL_REPEATED.Enum()
			ename := fmt.Sprintf("F%dEntry", i)
			e := &descriptorpb.DescriptorProto{Name: gproto.String(ename), Options: &descriptorpb.MessageOptions{MapEntry: gproto.Bool(true)}}
			kf := &descriptorpb.FieldDescriptorProto{Name: gproto.String("key"), Number: gproto.Int32(1), Label: descriptorpb.FieldDescriptorProto_LABEL_OPTIONAL.Enum()}
			vf := &descriptorpb.FieldDescriptorProto{Name: gproto.String("value"), Number: gproto.Int32(2), Label: descriptorpb.FieldDescriptorProto_LABEL_OPTIONAL.Enum()}
			// a map entry message may not declare nested types: the value message type is declared next to it
			setType(kf, base.key, nil, fmt.Sprintf("K%d", i), d, path)
			setType(vf, base.elem, nil, fmt.Sprintf("V%d", i), d, path)
			e.Field = []*descriptorpb.FieldDescriptorProto{kf, vf}
			d.NestedType = append(d.NestedType, e)
			fd.Type = descriptorpb.FieldDescriptorProto_TYPE_MESSAGE.Enum()
			fd.TypeName = gproto.String(path + "." + ename)
		default:
			setType(fd, base, f.tag, fmt.Sprintf("S%d", i), d, path)
		}
		d.Field = append(d.Field, fd)
	}
	return d
}

var c12descCache = map[*pty]protoreflect.MessageDescriptor{}

func c12Desc(t *pty) protoreflect.MessageDescriptor {
	if md, ok := c12descCache[t]; ok {
		return md
	}
	fdp := &descriptorpb.FileDescriptorProto{
		Name:        gproto.String("c12.proto"),
		Package:     gproto.String("c12"),
		Syntax:      gproto.String("proto2"),
		MessageType: []*descriptorpb.DescriptorProto{c12Msg("M", ".c12.M", t)},
	}
	f, err := protodesc.NewFile(fdp, nil)
	if err != nil {
		panic("c12: descriptor rejected: " + err.Error() + " for " + t.String())
	}
	md := f.Messages().Get(0)
	c12descCache[t] = md
	return md
}

// ---------------------------------------------------------------------------------------------
// values <-> dynamic messages

func c12IsDefault(t *pty, v *pval) bool {
	switch t.k {
	case kPtr:
		return v.isnil
	case kBool:
		return !v.b
	case kInt, kInt32, kInt64:
		return v.i == 0
	case kUint, kUint32, kUint64, kFloat32, kFloat64:
		return v.u == 0
	case kString, kBytes:
		return len(v.s) == 0
	case kArr:
		for _, c := range v.s {
			if c != 0 {
				return false
			}
		}
		return true
	case kStruct:
		for i, f := range t.fields {
			if !c12IsDefault(f.t, v.elems[i]) {
				return false
			}
		}
		return true
	case kSlice, kMap:
		return len(v.elems) == 0
	}
	return false
}

func c12ScalarValue(t *pty, v *pval, fd protoreflect.FieldDescriptor) protoreflect.Value {
	switch t.k {
	case kBool:
		return protoreflect.ValueOfBool(v.b)
	case kInt, kInt64:
		return protoreflect.ValueOfInt64(v.i)
	case kInt32:
		return protoreflect.ValueOfInt32(int32(v.i))
	case kUint, kUint64:
		return protoreflect.ValueOfUint64(v.u)
	case kUint32:
		return protoreflect.ValueOfUint32(uint32(v.u))
	case kFloat32:
		return protoreflect.ValueOfFloat32(math.Float32frombits(uint32(v.u)))
	case kFloat64:
		return protoreflect.ValueOfFloat64(math.Float64frombits(v.u))
	case kString:
		return protoreflect.ValueOfString(string(v.s))
	case kBytes, kArr:
		return protoreflect.ValueOfBytes(append([]byte{}, v.s...))
	}
	panic("c12: not a scalar")
}

// c12Fill sets the fields of m from the struct value v. ez decides whether a default-valued singular field
// without presence in Go (non-pointer) is set explicitly all the same (the reference then writes it).
func c12Fill(m protoreflect.Message, t *pty, v *pval, ez func() bool) {
	fds := m.Descriptor().Fields()
	for i, f := range t.fields {
		fd := fds.ByNumber(protoreflect.FieldNumber(fieldNum(t, i)))
		ft, fv := f.t, v.elems[i]
		switch ft.k {
		case kSlice:
			if len(fv.elems) == 0 {
				continue
			}
			l := m.Mutable(fd).List()
			for _, e := range fv.elems {
				l.Append(c12Value(l.NewElement, ft.elem, e, fd, ez))
			}
		case kMap:
			if len(fv.elems) == 0 {
				continue
			}
			mp := m.Mutable(fd).Map()
			for j := range fv.elems {
				k := c12ScalarValue(ft.key, fv.keys[j], fd.MapKey()).MapKey()
				mp.Set(k, c12Value(mp.NewValue, ft.elem, fv.elems[j], fd.MapValue(), ez))
			}
		default:
			ptr := false
			absent := false
			for ft.k == kPtr {
				if fv.isnil {
					absent = true
					break
				}
				ptr = true
				ft, fv = ft.elem, fv.elem
			}
			if absent {
				continue
			}
			if !ptr && c12IsDefault(ft, fv) && !ez() {
				continue
			}
			m.Set(fd, c12Value(func() protoreflect.Value { return m.NewField(fd) }, ft, fv, fd, ez))
		}
	}
}

func c12Value(newv func() protoreflect.Value, t *pty, v *pval, fd protoreflect.FieldDescriptor, ez func() bool) protoreflect.Value {
	for t.k == kPtr {
		t, v = t.elem, v.elem
	}
	if t.k == kStruct {
		mv := newv()
		c12Fill(mv.Message(), t, v, ez)
		return mv
	}
	return c12ScalarValue(t, v, fd)
}

func c12FromValue(x protoreflect.Value, t *pty) *pval {
	if t.k == kPtr {
		return &pval{k: kPtr, elem: c12FromValue(x, t.elem)}
	}
	v := &pval{k: t.k}
	switch t.k {
	case kStruct:
		return c12Read(x.Message(), t)
	case kBool:
		v.b = x.Bool()
	case kInt, kInt32, kInt64:
		v.i = x.Int()
	case kUint, kUint32, kUint64:
		v.u = x.Uint()
	case kFloat32:
		v.u = uint64(math.Float32bits(float32(x.Float())))
	case kFloat64:
		v.u = math.Float64bits(x.Float())
	case kString:
		v.s = []byte(x.String())
	case kBytes:
		v.s = append([]byte{}, x.Bytes()...)
	case kArr:
		v.s = append([]byte{}, x.Bytes()...)
		if len(v.s) != t.n {
			panic(notRepresentable{}) // a bytes value of another length denotes no [N]byte
		}
	}
	return v
}

type notRepresentable struct{}

func c12Read(m protoreflect.Message, t *pty) *pval {
	v := &pval{k: kStruct}
	fds := m.Descriptor().Fields()
	for i, f := range t.fields {
		fd := fds.ByNumber(protoreflect.FieldNumber(fieldNum(t, i)))
		ft := f.t
		var fv *pval
		switch ft.k {
		case kSlice:
			fv = &pval{k: kSlice}
			l := m.Get(fd).List()
			for j := 0; j < l.Len(); j++ {
				fv.elems = append(fv.elems, c12FromValue(l.Get(j), ft.elem))
			}
		case kMap:
			fv = &pval{k: kMap}
			m.Get(fd).Map().Range(func(k protoreflect.MapKey, x protoreflect.Value) bool {
				fv.keys = append(fv.keys, c12FromValue(k.Value(), ft.key))
				fv.elems = append(fv.elems, c12FromValue(x, ft.elem))
				return true
			})
		case kPtr:
			if !m.Has(fd) {
				fv = &pval{k: kPtr, isnil: true}
			} else {
				fv = c12FromValue(m.Get(fd), ft)
			}
		case kArr:
			if !m.Has(fd) {
				fv = &pval{k: kArr, s: make([]byte, ft.n)}
			} else {
				fv = c12FromValue(m.Get(fd), ft)
			}
		default:
			fv = c12FromValue(m.Get(fd), ft)
		}
		v.elems = append(v.elems, fv)
	}
	return v
}

func refDecode(t *pty, b []byte) (obs string) {
	defer func() {
		if r := recover(); r != nil {
			if _, ok := r.(notRepresentable); ok {
				obs = "err:not-representable"
				return
			}
			obs = "PANIC"
		}
	}()
	return func() string {
		m := dynamicpb.NewMessage(c12Desc(t))
		if err := (gproto.UnmarshalOptions{}).Unmarshal(b, m); err != nil {
			return "err"
		}
		return c12Read(m, t).canon()
	}()
}

func refEncode(t *pty, v *pval, ez func() bool) []byte {
	m := dynamicpb.NewMessage(c12Desc(t))
	c12Fill(m, t, v, ez)
	b, err := gproto.MarshalOptions{Deterministic: true}.Marshal(m)
	if err != nil {
		panic("c12: reference Marshal failed: " + err.Error())
	}
	return b
}

func pkgDecode(t *pty, b []byte) string {
	return guarded(func() string {
		y := reflect.New(t.goType())
		if err := segproto.Unmarshal(b, y.Interface()); err != nil {
			return "err"
		}
		return t.fromGo(y.Elem()).canon()
	})
}

func pkgEncode(t *pty, v *pval) (b []byte, ok bool) {
	defer func() {
		if recover() != nil {
			b, ok = nil, false
		}
	}()
	x := t.toGo(v).Addr().Interface()
	b, err := segproto.Marshal(x)
	return b, err == nil
}

// ---------------------------------------------------------------------------------------------
// input classes on which the package is known to deviate

// emptyEnc: the package's encoding of v is empty even when a zero value is wanted (Spec.v empty_enc)
func emptyEnc(t *pty, v *pval) bool {
	switch t.k {
	case kPtr:
		if v.isnil {
			return true
		}
		if t.elem.k == kStruct || t.elem.k == kPtr {
			return emptyEnc(t.elem, v.elem)
		}
		return false
	case kStruct:
		for i, f := range t.fields {
			if !emptyEnc(f.t, v.elems[i]) {
				return false
			}
		}
		return true
	case kSlice:
		return len(v.elems) == 0
	}
	return false
}

// hasF17: a non-nil pointer to a value with empty encoding (known finding F17 of C03), anywhere
func hasF17(t *pty, v *pval) bool {
	switch t.k {
	case kPtr:
		if v.isnil {
			return false
		}
		return emptyEnc(t.elem, v.elem) || hasF17(t.elem, v.elem)
	case kStruct:
		for i, f := range t.fields {
			if hasF17(f.t, v.elems[i]) {
				return true
			}
		}
	case kSlice:
		for _, e := range v.elems {
			if hasF17(t.elem, e) || (t.elem.k == kPtr && emptyEnc(t.elem, e)) {
				return true
			}
		}
	case kMap:
		for _, e := range v.elems {
			if hasF17(t.elem, e) || (t.elem.k == kPtr && emptyEnc(t.elem, e)) {
				return true
			}
		}
	}
	return false
}

// hasEmptyMap: a map field without entries in a struct that is encoded (the package writes one empty entry)
func hasEmptyMap(t *pty, v *pval) bool {
	switch t.k {
	case kPtr:
		return !v.isnil && hasEmptyMap(t.elem, v.elem)
	case kStruct:
		for i, f := range t.fields {
			if hasEmptyMap(f.t, v.elems[i]) {
				return true
			}
		}
	case kSlice:
		for _, e := range v.elems {
			if hasEmptyMap(t.elem, e) {
				return true
			}
		}
	case kMap:
		if len(v.elems) == 0 {
			return true
		}
		for _, e := range v.elems {
			if hasEmptyMap(t.elem, e) {
				return true
			}
		}
	}
	return false
}

// repTagVariant: a repeated field whose tag selects the zigzag or fixed-width variant of its element type
// (what protoc-gen-go writes for repeated sint32/sint64/fixed32/fixed64): the package's slice codec ignores it
func repTagVariant(f *pfield) bool {
	if f.t.k != kSlice || f.tag == nil {
		return false
	}
	e := stripPtr(f.t.elem)
	return f.tag.zigzag || (f.tag.wire == 5 && e.k == kUint32) || (f.tag.wire == 1 && e.k == kUint64)
}

// hasZigzagRep: a non-empty repeated field tagged zigzag or fixed (the package writes plain varints)
func hasZigzagRep(t *pty, v *pval) bool {
	switch t.k {
	case kPtr:
		return !v.isnil && hasZigzagRep(t.elem, v.elem)
	case kStruct:
		for i, f := range t.fields {
			if repTagVariant(&f) && len(v.elems[i].elems) > 0 {
				return true
			}
			if hasZigzagRep(f.t, v.elems[i]) {
				return true
			}
		}
	case kSlice, kMap:
		for _, e := range v.elems {
			if hasZigzagRep(t.elem, e) {
				return true
			}
		}
	}
	return false
}

func typeHasZigzagRep(t *pty) bool {
	switch t.k {
	case kPtr, kSlice, kMap:
		return typeHasZigzagRep(t.elem)
	case kStruct:
		for _, f := range t.fields {
			if repTagVariant(&f) {
				return true
			}
			if typeHasZigzagRep(f.t) {
				return true
			}
		}
	}
	return false
}

// typeHasZigzagStruct: a zigzag tag on a field whose type is a struct or a pointer to a struct (never written by
// protoc-gen-go): the struct codec hands its flags down, so the integers INSIDE the message are zig-zag coded
func typeHasZigzagStruct(t *pty) bool {
	switch t.k {
	case kPtr, kSlice, kMap:
		return typeHasZigzagStruct(t.elem)
	case kStruct:
		for _, f := range t.fields {
			if f.tag != nil && f.tag.zigzag && stripPtr(f.t).k == kStruct {
				return true
			}
			if typeHasZigzagStruct(f.t) {
				return true
			}
		}
	}
	return false
}

func stdClass(t *pty, v *pval) string {
	switch {
	case typeHasZigzagStruct(t):
		return ".zzstruct"
	case hasZigzagRep(t, v):
		return ".zzrep"
	case hasEmptyMap(t, v):
		return ".emap"
	case hasF17(t, v):
		return ".f17"
	}
	return ""
}

// ---------------------------------------------------------------------------------------------
// raw records, parsed along the Go type

type wnode struct {
	num   protowire.Number
	wt    protowire.Type
	u     uint64   // varint, fixed32, fixed64 payload
	b     []byte   // length-delimited payload that is not a message
	sub   []*wnode // length-delimited payload that is a message of type mt
	isMsg bool
	mt    *pty    // struct type of the sub-message (synthetic {key; value} struct for map entries)
	pf    *pfield // declared field (nil: unknown field)
	et    *pty    // element type after stripping slice and pointers (scalar kinds)
	sing  bool    // singular field (neither repeated nor map)
}

func entryType(mt *pty) *pty {
	return &pty{k: kStruct, fields: []pfield{{t: mt.key}, {t: mt.elem}}}
}

// wParse parses b as a message of struct type t. ok=false: malformed at the record level;
// group=true: a start/end group wire type was met where a tag is expected.
func wParse(b []byte, t *pty) (nodes []*wnode, ok bool, group bool) {
	for len(b) > 0 {
		num, wt, n := protowire.ConsumeTag(b)
		if n < 0 {
			return nil, false, group
		}
		b = b[n:]
		nd := &wnode{num: num, wt: wt}
		for i := range t.fields {
			if fieldNum(t, i) == int(num) {
				nd.pf = &t.fields[i]
			}
		}
		switch wt {
		case protowire.VarintType:
			v, m := protowire.ConsumeVarint(b)
			if m < 0 {
				return nil, false, group
			}
			nd.u, b = v, b[m:]
		case protowire.Fixed32Type:
			v, m := protowire.ConsumeFixed32(b)
			if m < 0 {
				return nil, false, group
			}
			nd.u, b = uint64(v), b[m:]
		case protowire.Fixed64Type:
			v, m := protowire.ConsumeFixed64(b)
			if m < 0 {
				return nil, false, group
			}
			nd.u, b = v, b[m:]
		case protowire.BytesType:
			v, m := protowire.ConsumeBytes(b)
			if m < 0 {
				return nil, false, group
			}
			nd.b, b = v, b[m:]
		case protowire.StartGroupType, protowire.EndGroupType:
			return nil, false, true
		default:
			return nil, false, group
		}
		if nd.pf != nil {
			ft := stripPtr(nd.pf.t)
			nd.sing = ft.k != kSlice && ft.k != kMap
			switch ft.k {
			case kSlice:
				nd.et = stripPtr(ft.elem)
			case kMap:
				nd.et = nil
				nd.mt = entryType(ft)
			default:
				nd.et = ft
			}
			if nd.et != nil && nd.et.k == kStruct {
				nd.mt = nd.et
			}
			if nd.mt != nil && wt == protowire.BytesType {
				sub, ok2, g2 := wParse(nd.b, nd.mt)
				group = group || g2
				if !ok2 {
					return nil, false, group
				}
				nd.isMsg, nd.sub = true, sub
			}
		}
		nodes = append(nodes, nd)
	}
	return nodes, true, group
}

type wopts struct {
	pad, shuffle, split, dup, unknown bool
	omitZero                          bool // singular non-pointer scalar fields holding their default are left out (map entries without key or value)
	boolPadded                        bool // set by emit: a bool payload was written non-minimally
}

func appendVarintPadded(b []byte, v uint64, extra int) []byte {
	n := protowire.SizeVarint(v)
	total := n + extra
	if total > 10 {
		total = 10
	}
	for i := 0; i < total-1; i++ {
		b = append(b, byte(v&0x7f)|0x80)
		v >>= 7
	}
	return append(b, byte(v))
}

func (o *wopts) varint(b []byte, v uint64) (out []byte, padded bool) {
	if o.pad && rndn(3) == 0 {
		extra := 1 + rndn(3)
		if rndn(4) == 0 {
			extra = 10
		}
		out = appendVarintPadded(b, v, extra)
		return out, len(out)-len(b) > protowire.SizeVarint(v)
	}
	return protowire.AppendVarint(b, v), false
}

// stableShuffle permutes the records keeping the relative order of records that carry the same number
func stableShuffle(ns []*wnode) []*wnode {
	perm := make([]*wnode, len(ns))
	copy(perm, ns)
	for i := len(perm) - 1; i > 0; i-- {
		j := rndn(i + 1)
		perm[i], perm[j] = perm[j], perm[i]
	}
	byNum := map[protowire.Number][]*wnode{}
	for _, n := range ns {
		byNum[n.num] = append(byNum[n.num], n)
	}
	out := make([]*wnode, len(perm))
	for i, p := range perm {
		q := byNum[p.num]
		out[i] = q[0]
		byNum[p.num] = q[1:]
	}
	return out
}

func garbageScalar(nd *wnode) *wnode {
	g := &wnode{num: nd.num, wt: nd.wt, pf: nd.pf, et: nd.et, sing: true}
	zz := nd.pf.tag != nil && nd.pf.tag.zigzag
	switch nd.et.k {
	case kBool:
		g.u = uint64(rndn(2))
	case kInt32:
		x := int64(int32(rnd()))
		if zz {
			g.u = protowire.EncodeZigZag(x)
		} else {
			g.u = uint64(x)
		}
	case kUint32:
		g.u = uint64(uint32(rnd()))
	case kFloat32:
		g.u = uint64(uint32(rnd()))
	case kString, kBytes:
		g.b = rndBytes(6)
	case kArr:
		g.b = make([]byte, nd.et.n)
		for i := range g.b {
			g.b[i] = byte(rnd())
		}
	default:
		g.u = rnd() >> uint(rndn(64))
	}
	if nd.wt == protowire.Fixed32Type {
		g.u = uint64(uint32(g.u))
	}
	return g
}

func unknownNode(t *pty) *wnode {
	used := map[int]bool{}
	for i := range t.fields {
		used[fieldNum(t, i)] = true
	}
	num := 1 + rndn(3000)
	for used[num] || (num >= 19000 && num <= 19999) {
		num++
	}
	nd := &wnode{num: protowire.Number(num)}
	switch rndn(4) {
	case 0:
		nd.wt, nd.u = protowire.VarintType, rnd()>>uint(rndn(64))
	case 1:
		nd.wt, nd.u = protowire.Fixed32Type, uint64(uint32(rnd()))
	case 2:
		nd.wt, nd.u = protowire.Fixed64Type, rnd()
	default:
		nd.wt, nd.b = protowire.BytesType, rndBytes(9)
	}
	return nd
}

// wEmit writes the records of a message of struct type t, transformed as o says
func wEmit(nodes []*wnode, t *pty, o *wopts) []byte {
	var work []*wnode
	for _, nd := range nodes {
		switch {
		case o.split && nd.isMsg && nd.sing && nd.pf != nil && rndn(2) == 0:
			// one occurrence of a singular embedded message becomes several occurrences that merge
			parts := 2 + rndn(2)
			cuts := make([]int, parts-1)
			for i := range cuts {
				cuts[i] = rndn(len(nd.sub) + 1)
			}
			sort.Ints(cuts)
			lo := 0
			for i := 0; i < parts; i++ {
				hi := len(nd.sub)
				if i < parts-1 {
					hi = cuts[i]
				}
				c := *nd
				c.sub = nd.sub[lo:hi]
				work = append(work, &c)
				lo = hi
			}
		case o.dup && nd.sing && !nd.isMsg && nd.pf != nil && nd.et != nil && nd.et.k != kStruct && rndn(2) == 0:
			// an earlier occurrence with an arbitrary value: the last one wins
			for k := 1 + rndn(2); k > 0; k-- {
				work = append(work, garbageScalar(nd))
			}
			work = append(work, nd)
		case o.omitZero && nd.sing && !nd.isMsg && nd.pf != nil && nd.pf.t.k != kPtr && nd.et != nil && nd.et.k != kStruct &&
			nd.u == 0 && len(nd.b) == 0 && omitZeroKind(nd.et.k) && nd.wt != protowire.BytesType && rndn(3) != 0:
			// absent = default: protoc-generated encoders of other languages leave default keys and values of map
			// entries out; the reference encoder never does
		default:
			work = append(work, nd)
		}
	}
	if o.unknown {
		for k := rndn(3); k > 0; k-- {
			p := rndn(len(work) + 1)
			work = append(work[:p], append([]*wnode{unknownNode(t)}, work[p:]...)...)
		}
	}
	if o.shuffle {
		work = stableShuffle(work)
	}
	var out []byte
	for _, nd := range work {
		out, _ = o.varint(out, protowire.EncodeTag(nd.num, nd.wt))
		switch nd.wt {
		case protowire.VarintType:
			var padded bool
			out, padded = o.varint(out, nd.u)
			if padded && nd.pf != nil && nd.et != nil && nd.et.k == kBool {
				o.boolPadded = true
			}
		case protowire.Fixed32Type:
			out = protowire.AppendFixed32(out, uint32(nd.u))
		case protowire.Fixed64Type:
			out = protowire.AppendFixed64(out, nd.u)
		case protowire.BytesType:
			payload := nd.b
			if nd.isMsg {
				payload = wEmit(nd.sub, nd.mt, o)
			}
			out, _ = o.varint(out, uint64(len(payload)))
			out = append(out, payload...)
		}
	}
	return out
}

// ---------------------------------------------------------------------------------------------
// cases

func wStd(t *pty, v *pval) {
	fn := "w.std" + stdClass(t, v)
	if !mine() {
		skip()
		return
	}
	args := t.String() + "|" + v.String()
	trace(fn, args)
	impl := guarded(func() string {
		b, ok := pkgEncode(t, v)
		if !ok {
			return "err:marshal"
		}
		return refDecode(t, b)
	})
	emit(fn, args, impl, v.canon())
}

func hasPaddedBool(t *pty, b []byte) bool {
	// a bool payload (field, repeated element, map key or value) written on more than one byte
	nodes, ok, _ := wParse(b, t)
	if !ok {
		return false
	}
	var walk func(ns []*wnode, raw []byte, t *pty) bool
	walk = func(ns []*wnode, raw []byte, t *pty) bool {
		// re-scan raw alongside the nodes to see payload lengths
		for _, nd := range ns {
			_, _, n := protowire.ConsumeTag(raw)
			raw = raw[n:]
			m := protowire.ConsumeFieldValue(nd.num, nd.wt, raw)
			if nd.wt == protowire.VarintType && nd.pf != nil && nd.et != nil && nd.et.k == kBool && m > 1 {
				return true
			}
			if nd.isMsg {
				payload, _ := protowire.ConsumeBytes(raw)
				if walk(nd.sub, payload, nd.mt) {
					return true
				}
			}
			raw = raw[m:]
		}
		return false
	}
	return walk(nodes, b, t)
}

// hasZigzagRepRecord: the bytes hold an occurrence of a repeated field tagged zigzag
func hasZigzagRepRecord(t *pty, b []byte) bool {
	if !typeHasZigzagRep(t) {
		return false
	}
	nodes, ok, _ := wParse(b, t)
	if !ok {
		return false
	}
	var walk func(ns []*wnode) bool
	walk = func(ns []*wnode) bool {
		for _, nd := range ns {
			if nd.pf != nil && repTagVariant(nd.pf) {
				return true
			}
			if nd.isMsg && walk(nd.sub) {
				return true
			}
		}
		return false
	}
	return walk(nodes)
}

// hasEmptyEntryRecord: a map entry record with an empty payload (key and value both left to their defaults)
func hasEmptyEntryRecord(t *pty, b []byte) bool {
	nodes, ok, _ := wParse(b, t)
	if !ok {
		return false
	}
	var walk func(ns []*wnode) bool
	walk = func(ns []*wnode) bool {
		for _, nd := range ns {
			if nd.pf != nil && nd.pf.t.k == kMap && nd.isMsg && len(nd.b) == 0 {
				return true
			}
			if nd.isMsg && walk(nd.sub) {
				return true
			}
		}
		return false
	}
	return walk(nodes)
}

// hasEntryWithoutPtrValue: a map entry record without value field where the Go value type is a pointer (the package
// stores a nil pointer, the specification the default value: the decode side of known finding F17)
func hasEntryWithoutPtrValue(t *pty, b []byte) bool {
	nodes, ok, _ := wParse(b, t)
	if !ok {
		return false
	}
	var walk func(ns []*wnode) bool
	walk = func(ns []*wnode) bool {
		for _, nd := range ns {
			if nd.pf != nil && nd.pf.t.k == kMap && nd.isMsg && nd.pf.t.elem.k == kPtr {
				hasVal := false
				for _, c := range nd.sub {
					if c.num == 2 {
						hasVal = true
					}
				}
				if !hasVal {
					return true
				}
			}
			if nd.isMsg && walk(nd.sub) {
				return true
			}
		}
		return false
	}
	return walk(nodes)
}

func wDec(t *pty, b []byte) {
	fn := "w.dec"
	if typeHasZigzagStruct(t) {
		fn += ".zzstruct"
	} else if hasZigzagRepRecord(t, b) {
		fn += ".zzrep"
	} else if hasEmptyEntryRecord(t, b) {
		fn += ".emap"
	} else if hasEntryWithoutPtrValue(t, b) {
		fn += ".f17"
	}
	if !mine() {
		skip()
		return
	}
	args := t.String() + "|" + hexs(b)
	trace(fn, args)
	emit(fn, args, pkgDecode(t, b), refDecode(t, b))
}

func oDec(t *pty, b []byte) {
	if _, _, group := wParse(b, t); group {
		// groups (deprecated) are outside the transcribed specification: no case
		return
	}
	if !mine() {
		skip()
		return
	}
	r := refDecode(t, b)
	if r == "PANIC" {
		// v1.26.0 panics (nil map key) on some map entries without key in a dynamic proto2 descriptor: a defect
		// of the oracle on malformed-ish input, not of the specification: recorded without verdict
		emit("o.refpanic", t.String()+"|"+hexs(b), r, "-")
		return
	}
	emit("o.dec", t.String()+"|"+hexs(b), r, "-")
}

// protoText renders the .proto equivalent of t: the Kind names proto.TypeOf must report
func protoText(t *pty) string {
	var sb strings.Builder
	sb.WriteString("{")
	for i, f := range t.fields {
		base := stripPtr(f.t)
		rep := ""
		et := base
		if base.k == kSlice {
			rep = "repeated "
			et = stripPtr(base.elem)
		}
		var tn string
		switch et.k {
		case kStruct:
			tn = protoText(et)
		case kMap:
			vt := stripPtr(et.elem)
			vn := ""
			if vt.k == kStruct {
				vn = protoText(vt)
			} else {
				vn = strings.ToLower(c12ScalarType(vt.k, nil).String()[5:])
			}
			tn = "map<" + strings.ToLower(c12ScalarType(et.key.k, nil).String()[5:]) + "," + vn + ">"
		default:
			tn = strings.ToLower(c12ScalarType(et.k, f.tag).String()[5:])
		}
		fmt.Fprintf(&sb, " %s%s=%d;", rep, tn, fieldNum(t, i))
	}
	sb.WriteString(" }")
	return sb.String()
}

func typeOfText(pt segproto.Type) string {
	switch pt.Kind() {
	case segproto.Struct:
		var sb strings.Builder
		sb.WriteString("{")
		for i := 0; i < pt.NumField(); i++ {
			f := pt.Field(i)
			rep := ""
			if f.Repeated {
				rep = "repeated "
			}
			fmt.Fprintf(&sb, " %s%s=%d;", rep, typeOfText(f.Type), int(f.Number))
		}
		sb.WriteString(" }")
		return sb.String()
	case segproto.Map:
		return "map<" + typeOfText(pt.Key()) + "," + typeOfText(pt.Elem()) + ">"
	}
	return pt.Name()
}

// typeHasFixedRep: a repeated uint32/uint64 field tagged fixed32/fixed64
func typeHasFixedRep(t *pty) bool {
	switch t.k {
	case kPtr, kSlice, kMap:
		return typeHasFixedRep(t.elem)
	case kStruct:
		for _, f := range t.fields {
			if repTagVariant(&f) && !f.tag.zigzag {
				return true
			}
			if typeHasFixedRep(f.t) {
				return true
			}
		}
	}
	return false
}

func uniformTags(t *pty) bool {
	switch t.k {
	case kPtr, kSlice, kMap:
		return uniformTags(t.elem)
	case kStruct:
		tagged := 0
		for _, f := range t.fields {
			if f.tag != nil {
				tagged++
			}
			if !uniformTags(f.t) {
				return false
			}
		}
		return tagged == 0 || tagged == len(t.fields)
	}
	return true
}

func wType(t *pty) {
	if !mine() {
		skip()
		return
	}
	impl := guarded(func() string { return typeOfText(segproto.TypeOf(t.goType())) })
	fn := "w.type"
	if typeHasFixedRep(t) {
		fn += ".zzrep" // known finding F33: TypeOf reports what the slice codec writes (varint), not the tagged variant
	}
	emit(fn, t.String(), impl, protoText(t))
}

var c12Fixed = []string{
	"(struct (f - bool))",
	"(struct (f - i32) (f - i64) (f - u32) (f - u64) (f - int) (f - uint))",
	"(struct (f (t 0 1 0 1) i32) (f (t 0 2 0 1) i64) (f (t 5 3 0 0) u32) (f (t 1 4 0 0) u64) (f (t 5 5 0 0) f32) (f (t 1 6 0 0) f64))",
	"(struct (f - (ptr bool)) (f - (ptr i32)) (f - (ptr str)) (f - (ptr (struct (f - int) (f - str)))))",
	"(struct (f - (slice bool)) (f - (slice i32)) (f - (slice str)) (f - (slice (struct (f - int) (f - bool)))))",
	"(struct (f - (map str bool)) (f - (map i32 str)) (f - (map bool (struct (f - int) (f - (slice str))))))",
	"(struct (f - (struct (f - int) (f - (slice i64)) (f - (struct (f - str) (f - bool))))) (f - str))",
	"(struct (f (t 0 3 1 1) (slice i64)) (f (t 0 1 0 1) i32))",
	"(struct (f (t 5 1 1 0) (slice u32)) (f (t 1 2 1 0) (slice u64)) (f (t 5 3 1 0) (slice f32)))",
	"(struct (f (t 2 1 0 1) (struct (f - i64) (f - str))) (f - i32))",
	"(struct (f (t 2 1 0 1) (ptr (struct (f - int) (f (t 0 2 0 1) i32)))))",
	"(struct (f - (arr 8)) (f - (arr 0)) (f - bytes))",
	"(struct (f - (slice (ptr i32))) (f - (slice (ptr (struct (f - bool))))))",
	"(struct (f - (map u64 (ptr (struct (f - (ptr int)) (f - (map str int)))))))",
}

func c12() {
	for i := 0; i < 40; i++ {
		pCustom(rnd(), true) // nested custom messages: standard bytes (recorded deviation: two length prefixes)
	}
	for i := 0; i < 10; i++ {
		pBigField(rnd()) // field numbers above 65535 (recorded deviation: kept in 16 bits)
	}
	g := &pgen{maxDepth: 3, allowRaw: false, allowMap: true, bigNumber: false}
	nTypes, nVals, nRe := 260, 3, 6
	if *tier == "thorough" {
		nTypes, nVals, nRe = 3000, 5, 10
	}
	var types []*pty
	for _, s := range c12Fixed {
		types = append(types, tyFromSx(parseSx(s)))
	}
	for i := 0; i < nTypes; i++ {
		types = append(types, g.structType(0))
	}
	for _, t := range types {
		if uniformTags(t) { // TypeOf refuses struct types that mix tagged and untagged fields
			wType(t)
		}
		vals := []*pval{zeroValue(t)}
		for j := 0; j < nVals; j++ {
			vals = append(vals, c12Quiet(t, g.value(t, 0)))
		}
		for _, v := range vals {
			// 1. package -> reference
			wStd(t, v)
			// 2. reference -> package: the reference's own encodings (with and without explicit zero values)
			want := v.canon()
			bases := [][]byte{
				refEncode(t, v, func() bool { return false }),
				refEncode(t, v, func() bool { return rndn(3) == 0 }),
			}
			if !v.multiMap() { // the package writes map entries in Go's random iteration order: not reproducible
				if pb, ok := pkgEncode(t, v); ok && refDecode(t, pb) == want {
					bases = append(bases, pb)
				}
			}
			for bi, base := range bases {
				if bi < 2 {
					c12Legal(t, base, want, "reference encoding")
				}
				nodes, ok, _ := wParse(base, t)
				if !ok {
					emit("w.bug", t.String()+"|"+hexs(base), "harness cannot parse a valid encoding", "ok")
					continue
				}
				// 3. legal re-encodings
				for k := 0; k < nRe; k++ {
					o := &wopts{}
					switch k % 5 {
					case 0:
						o.shuffle = true
						o.omitZero = k >= 5
					case 1:
						o.pad = true
					case 2:
						o.split = true
					case 3:
						o.dup = true
					default:
						o.shuffle, o.pad, o.split, o.dup = rndBool(), rndBool(), rndBool(), rndBool()
						o.unknown = rndn(3) == 0
						o.omitZero = true
					}
					w := wEmit(nodes, t, o)
					c12Legal(t, w, want, "re-encoding")
					// 4. malformed stream: reference vs transcribed specification only
					if k == 0 && len(w) > 0 {
						for q := 0; q < 3; q++ {
							m := append([]byte(nil), w...)
							switch rndn(5) {
							case 0:
								m[rndn(len(m))] = byte(rnd())
							case 1:
								m[rndn(len(m))] ^= 0x80
							case 2:
								p := rndn(len(m))
								m = append(m[:p], append([]byte{byte(rnd()), byte(rnd())}, m[p:]...)...)
							case 3:
								m = m[:rndn(len(m))]
							case 4:
								m[rndn(len(m))] = pick([]byte{0xff, 0x7f, 0x80, 0x00, 0x01, 0x02, 0x0a})
							}
							oDec(t, m)
						}
					}
				}
			}
		}
	}
	c03Fixed2(40) // declared shapes with unexported fields between exported ones (field numbering)
}

// c12Legal emits the w.dec case of a legal encoding w of the value whose canonical text is want, after checking
// that the reference agrees that w encodes that value (otherwise the harness itself is wrong)
func c12Legal(t *pty, w []byte, want, what string) {
	if mine() {
		if got := refDecode(t, w); got != want {
			emit("w.bug", t.String()+"|"+hexs(w), "reference decodes the "+what+" to "+got, want)
			return
		}
	}
	wDec(t, w)
}

// c12Quiet replaces signalling float32 NaNs by quiet ones: protoreflect carries float32 values as float64 and the
// conversion quiets them on amd64 (a property of the oracle's API, not of the wire format)
func c12Quiet(t *pty, v *pval) *pval {
	switch t.k {
	case kFloat32:
		if v.u&0x7f800000 == 0x7f800000 && v.u&0x007fffff != 0 {
			v.u |= 0x00400000
		}
	case kPtr:
		if !v.isnil {
			c12Quiet(t.elem, v.elem)
		}
	case kStruct:
		for i, f := range t.fields {
			c12Quiet(f.t, v.elems[i])
		}
	case kSlice:
		for _, e := range v.elems {
			c12Quiet(t.elem, e)
		}
	case kMap:
		for _, e := range v.elems {
			c12Quiet(t.elem, e)
		}
	}
	return v
}

// omitZeroKind: scalar kinds carried in varint or fixed records whose zero payload is the Go zero value
func omitZeroKind(k pkind) bool {
	switch k {
	case kStruct, kSlice, kMap, kPtr:
		return false
	}
	return true
}
