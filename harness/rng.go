package main

// splitmix64: the single source of randomness.
var rngState uint64

// rngInit: the state is a HASH of the seed. (It used to be seed*gamma+c with the same gamma the generator adds per
// draw, which made the streams of seeds s and s+1 the same stream shifted by one position.)
func rngInit(s uint64) {
	z := s + 0x9E3779B97F4A7C15
	z = (z ^ (z >> 33)) * 0xFF51AFD7ED558CCD
	z = (z ^ (z >> 33)) * 0xC4CEB9FE1A85EC53
	rngState = z ^ (z >> 33) ^ 0xD6E8FEB86659FD93
}

func rnd() uint64 {
	rngState += 0x9E3779B97F4A7C15
	z := rngState
	z = (z ^ (z >> 30)) * 0xBF58476D1CE4E5B9
	z = (z ^ (z >> 27)) * 0x94D049BB133111EB
	return z ^ (z >> 31)
}

func rndn(n int) int {
	if n <= 0 {
		return 0
	}
	return int(rnd() % uint64(n))
}

func rndBool() bool { return rnd()&1 == 1 }

func pick[T any](xs []T) T { return xs[rndn(len(xs))] }

const hexdigits = "0123456789abcdef"

func hexs(b []byte) string {
	if len(b) == 0 {
		return "-"
	}
	o := make([]byte, 2*len(b))
	for i, c := range b {
		o[2*i] = hexdigits[c>>4]
		o[2*i+1] = hexdigits[c&15]
	}
	return string(o)
}
