package main

import (
	"bytes"
	stdjson "encoding/json"
	"errors"
	"fmt"
	"io"
	"strconv"
	"strings"

	"github.com/segmentio/encoding/json"
)

func init() {
	register("c11", c11)
	replayers["j.stream"] = func(a []string) {
		p := strings.Split(strings.Join(a, " "), "|")
		failAt, _ := strconv.Atoi(p[2])
		jStream(unhex(p[0]), p[1], failAt)
	}
	replayers["j.parse"] = func(a []string) { jParseRemainder(unhex(a[0])) }
}

var errReader = errors.New("reader failed")

// scriptReader delivers data in chunks described by a script:
//
//	"all"      one read
//	"one"      one byte per read
//	"z"        one byte per read with a zero-length read before each
//	"rK"       pseudo-random chunk sizes 1..K (seeded by K)
//	"dataerr"  the final chunk is returned together with the terminal error
//
// failAt >= 0: the stream fails with errReader after failAt bytes (instead of io.EOF at the end).
type scriptReader struct {
	data    []byte
	pos     int
	mode    string
	failAt  int
	zeroed  bool
	rs      uint64
	readLog int
}

func (r *scriptReader) end() (int, error) {
	if r.failAt >= 0 {
		return 0, errReader
	}
	return 0, io.EOF
}

func (r *scriptReader) Read(p []byte) (int, error) {
	limit := len(r.data)
	if r.failAt >= 0 && r.failAt < limit {
		limit = r.failAt
	}
	if r.pos >= limit {
		return r.end()
	}
	if len(p) == 0 {
		return 0, nil
	}
	n := limit - r.pos
	switch {
	case r.mode == "all":
	case r.mode == "one":
		n = 1
	case r.mode == "z":
		if !r.zeroed {
			r.zeroed = true
			return 0, nil
		}
		r.zeroed = false
		n = 1
	case strings.HasPrefix(r.mode, "r"):
		k, _ := strconv.Atoi(r.mode[1:])
		r.rs = r.rs*6364136223846793005 + 1442695040888963407 + uint64(k)
		n = 1 + int((r.rs>>33)%uint64(k))
	case r.mode == "dataerr":
	}
	if n > limit-r.pos {
		n = limit - r.pos
	}
	if n > len(p) {
		n = len(p)
	}
	copy(p, r.data[r.pos:r.pos+n])
	r.pos += n
	if r.mode == "dataerr" && r.pos >= limit {
		_, err := r.end()
		return n, err
	}
	return n, nil
}

// jStream: decode the whole stream with the package's Decoder fed through the script, and with
// encoding/json's Decoder given the same bytes in a single read. Observable: the compacted values in
// order, then the final condition (eof / ueof / readerr / syntax), plus the offset / Buffered contracts.
func jStream(data []byte, mode string, failAt int) {
	if !mine() {
		skip()
		return
	}
	args := fmt.Sprintf("%s|%s|%d", hexs(data), mode, failAt)
	trace("j.stream", args)
	finalClass := func(err error, readerFailed bool) string {
		switch {
		case err == io.EOF:
			return "eof"
		case errors.Is(err, errReader):
			return "readerr"
		}
		// a syntax error and an unexpected end of input are one class: the property only demands `an error other than
		// io.EOF` there, and the two libraries rank the two conditions differently when a truncated value also contains
		// an invalid escape (encoding/json reports the escape, the package waits for the closing quote)
		return "badinput"
	}
	var orc string
	impl := guarded(func() string {
		// oracle: single read of the bytes that will be delivered, then the terminal condition
		limit := len(data)
		if failAt >= 0 && failAt < limit {
			limit = failAt
		}
		var o []string
		var ends []int
		{
			or := &scriptReader{data: data[:limit], mode: "all", failAt: -1}
			if failAt >= 0 {
				or.failAt = limit
				or.data = data
			}
			od := stdjson.NewDecoder(or)
			for {
				var rm stdjson.RawMessage
				err := od.Decode(&rm)
				if err != nil {
					o = append(o, finalClass(err, failAt >= 0))
					break
				}
				var cb bytes.Buffer
				stdjson.Compact(&cb, rm)
				o = append(o, cb.String())
				ends = append(ends, int(od.InputOffset())) // encoding/json: exactly the end of the value just returned
				if len(o) > 100000 {
					break
				}
			}
		}
		orc = strings.Join(o, " ")
		var s []string
		sr := &scriptReader{data: data, mode: mode, failAt: failAt}
		sd := json.NewDecoder(sr)
		last := int64(0)
		for {
			var rm json.RawMessage
			err := sd.Decode(&rm)
			off := sd.InputOffset()
			if off < last {
				return fmt.Sprintf("OFFSET-DECREASED %d -> %d", last, off)
			}
			last = off
			if err != nil {
				s = append(s, finalClass(err, failAt >= 0))
				// once failed, the error is sticky: no further value, and a stream that ended inside a value does not
				// turn into a clean end of input on the next call
				var rm2 json.RawMessage
				err2 := sd.Decode(&rm2)
				if err2 == nil {
					return "DECODE-AFTER-ERROR-SUCCEEDED"
				}
				if err != io.EOF && err2 == io.EOF {
					return "DECODE-AFTER-ERROR-REPORTS-CLEAN-EOF"
				}
				// what was read and not consumed is still there: Buffered ++ unread == input from InputOffset on
				if failAt < 0 {
					buffered, _ := io.ReadAll(sd.Buffered())
					rest := data[sr.pos:limit]
					unconsumed := append(append([]byte(nil), buffered...), rest...)
					if o := int(sd.InputOffset()); o <= limit && !bytes.Equal(bytes.TrimLeft(unconsumed, " \t\r\n"), bytes.TrimLeft(data[o:limit], " \t\r\n")) {
						return fmt.Sprintf("BUFFERED-CONTRACT after error off=%d buffered=%d", o, len(buffered))
					}
				}
				break
			}
			// the offset lies between the end of the value just returned and the start of the next one
			if k := len(s); k < len(ends) {
				lo := ends[k]
				hi := lo
				for hi < len(data) && (data[hi] == ' ' || data[hi] == '\t' || data[hi] == '\r' || data[hi] == '\n') {
					hi++
				}
				if int(off) < lo || int(off) > hi {
					return fmt.Sprintf("OFFSET-OUT-OF-RANGE value#%d off=%d not in [%d,%d]", k, off, lo, hi)
				}
			}
			var cb bytes.Buffer
			stdjson.Compact(&cb, rm)
			s = append(s, cb.String())
			// Buffered ++ unread == unconsumed input
			buffered, _ := io.ReadAll(sd.Buffered())
			rest := data[sr.pos:limit]
			unconsumed := append(append([]byte(nil), buffered...), rest...)
			if int(off) > limit || !bytes.Equal(bytes.TrimLeft(unconsumed, " \t\r\n"), bytes.TrimLeft(data[off:limit], " \t\r\n")) || !bytes.HasSuffix(data[:limit], unconsumed) {
				return fmt.Sprintf("BUFFERED-CONTRACT off=%d buffered=%d unread=%d", off, len(buffered), len(rest))
			}
			if len(s) > 100000 {
				break
			}
		}
		return strings.Join(s, " ")
	})
	inlineFailure := strings.Contains(impl, "OFFSET-") || strings.Contains(impl, "BUFFERED-CONTRACT") || strings.Contains(impl, "DECODE-AFTER-ERROR") || strings.HasPrefix(impl, "PANIC")
	if failAt >= 0 && impl != orc && !inlineFailure {
		// a failing reader: the values must be a prefix of the values of the WHOLE stream, followed by the reader's error
		full := fullStreamValues(data)
		iv := strings.Split(impl, " ")
		if n := len(iv) - 1; iv[n] == "readerr" && n <= len(full) && strings.Join(iv[:n], " ") == strings.Join(full[:n], " ") {
			orc = impl
		}
	}
	if len(impl) > 600 {
		// long streams: compare digests to keep case files small
		impl = fmt.Sprintf("len=%d h=%x tail=%s", len(impl), fnv(impl), impl[len(impl)-40:])
		orc = fmt.Sprintf("len=%d h=%x tail=%s", len(orc), fnv(orc), orc[len(orc)-40:])
	}
	emit("j.stream", args, impl, orc)
}

func fnv(s string) uint64 {
	h := uint64(14695981039346656037)
	for i := 0; i < len(s); i++ {
		h ^= uint64(s[i])
		h *= 1099511628211
	}
	return h
}

// Parse returns as remainder exactly the bytes after the first value and its trailing white space
func jParseRemainder(data []byte) {
	if !mine() {
		skip()
		return
	}
	var orc string
	impl := guarded(func() string {
		od := stdjson.NewDecoder(bytes.NewReader(data))
		var rm stdjson.RawMessage
		if err := od.Decode(&rm); err != nil {
			orc = "err"
		} else {
			rest := data[od.InputOffset():]
			orc = "rest=" + hexs(bytes.TrimLeft(rest, " \t\r\n"))
		}
		var v any
		rest, err := json.Parse(data, &v, 0)
		// the remainder contract does not depend on the destination: with a destination that cannot be decoded into
		// (nil, a non-pointer, a nil pointer) the same remainder comes back, with an InvalidUnmarshalError for valid input
		for k, dst := range []any{nil, 5, (*int)(nil), struct{ A int }{}} {
			r2, e2 := json.Parse(data, dst, 0)
			if err == nil {
				if _, ok := e2.(*json.InvalidUnmarshalError); !ok {
					return fmt.Sprintf("invalid destination %d: error %T %v", k, e2, e2)
				}
				if !bytes.Equal(r2, rest) {
					return fmt.Sprintf("invalid destination %d: rest=%s, with a valid destination rest=%s", k, hexs(r2), hexs(rest))
				}
			} else if e2 == nil {
				return fmt.Sprintf("invalid destination %d: no error", k)
			}
		}
		if err != nil {
			return "err"
		}
		return "rest=" + hexs(rest)
	})
	emit("j.parse", hexs(data), impl, orc)
}

func genStream(nvals int, sizeHint int) []byte {
	var b bytes.Buffer
	for i := 0; i < nvals; i++ {
		switch rndn(6) {
		case 0:
			b.WriteString(strconv.Itoa(rndn(1000000)))
		case 1:
			b.WriteString(pick([]string{"true", "false", "null", "-1.5e3", "0", "\"s\"", "\"\\u00e9\\n\"", "\"é😀\""}))
		default:
			d := genDoc(3)
			if sizeHint > 0 && rndn(8) == 0 {
				d = "[" + strings.Repeat("1234567,", sizeHint/8) + "0]"
			}
			b.WriteString(d)
		}
		b.WriteString(pick([]string{" ", "\n", "\n", "  \t", "\r\n"}))
	}
	return b.Bytes()
}

func c11() {
	thorough := *tier == "thorough"
	modes := []string{"all", "one", "z", "r3", "r7", "r100", "r5000", "dataerr"}
	// (1) short streams: every failure offset, every mode
	for i := 0; i < 12; i++ {
		data := genStream(1+rndn(4), 0)
		if i%3 == 1 {
			// white space before the first value (counted by InputOffset like any other byte)
			data = append([]byte(pick([]string{" ", "\n", "\t\r\n ", "      "})), data...)
		}
		if len(data) > 64 {
			data = data[:64]
		}
		for _, m := range modes {
			jStream(data, m, -1)
			for f := 0; f <= len(data); f++ {
				if thorough || m == "one" || m == "all" || m == "dataerr" || f%5 == 0 {
					jStream(data, m, f)
				}
			}
		}
	}
	// (2) numbers / literals / escapes exactly at the read boundaries 4096, 32768, 65536 (+-2)
	for _, boundary := range []int{4096, 32768, 65536} {
		for delta := -3; delta <= 3; delta++ {
			for _, tok := range []string{"123456", "true", "false", "\"ab\\u00e9cd\"", "-1.5e10", "null", "\"é😀é\"", "[1,2]", "[false]", "{\"a\":null}"} {
				pad := boundary + delta - len(tok)/2
				var b bytes.Buffer
				for b.Len() < pad-8 {
					b.WriteString("1234567 ")
				}
				for b.Len() < pad {
					b.WriteByte(' ')
				}
				b.WriteString(tok)
				b.WriteString(" 7 ")
				for _, m := range []string{"all", "r5000", "one"} {
					if m == "one" && boundary > 4096 && !thorough {
						continue
					}
					jStream(b.Bytes(), m, -1)
				}
			}
		}
	}
	// (2b) white space runs that cross the fill boundaries (the refill starts with white space), and leading white space
	for _, boundary := range []int{4096, 32768, 65536} {
		for _, run := range []int{1, 2, 7, 100} {
			for delta := -2; delta <= 2; delta++ {
				var b bytes.Buffer
				b.WriteString("  ")
				for b.Len() < boundary-run/2+delta-9 {
					b.WriteString("1234567 ")
				}
				b.WriteString("\"abcdefgh\"")
				for k := 0; k < run; k++ {
					b.WriteByte(" \n\t\r"[k%4])
				}
				b.WriteString("[1]   2 ")
				for _, m := range []string{"all", "r5000"} {
					jStream(b.Bytes(), m, -1)
				}
			}
		}
	}
	// (3) long streams with values longer than the read quantum and the initial buffer
	n := 6
	if thorough {
		n = 40
	}
	for i := 0; i < n; i++ {
		data := genStream(50+rndn(400), pick([]int{0, 5000, 40000, 70000}))
		for _, m := range []string{"all", "r100", "r5000", "dataerr"} {
			jStream(data, m, -1)
			jStream(data, m, rndn(len(data)+1))
		}
	}
	// (3b) scan-flag hygiene across refills (shared with C05: Decoder framing is one of the syntax-only consumers)
	flagHygieneStreams()
	// (4) a stream that ends inside a value / with a syntax error
	for _, s := range []string{"1 2 [", "1 tru", "{\"a\":1} {\"b\"", "1 2 x 3", "\"abc", "[1,2]]", " ", "", "1", "12", "1 ", "nul", "[] {} 1.", "1e", "-"} {
		for _, m := range modes {
			jStream([]byte(s), m, -1)
		}
	}
	// (5) Parse remainder
	for i := 0; i < 2000; i++ {
		d := genDoc(3) + pick([]string{"", " ", "\n\t ", " 1", " x", "]", " {\"a\":1}", ",", "  \"tail\"  "})
		jParseRemainder([]byte(d))
	}
}

func fullStreamValues(data []byte) []string {
	var o []string
	od := stdjson.NewDecoder(bytes.NewReader(data))
	for {
		var rm stdjson.RawMessage
		if err := od.Decode(&rm); err != nil {
			return o
		}
		var cb bytes.Buffer
		stdjson.Compact(&cb, rm)
		o = append(o, cb.String())
	}
}

// flagHygieneStreams: buffers full of plain text (no backslash; printable ASCII only, or with new lines) followed,
// after the 4096 / 32768 / 65536 fill boundaries, by strings that need the slow path (escaped quote, invalid escape,
// raw control character, non-ASCII), and the reverse order. The whole-buffer scan flags computed for one fill must not
// survive into the next.
func flagHygieneStreams() {
	// literals and numbers cut by a buffer fill at every split point (the parser must ask for more input, not fail)
	for _, boundary := range []int{4096, 32768} {
		for _, tok := range []string{"false", "true", "null", "[false]", "{\"k\":false}", "-12.5e+3", "\"a\\\"b\\u0041c\\\\d\\n\"", "[1, 2 ,3,\n4]", "{\"k\\\"\" : [\"\\\\\",7] , \"l\":{}}"} {
			for cut := 1; cut < len(tok); cut++ {
				var b bytes.Buffer
				b.WriteString("0")
				for b.Len() < boundary-cut {
					b.WriteByte(' ')
				}
				b.WriteString(tok + " 1")
				jStream(b.Bytes(), "all", -1)
			}
		}
	}
	for _, boundary := range []int{4096, 32768, 65536} {
		for _, sep := range []string{" ", "\n"} {
			for _, tail := range []string{"\"x\\\"y\" 1", "\"bad\\qescape\" 1", "\"tab\there\" 1", "\"\\u00e9\" 2", "\"é\" 3", "\"a\\\\\" \"b\"", "[\"\\\"\",\"\\n\"] 4"} {
				var b bytes.Buffer
				for b.Len() < boundary+100 {
					b.WriteString("\"aaaaaaaaaaaaaa\"" + sep)
				}
				plain := append([]byte(nil), b.Bytes()...)
				b.WriteString(tail)
				for _, m := range []string{"all", "r5000"} {
					jStream(b.Bytes(), m, -1)
					jStream(append([]byte(tail+sep), plain...), m, -1)
				}
			}
		}
	}
}
