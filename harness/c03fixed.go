//go:build verif

package main

import (
	"bytes"
	"fmt"
	"io"
	"reflect"
	"runtime"

	"github.com/segmentio/encoding/proto"
)

// Shapes reflect.StructOf cannot build: unexported fields between exported ones. Field numbers come from the
// declaration order of the EXPORTED fields only (proto.TypeOf documents it; .proto equivalent: A=1, B=2, C=3), so the
// encoding must equal that of the struct without the unexported fields.
type pUnexp struct {
	A     int64
	hits  int
	B     string
	cache []byte
	C     uint32
	done  bool
}
type pUnexpFlat struct {
	A int64
	B string
	C uint32
}
type pUnexpFirst struct {
	mu struct{ a, b int }
	X  []string
	y  *int
	Z  map[string]int32
}
type pUnexpFirstFlat struct {
	X []string
	Z map[string]int32
}

func pUnexported(seed uint64) {
	if !mine() {
		skip()
		return
	}
	args := fmt.Sprint(seed)
	trace("p.unexp", args)
	r := &vrng{s: seed}
	a := pUnexp{A: int64(r.next()) >> uint(r.n(64)), hits: 3, B: r.str(), cache: []byte("x"), C: uint32(r.next()), done: true}
	af := pUnexpFlat{a.A, a.B, a.C}
	b := pUnexpFirst{X: []string{r.str(), r.str()}, Z: map[string]int32{r.str(): int32(r.next())}}
	b.mu.a = 7
	bf := pUnexpFirstFlat{b.X, b.Z}
	want1, _ := proto.Marshal(&af)
	want2, _ := proto.Marshal(&bf)
	impl := guarded(func() string {
		g1, err1 := proto.Marshal(&a)
		g2, err2 := proto.Marshal(&b)
		if err1 != nil || err2 != nil {
			return "err:marshal"
		}
		var a2 pUnexp
		var b2 pUnexpFirst
		if err := proto.Unmarshal(want1, &a2); err != nil || a2.A != a.A || a2.B != a.B || a2.C != a.C {
			return hexs(g1) + " " + hexs(g2) + " flat-bytes-decode-differently(1)"
		}
		if err := proto.Unmarshal(want2, &b2); err != nil || !reflect.DeepEqual(b2.X, b.X) || !reflect.DeepEqual(b2.Z, b.Z) {
			return hexs(g1) + " " + hexs(g2) + " flat-bytes-decode-differently(2)"
		}
		return hexs(g1) + " " + hexs(g2) + " ok"
	})
	emit("p.unexp", args, impl, hexs(want1)+" "+hexs(want2)+" ok")
}

// pTopLevelTo: MarshalTo of top-level NON-struct values (bytes, byte arrays, strings, integers, pointers to them) into
// every destination length 0..Size+1: io.ErrShortBuffer exactly below Size, the encoding otherwise, nothing written
// beyond len(b) (the struct window checks of the encoder do not protect top-level scalars)
func pTopLevelTo(seed uint64) {
	r := &vrng{s: seed}
	bs := []byte(r.str() + r.str())
	long := bytes.Repeat([]byte{0xAB}, 130+r.n(80))
	arr := [16]byte{}
	for i := range arr {
		arr[i] = byte(r.next())
	}
	s := r.str()
	u := r.next()
	i32 := int32(r.next())
	fl, tr, zs, zu := false, true, "", uint64(0)
	pfl := &fl
	vals := []any{bs, &bs, long, arr, &arr, s, &s, u, &u, i32, uint32(u), float64(u), true,
		false, &fl, &tr, &pfl, &zs, &zu, "", "x", namedStr(s), namedBool(false), &[]namedBool{false}[0]} // explicit zero values behind pointers have Size 1 or 2
	// gogoproto-style custom messages (Size / MarshalTo / Unmarshal), top-level and nested: the user's MarshalTo is
	// never handed a destination shorter than its Size()
	cm := &CustomMsg{Data: append([]byte(nil), bs...)}
	vals = append(vals, cm, &CustomMsg{}, &CustomMsg{Data: long},
		&customHolder{A: i32, C: CustomMsg{Data: []byte(s)}, D: &CustomMsg{Data: append([]byte(nil), bs...)}, E: u},
		&customHolder{C: CustomMsg{Data: long}})
	// values implementing proto.Message (RawMessage, a user type with Size/Marshal/Unmarshal), and pointers to them:
	// written as they are at top level, never with the length prefix of the nested form
	raw := proto.RawMessage(append([]byte{0x08, 0x96, 0x01, 0x12, 0x02}, "hi"...))
	rawLong := proto.RawMessage(bytes.Repeat([]byte{0x08, 0x01}, 100))
	vals = append(vals, raw, &raw, proto.RawMessage{}, rawLong, &userMsg{N: u | 1, S: s}, &userMsg{})
	customShort = ""
	for k, v := range vals {
		if !mine() {
			skip()
			continue
		}
		args := fmt.Sprintf("%d %d", seed, k)
		trace("p.topto", args)
		impl := guarded(func() string {
			size := proto.Size(v)
			full, err := proto.Marshal(v)
			if err != nil || len(full) != size {
				return fmt.Sprintf("size=%d marshal-len=%d err=%v", size, len(full), err)
			}
			for l := 0; l <= size+1; l++ {
				const guard = 8
				buf := bytes.Repeat([]byte{0xEE}, l+guard)
				n, err := proto.MarshalTo(buf[:l:l+guard], v)
				for _, g := range buf[l:] {
					if g != 0xEE {
						return fmt.Sprintf("WROTE-BEYOND-LEN at l=%d", l)
					}
				}
				if customShort != "" {
					return fmt.Sprintf("l=%d size=%d: %s", l, size, customShort)
				}
				switch {
				case l < size && err != io.ErrShortBuffer && !isShort(err):
					return fmt.Sprintf("l=%d<size=%d n=%d err=%v", l, size, n, err)
				case l >= size && (err != nil || n != size || !bytes.Equal(buf[:n], full)):
					return fmt.Sprintf("l=%d>=size=%d n=%d err=%v", l, size, n, err)
				}
			}
			return "ok"
		})
		emit("p.topto", args, impl, "ok")
	}
}

// CustomMsg is a gogoproto-style custom message; like generated code it relies on the caller for the space check
type CustomMsg struct{ Data []byte }

var customShort string

func (m *CustomMsg) Size() int { return 1 + len(m.Data) }
func (m *CustomMsg) MarshalTo(b []byte) (int, error) {
	if len(b) < m.Size() {
		customShort = fmt.Sprintf("custom MarshalTo handed %d bytes for Size %d", len(b), m.Size())
		return 0, fmt.Errorf("custom: destination too small")
	}
	b[0] = 0xC5
	copy(b[1:], m.Data)
	return m.Size(), nil
}
func (m *CustomMsg) Unmarshal(b []byte) error {
	if len(b) == 0 || b[0] != 0xC5 {
		return fmt.Errorf("custom: bad input")
	}
	m.Data = append([]byte(nil), b[1:]...)
	return nil
}

// userMsg implements proto.Message (Size / Marshal / Unmarshal) by hand: field 1 varint, field 2 bytes
type userMsg struct {
	N uint64
	S string
}

func (m *userMsg) enc() []byte {
	if m.N == 0 && m.S == "" {
		return nil
	}
	b := []byte{0x08}
	for u := m.N; ; u >>= 7 {
		if u < 0x80 {
			b = append(b, byte(u))
			break
		}
		b = append(b, byte(u)|0x80)
	}
	b = append(b, 0x12, byte(len(m.S)))
	return append(b, m.S...)
}
func (m *userMsg) Size() int { return len(m.enc()) }
func (m *userMsg) Marshal(b []byte) error {
	if len(b) != m.Size() {
		customShort = fmt.Sprintf("user Marshal handed %d bytes for Size %d", len(b), m.Size())
		return fmt.Errorf("userMsg: wrong destination size")
	}
	copy(b, m.enc())
	return nil
}
func (m *userMsg) Unmarshal(b []byte) error { return nil }

type customHolder struct {
	A int32      `protobuf:"varint,1,opt,name=a"`
	C CustomMsg  `protobuf:"bytes,2,opt,name=c"`
	D *CustomMsg `protobuf:"bytes,3,opt,name=d"`
	E uint64     `protobuf:"fixed64,4,opt,name=e"`
}

type namedStr string
type namedBool bool

func isShort(err error) bool {
	return err != nil && (err == io.ErrShortBuffer || bytes.Contains([]byte(err.Error()), []byte("short buffer")))
}

// pCustom: gogoproto-style custom messages nested in a struct (value field, pointer field, followed by another
// field). C03 (wire == false): Size agrees with Marshal and the round trip restores every byte the user's MarshalTo
// wrote. C12 (wire == true): the bytes are tag, length, the user's bytes. The package writes TWO length prefixes (the
// struct encoder's and the custom codec's own): recorded deviation dblprefix, reproduced so that any other
// difference is still reported.
func pCustom(seed uint64, wire bool) {
	if !mine() {
		skip()
		return
	}
	r := &vrng{s: seed}
	args := fmt.Sprint(seed)
	fn := "p.custom"
	if wire {
		fn = "p.customwire"
	}
	trace(fn, args)
	d1 := []byte(r.str() + "\x01")
	d2 := bytes.Repeat([]byte{0xFF}, 1+r.n(200))
	h := &customHolder{A: int32(r.n(1000)) + 1, C: CustomMsg{Data: d1}, D: &CustomMsg{Data: d2}, E: r.next() | 1}
	build := func(dbl bool) []byte {
		var want []byte
		want = append(want, 0x08)
		want = appendUvarint(want, uint64(h.A))
		for i, d := range [][]byte{d1, d2} {
			want = append(want, []byte{0x12, 0x1a}[i])
			if dbl {
				inner := appendUvarint(nil, uint64(1+len(d)))
				want = appendUvarint(want, uint64(len(inner)+1+len(d)))
			}
			want = appendUvarint(want, uint64(1+len(d)))
			want = append(append(want, 0xC5), d...)
		}
		want = append(want, 0x21)
		for i := 0; i < 8; i++ {
			want = append(want, byte(h.E>>(8*i)))
		}
		return want
	}
	var got []byte
	impl := guarded(func() string {
		customShort = ""
		b, err := proto.Marshal(h)
		if err != nil {
			return "err:marshal " + customShort
		}
		got = b
		if n := proto.Size(h); n != len(b) {
			return fmt.Sprintf("size=%d len=%d", n, len(b))
		}
		var back customHolder
		if err := proto.Unmarshal(b, &back); err != nil {
			return "rt=err"
		}
		if back.A != h.A || !bytes.Equal(back.C.Data, d1) || back.D == nil || !bytes.Equal(back.D.Data, d2) || back.E != h.E {
			return "rt=DIFFERENT"
		}
		return "rt=ok"
	})
	if !wire {
		emit(fn, args, impl, "rt=ok")
		return
	}
	spec := hexs(build(false))
	orc := spec
	if hexs(got) != spec && bytes.Equal(got, build(true)) {
		orc = "spec=" + spec + " known-deviations=dblprefix"
	}
	if impl == "rt=ok" {
		impl = hexs(got)
	}
	emit(fn, args, impl, orc)
}

// pBigField (C12): field numbers of 65536 and more are legal protobuf (up to 2^29-1). The struct codec keeps field
// numbers in 16 bits: recorded deviation field16 (F48), reproduced so that any other difference is still reported.
type bigFieldMsg struct {
	A int32  `protobuf:"varint,1,opt,name=a"`
	B int32  `protobuf:"varint,70000,opt,name=b"`
	C string `protobuf:"bytes,65540,opt,name=c"`
	D uint64 `protobuf:"fixed64,536870911,opt,name=d"`
}

func pBigField(seed uint64) {
	if !mine() {
		skip()
		return
	}
	r := &vrng{s: seed}
	args := fmt.Sprint(seed)
	trace("p.bigfield", args)
	m := &bigFieldMsg{A: int32(r.n(100)) + 1, B: int32(r.n(1000)) + 1, C: "c" + r.str(), D: r.next() | 1}
	build := func(mask uint64) []byte {
		var b []byte
		b = appendUvarint(b, 1<<3)
		b = appendUvarint(b, uint64(m.A))
		// the package writes the fields in declaration order; so does the reference for ascending numbers
		b = appendUvarint(b, (70000&mask)<<3)
		b = appendUvarint(b, uint64(m.B))
		b = appendUvarint(b, (65540&mask)<<3|2)
		b = appendUvarint(b, uint64(len(m.C)))
		b = append(b, m.C...)
		b = appendUvarint(b, (536870911&mask)<<3|1)
		for i := 0; i < 8; i++ {
			b = append(b, byte(m.D>>(8*i)))
		}
		return b
	}
	var got []byte
	impl := guarded(func() string {
		b, err := proto.Marshal(m)
		if err != nil {
			return "err:marshal"
		}
		got = b
		var back bigFieldMsg
		if err := proto.Unmarshal(b, &back); err != nil || back != *m {
			return hexs(b) + " rt=DIFFERENT"
		}
		return hexs(b)
	})
	spec := hexs(build(^uint64(0)))
	orc := spec
	if impl != spec && bytes.Equal(got, build(0xFFFF)) && impl == hexs(got) {
		orc = "spec=" + spec + " known-deviations=field16"
	}
	emit("p.bigfield", args, impl, orc)
}

func appendUvarint(b []byte, u uint64) []byte {
	for u >= 0x80 {
		b = append(b, byte(u)|0x80)
		u >>= 7
	}
	return append(b, byte(u))
}

// pBigStruct: message types whose Go struct is larger than 64 KiB, with fields at offsets of 65536 and more: the
// encoding is that of the equivalent struct holding the array as a byte slice, and the round trip restores every field
type bigA struct {
	Blob [65536]byte
	N    int64
	U    uint32
	F    float64
}
type bigAFlat struct {
	Blob []byte
	N    int64
	U    uint32
	F    float64
}
type bigB struct {
	ID    int
	Pad   [70000]byte
	Inner struct {
		A int
		B int32
	}
	Count uint64
	Tail  string
}
type bigBFlat struct {
	ID    int
	Pad   []byte
	Inner struct {
		A int
		B int32
	}
	Count uint64
	Tail  string
}

func pBigStruct(seed uint64) {
	if !mine() {
		skip()
		return
	}
	args := fmt.Sprint(seed)
	trace("p.big", args)
	r := &vrng{s: seed}
	a := &bigA{N: int64(r.next()), U: uint32(r.next()), F: float64(r.n(1000)) / 8}
	b := &bigB{ID: r.n(1000) + 1, Count: r.next(), Tail: r.str()}
	b.Inner.A, b.Inner.B = r.n(100000), int32(r.next())
	if seed%2 == 0 { // non-zero array content at a few places, incl. where a wrapped offset would land
		for _, i := range []int{0, 1, 7, 8, 15, 16, 23, 24, 4463, 4464, 4472, 65535} {
			a.Blob[i] = byte(r.next()) | 1
			b.Pad[i] = byte(r.next()) | 1
		}
		b.Pad[69999] = 9
	}
	var wantA, wantB []byte
	impl := guarded(func() string {
		fa := &bigAFlat{N: a.N, U: a.U, F: a.F}
		fb := &bigBFlat{ID: b.ID, Inner: b.Inner, Count: b.Count, Tail: b.Tail}
		if seed%2 == 0 {
			fa.Blob, fb.Pad = a.Blob[:], b.Pad[:]
		}
		wantA, _ = proto.Marshal(fa)
		wantB, _ = proto.Marshal(fb)
		ga, err1 := proto.Marshal(a)
		gb, err2 := proto.Marshal(b)
		if err1 != nil || err2 != nil {
			return "err:marshal"
		}
		if proto.Size(a) != len(ga) || proto.Size(b) != len(gb) {
			return "size-differs-from-marshal"
		}
		var ra bigA
		var rb bigB
		if proto.Unmarshal(ga, &ra) != nil || proto.Unmarshal(gb, &rb) != nil {
			return "rt=err"
		}
		if ra != *a || rb != *b {
			return fmt.Sprintf("rt=DIFFERENT a:{%d %d %v} b:{%d %v %d %q}", ra.N, ra.U, ra.F, rb.ID, rb.Inner, rb.Count, rb.Tail)
		}
		if seed%2 != 0 {
			// all-zero array as FIRST field of a message passed by pointer: the package writes the zero value of the
			// first field (its way of giving a non-nil pointer a non-empty encoding), an array as 65536 zero bytes
			// and a nil slice as an empty one: no byte oracle for this message, the round trip decides
			wantA = ga
		}
		return fmt.Sprintf("a=%x b=%x rt=ok", fnv(string(ga)), fnv(string(gb)))
	})
	emit("p.big", args, impl, fmt.Sprintf("a=%x b=%x rt=ok", fnv(string(wantA)), fnv(string(wantB))))
}

func c03Fixed2(n int) {
	for i := 0; i < 6; i++ {
		pBigStruct(rnd())
	}
	for i := 0; i < n; i++ {
		pUnexported(rnd())
		pCustom(rnd(), false)
	}
	for k := 0; k < 8; k++ {
		pSeq(k)
	}
}

// length-prefix boundaries: a struct whose last field is an embedded message (by value, by pointer, with a one-byte
// and a two-byte tag) whose payload is 125..129 or 16381..16385 bytes, so that the payload, and the tag plus payload,
// cross the one/two-byte and two/three-byte varint boundaries at different sizes; MarshalTo into every destination
// length around Size
type mtoInner struct{ S string }
type mtoOuterV struct {
	A int
	M mtoInner
}
type mtoOuterP struct {
	A int64     `protobuf:"varint,1,opt,name=a"`
	M *mtoInner `protobuf:"bytes,17,opt,name=m"`
}
type mtoOuterOnly struct{ M mtoInner }
type mtoOuterNested struct {
	B bool
	O mtoOuterV
}

func pBoundaryTo() {
	for _, base := range []int{127, 16383} {
		for d := -6; d <= 3; d++ {
			n := base + d
			if !mine() {
				skip()
				continue
			}
			args := fmt.Sprint(n)
			trace("p.boundto", args)
			str := string(bytes.Repeat([]byte("s"), n))
			vals := []any{&mtoOuterV{A: 1, M: mtoInner{str}}, mtoOuterV{A: 300, M: mtoInner{str}}, &mtoOuterP{A: 1, M: &mtoInner{str}}, &mtoOuterOnly{mtoInner{str}},
				&mtoOuterNested{true, mtoOuterV{A: 1, M: mtoInner{str}}}}
			impl := guarded(func() string {
				for vi, v := range vals {
					size := proto.Size(v)
					full, err := proto.Marshal(v)
					if err != nil || len(full) != size {
						return fmt.Sprintf("value %d: size=%d marshal-len=%d err=%v", vi, size, len(full), err)
					}
					lo := size - 140
					if lo < 0 {
						lo = 0
					}
					for l := lo; l <= size+2; l++ {
						const guard = 8
						buf := bytes.Repeat([]byte{0xEE}, l+guard)
						k, err := proto.MarshalTo(buf[:l:l+guard], v)
						for _, g := range buf[l:] {
							if g != 0xEE {
								return fmt.Sprintf("value %d: WROTE-BEYOND-LEN at l=%d", vi, l)
							}
						}
						switch {
						case l < size && !isShort(err):
							return fmt.Sprintf("value %d: l=%d<size=%d n=%d err=%v", vi, l, size, k, err)
						case l >= size && (err != nil || k != size || !bytes.Equal(buf[:k], full)):
							return fmt.Sprintf("value %d: l=%d>=size=%d n=%d err=%v", vi, l, size, k, err)
						}
					}
				}
				return "ok"
			})
			emit("p.boundto", args, impl, "ok")
		}
	}
}

func c16TopLevel(n int) {
	pBoundaryTo()
	for i := 0; i < n; i++ {
		pTopLevelTo(rnd())
	}
}

// pSeq: a FAILED Unmarshal followed by a round trip of another value of the same type: the scratch key/value struct
// of the map decoder goes back to its pool on the error path and must not carry the rejected entry into the next decode
type pSeqT struct {
	A int
	B string
	C []byte
}
type pSeqM struct{ M map[string]pSeqT }
type pSeqMP struct{ M map[string]*pSeqT }

func pSeq(k int) {
	if !mine() {
		skip()
		return
	}
	args := fmt.Sprint(k)
	trace("p.seq", args)
	inner := append([]byte{0x08, 0x07, 0x12, 0x05}, "stale"...)
	inner = append(inner, 0x1a, 0x7f) // field C announces 127 bytes that are not there
	entry := append([]byte{0x0a, 0x01, 'x', 0x12, byte(len(inner))}, inner...)
	bad := append([]byte{0x0a, byte(len(entry))}, entry...)
	impl := guarded(func() string {
		for round := 0; round < 40; round++ {
			var m1 pSeqM
			var m2 pSeqMP
			if proto.Unmarshal(bad, &m1) == nil || proto.Unmarshal(bad, &m2) == nil {
				return "BAD-MESSAGE-ACCEPTED"
			}
			v1 := pSeqM{M: map[string]pSeqT{"a": {A: 1 + k}}}
			b1, err := proto.Marshal(&v1)
			if err != nil {
				return "err:marshal"
			}
			var r1 pSeqM
			if err := proto.Unmarshal(b1, &r1); err != nil || !reflect.DeepEqual(r1.M["a"], v1.M["a"]) {
				return fmt.Sprintf("round %d: map[string]T came back as %+v, want %+v (err %v)", round, r1.M["a"], v1.M["a"], err)
			}
			v2 := pSeqMP{M: map[string]*pSeqT{"a": {A: 2 + k}, "n": nil}}
			b2, _ := proto.Marshal(&v2)
			var r2 pSeqMP
			if err := proto.Unmarshal(b2, &r2); err != nil || r2.M["a"] == nil || !reflect.DeepEqual(*r2.M["a"], *v2.M["a"]) {
				return fmt.Sprintf("round %d: map[string]*T came back wrong (err %v)", round, err)
			}
		}
		return "ok"
	})
	emit("p.seq", args, impl, "ok")
}

// pAlloc: memory allocated by Unmarshal stays within a constant factor of the input length (repeated fields grow
// geometrically): a long repeated field of varints / of small messages
type pAllocV struct{ V []uint64 }
type pAllocM struct{ M []struct{ A int32 } }

func pAlloc(kind, n int) {
	if !mine() {
		skip()
		return
	}
	args := fmt.Sprintf("%d %d", kind, n)
	trace("p.alloc", args)
	impl := guarded(func() string {
		var b []byte
		var err error
		if kind == 0 {
			v := pAllocV{V: make([]uint64, n)}
			for i := range v.V {
				v.V[i] = uint64(300 + i%1000)
			}
			b, err = proto.Marshal(&v)
		} else {
			v := pAllocM{M: make([]struct{ A int32 }, n)}
			for i := range v.M {
				v.M[i].A = int32(1 + i%100)
			}
			b, err = proto.Marshal(&v)
		}
		if err != nil {
			return "err:marshal"
		}
		var ms0, ms1 runtime.MemStats
		runtime.GC()
		runtime.ReadMemStats(&ms0)
		if kind == 0 {
			var r pAllocV
			err = proto.Unmarshal(b, &r)
			if err == nil && len(r.V) != n {
				return "WRONG-LENGTH"
			}
		} else {
			var r pAllocM
			err = proto.Unmarshal(b, &r)
			if err == nil && len(r.M) != n {
				return "WRONG-LENGTH"
			}
		}
		runtime.ReadMemStats(&ms1)
		if err != nil {
			return "err:unmarshal"
		}
		if delta := ms1.TotalAlloc - ms0.TotalAlloc; delta > 64*uint64(len(b))+1<<16 {
			return fmt.Sprintf("ALLOCATED %d bytes for an input of %d bytes (factor %d)", delta, len(b), delta/uint64(len(b)))
		}
		return "ok"
	})
	emit("p.alloc", args, impl, "ok")
}

func c07Alloc() {
	for _, n := range []int{1000, 10000, 30000} {
		pAlloc(0, n)
		pAlloc(1, n)
	}
}
