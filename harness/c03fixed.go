//go:build verif

package main

import (
	"bytes"
	"fmt"
	"io"
	"reflect"

	"github.com/segmentio/encoding/proto"
)

// Shapes reflect.StructOf cannot build: unexported fields between exported ones. Field numbers come from the
// declaration order of the EXPORTED fields only (proto.TypeOf documents it; .proto equivalent: A=1, B=2, C=3), so the
// encoding must equal that of the struct without the unexported fields.
type pUnexp struct {
	A     int64
	hits  int
	B     string
	cache []byte
	C     uint32
	done  bool
}
type pUnexpFlat struct {
	A int64
	B string
	C uint32
}
type pUnexpFirst struct {
	mu struct{ a, b int }
	X  []string
	y  *int
	Z  map[string]int32
}
type pUnexpFirstFlat struct {
	X []string
	Z map[string]int32
}

func pUnexported(seed uint64) {
	if !mine() {
		skip()
		return
	}
	args := fmt.Sprint(seed)
	trace("p.unexp", args)
	r := &vrng{s: seed}
	a := pUnexp{A: int64(r.next()) >> uint(r.n(64)), hits: 3, B: r.str(), cache: []byte("x"), C: uint32(r.next()), done: true}
	af := pUnexpFlat{a.A, a.B, a.C}
	b := pUnexpFirst{X: []string{r.str(), r.str()}, Z: map[string]int32{r.str(): int32(r.next())}}
	b.mu.a = 7
	bf := pUnexpFirstFlat{b.X, b.Z}
	want1, _ := proto.Marshal(&af)
	want2, _ := proto.Marshal(&bf)
	impl := guarded(func() string {
		g1, err1 := proto.Marshal(&a)
		g2, err2 := proto.Marshal(&b)
		if err1 != nil || err2 != nil {
			return "err:marshal"
		}
		var a2 pUnexp
		var b2 pUnexpFirst
		if err := proto.Unmarshal(want1, &a2); err != nil || a2.A != a.A || a2.B != a.B || a2.C != a.C {
			return hexs(g1) + " " + hexs(g2) + " flat-bytes-decode-differently(1)"
		}
		if err := proto.Unmarshal(want2, &b2); err != nil || !reflect.DeepEqual(b2.X, b.X) || !reflect.DeepEqual(b2.Z, b.Z) {
			return hexs(g1) + " " + hexs(g2) + " flat-bytes-decode-differently(2)"
		}
		return hexs(g1) + " " + hexs(g2) + " ok"
	})
	emit("p.unexp", args, impl, hexs(want1)+" "+hexs(want2)+" ok")
}

// pTopLevelTo: MarshalTo of top-level NON-struct values (bytes, byte arrays, strings, integers, pointers to them) into
// every destination length 0..Size+1: io.ErrShortBuffer exactly below Size, the encoding otherwise, nothing written
// beyond len(b) (the struct window checks of the encoder do not protect top-level scalars)
func pTopLevelTo(seed uint64) {
	r := &vrng{s: seed}
	bs := []byte(r.str() + r.str())
	long := bytes.Repeat([]byte{0xAB}, 130+r.n(80))
	arr := [16]byte{}
	for i := range arr {
		arr[i] = byte(r.next())
	}
	s := r.str()
	u := r.next()
	i32 := int32(r.next())
	vals := []any{bs, &bs, long, arr, &arr, s, &s, u, &u, i32, uint32(u), float64(u), true}
	for k, v := range vals {
		if !mine() {
			skip()
			continue
		}
		args := fmt.Sprintf("%d %d", seed, k)
		trace("p.topto", args)
		impl := guarded(func() string {
			size := proto.Size(v)
			full, err := proto.Marshal(v)
			if err != nil || len(full) != size {
				return fmt.Sprintf("size=%d marshal-len=%d err=%v", size, len(full), err)
			}
			for l := 0; l <= size+1; l++ {
				const guard = 8
				buf := bytes.Repeat([]byte{0xEE}, l+guard)
				n, err := proto.MarshalTo(buf[:l:l+guard], v)
				for _, g := range buf[l:] {
					if g != 0xEE {
						return fmt.Sprintf("WROTE-BEYOND-LEN at l=%d", l)
					}
				}
				switch {
				case l < size && err != io.ErrShortBuffer && !isShort(err):
					return fmt.Sprintf("l=%d<size=%d n=%d err=%v", l, size, n, err)
				case l >= size && (err != nil || n != size || !bytes.Equal(buf[:n], full)):
					return fmt.Sprintf("l=%d>=size=%d n=%d err=%v", l, size, n, err)
				}
			}
			return "ok"
		})
		emit("p.topto", args, impl, "ok")
	}
}

func isShort(err error) bool {
	return err != nil && (err == io.ErrShortBuffer || bytes.Contains([]byte(err.Error()), []byte("short buffer")))
}

func c03Fixed2(n int) {
	for i := 0; i < n; i++ {
		pUnexported(rnd())
	}
}

func c16TopLevel(n int) {
	for i := 0; i < n; i++ {
		pTopLevelTo(rnd())
	}
}
