package main

import (
	"bytes"
	stdjson "encoding/json"
	"fmt"
	"reflect"
	"regexp"
	"sort"
	"strconv"
	"strings"
	"unicode"

	"github.com/segmentio/encoding/json"
)

func init() {
	register("c02", c02)
	f := func(a []string) {
		p := strings.Split(strings.Join(a, " "), "|")
		cfg, _ := strconv.Atoi(p[1])
		var docs [][]byte
		for _, h := range p[2:] {
			docs = append(docs, unhex(h))
		}
		jUnmarshal(parseSx(p[0]), cfg, docs)
	}
	for _, sfx := range []string{"", ".nc", ".epo", ".tk", ".pp", ".num", ".qnum", ".qfloat"} {
		replayers["j.unmarshal"+sfx] = f
	}
}

// jUnmarshal decodes a SEQUENCE of documents into one variable (prior state!) with both libraries.
// cfg: 0 Unmarshal, 1 Parse(flags 0), 2.. Decoder with UseNumber (bit 0 of cfg-2) / DisallowUnknownFields (bit 1).
// Observable: per document "ok"/"err" and after each successful pair the std re-encoding of the target.
func jUnmarshal(t *sx, cfg int, docs [][]byte) {
	if !mine() {
		skip()
		return
	}
	var hs []string
	for _, d := range docs {
		hs = append(hs, hexs(d))
	}
	args := fmt.Sprintf("%s|%d|%s", sxString(t), cfg, strings.Join(hs, "|"))
	trace("j.unmarshal", args)
	rt := jType(t)
	sfx := classSuffix(rt)
	if sfx == ".tk" {
		sfx = "" // string-kind keys with UnmarshalText: the package and encoding/json agree on the decode side
	}
	fn := "j.unmarshal" + sfx
	if fn == "j.unmarshal" {
		ts := sxString(t)
		switch {
		case strings.Contains(ts, "(ptr (ptr") && docsContain(docs, "null"):
			fn += ".pp" // F31: null into a **T whose outer pointer is set
		case strings.Contains(ts, "Number") && hasQuotedJSONNumber(docs):
			fn += ".num" // F14: a quoted number decoded into a json.Number
		case strings.Contains(ts, "Number") && strings.Contains(ts, ",string") && hasQuotedNumberLike(docs):
			fn += ".qnum" // F45: a ,string Number whose quoted content starts like a number but is not one
		case strings.Contains(ts, ",string") && (strings.Contains(ts, "f32") || strings.Contains(ts, "f64")) && hasQuotedNonJSONFloat(docs):
			fn += ".qfloat"
		}
	}
	run := func(seg bool) string {
		target := reflect.New(rt)
		var out []string
		for _, d := range docs {
			var err error
			switch {
			case cfg == 0 && seg:
				err = json.Unmarshal(d, target.Interface())
			case cfg == 0:
				err = stdjson.Unmarshal(d, target.Interface())
			case cfg == 1 && seg:
				var rest []byte
				rest, err = json.Parse(d, target.Interface(), 0)
				if err == nil && len(rest) != 0 {
					err = fmt.Errorf("trailing data")
				}
			case cfg == 1:
				err = stdjson.Unmarshal(d, target.Interface())
			case seg:
				dec := json.NewDecoder(bytes.NewReader(d))
				if (cfg-2)&1 != 0 {
					dec.UseNumber()
				}
				if (cfg-2)&2 != 0 {
					dec.DisallowUnknownFields()
				}
				err = dec.Decode(target.Interface())
			default:
				dec := stdjson.NewDecoder(bytes.NewReader(d))
				if (cfg-2)&1 != 0 {
					dec.UseNumber()
				}
				if (cfg-2)&2 != 0 {
					dec.DisallowUnknownFields()
				}
				err = dec.Decode(target.Interface())
			}
			if err != nil {
				out = append(out, "err")
				// whatever partial content is left is not part of the guarantee: restart from a fresh target for both
				target = reflect.New(rt)
				continue
			}
			out = append(out, "ok:"+deepString(target.Elem(), 0))
		}
		return strings.Join(out, " ")
	}
	var orc string
	impl := guarded(func() string {
		orc = run(false)
		return run(true)
	})
	emit(fn, args, impl, orc)
}

// deepString renders a value so that two renderings are equal iff the values are deeply equal
// (nil vs empty distinguished, pointer targets followed, interface dynamic types shown).
func deepString(v reflect.Value, depth int) string {
	if depth > 12 {
		return "..."
	}
	switch v.Kind() {
	case reflect.Ptr:
		if v.IsNil() {
			return "nil"
		}
		return "&" + deepString(v.Elem(), depth+1)
	case reflect.Interface:
		if v.IsNil() {
			return "nil"
		}
		return "<" + v.Elem().Type().String() + ">" + deepString(v.Elem(), depth+1)
	case reflect.Slice:
		if v.IsNil() {
			return "nil"
		}
		if v.Type().Elem().Kind() == reflect.Uint8 {
			return fmt.Sprintf("x%x", v.Bytes())
		}
		fallthrough
	case reflect.Array:
		var p []string
		for i := 0; i < v.Len(); i++ {
			p = append(p, deepString(v.Index(i), depth+1))
		}
		return "[" + strings.Join(p, ",") + "]"
	case reflect.Map:
		if v.IsNil() {
			return "nil"
		}
		var p []string
		it := v.MapRange()
		for it.Next() {
			p = append(p, deepString(it.Key(), depth+1)+":"+deepString(it.Value(), depth+1))
		}
		sortStrings(p)
		return "{" + strings.Join(p, ",") + "}"
	case reflect.Struct:
		if v.Type() == jNamed["Time"] {
			return fmt.Sprint(v.Interface())
		}
		var p []string
		for i := 0; i < v.NumField(); i++ {
			p = append(p, deepString(v.Field(i), depth+1))
		}
		return "(" + strings.Join(p, ",") + ")"
	case reflect.String:
		return strconv.Quote(v.String())
	case reflect.Float32, reflect.Float64:
		return strconv.FormatFloat(v.Float(), 'g', -1, 64)
	}
	return fmt.Sprint(v)
}

func sortStrings(p []string) {
	for i := 1; i < len(p); i++ {
		for j := i; j > 0 && p[j-1] > p[j]; j-- {
			p[j-1], p[j] = p[j], p[j-1]
		}
	}
}

// documents for a type: the std encoding of random values, plus mutations
func docsFor(t *sx, n int) [][]byte {
	var out [][]byte
	for i := 0; i < n; i++ {
		v := jValue(t, rnd(), 0)
		b, err := stdjson.Marshal(v.Interface())
		if err != nil {
			continue
		}
		out = append(out, b)
	}
	return out
}

var jScalarsDocs = []string{`null`, `true`, `false`, `0`, `-0`, `1`, `-1`, `127`, `128`, `255`, `256`, `-129`, `32768`, `65536`, `2147483648`, `4294967296`, `9223372036854775807`, `9223372036854775808`, `18446744073709551615`, `18446744073709551616`, `-9223372036854775808`, `-9223372036854775809`,
	`1.0`, `1.5`, `1e2`, `1E400`, `-1e-400`, `0.1e1`, `"str"`, `""`, `"1"`, `"1.5"`, `"null"`, `"true"`, `"é😀\ud800"`, `"aGVsbG8="`, `"not base64!"`, `[]`, `[1]`, `[1,2,3,4]`, `{}`, `{"a":1}`, `{"A":1,"a":2}`, `[null]`, `{"x":null}`, ` 1 `, `1 2`, `[1,]`, `{"a"}`, `tru`, ``, `"2021-03-25T21:36:12Z"`, `"2021-03-25T21:36:12.5+07:00"`, `"10m0s"`}

func mutateDoc(d []byte) []byte {
	m := append([]byte(nil), d...)
	if len(m) == 0 {
		return []byte(pick(jScalarsDocs))
	}
	switch rndn(7) {
	case 0: // replace a scalar-looking span by another scalar
		return bytes.Replace(m, []byte(pick([]string{"0", "1", "true", "null", "\"\"", "[]", "{}"})), []byte(pick(jScalarsDocs)), 1)
	case 1: // change the case of a key letter (ASCII), or of the whole document under Unicode case mapping / folding
		switch rndn(4) {
		case 0:
			return []byte(strings.ToUpper(string(m)))
		case 1:
			return []byte(strings.ToLower(string(m)))
		case 2: // next rune of each simple-folding orbit (K -> k -> Kelvin sign, s -> long s, ...), one rune in three
			var o []rune
			for _, r := range string(m) {
				if r >= 0x41 && rndn(3) == 0 {
					r = unicode.SimpleFold(r)
				}
				o = append(o, r)
			}
			return []byte(string(o))
		}
		for i := range m {
			if m[i] >= 'a' && m[i] <= 'z' && rndn(6) == 0 {
				m[i] -= 32
				break
			}
		}
		return m
	case 2: // add an unknown member / duplicate a member / a member whose key is a known key followed by NUL escapes
		if rndn(3) == 0 {
			if locs := keyRE.FindAllIndex(m, -1); len(locs) > 0 {
				l := locs[rndn(len(locs))]
				// "key": -> "key\u0000":  (an unknown key that differs from a field name only by trailing zero bytes)
				if rndBool() { // a prefix strconv accepts in an integer key but a JSON number does not allow
					pre := pick([]string{"0", "00", "+", "-", " "})
					return append(append(append([]byte(nil), m[:l[0]+1]...), pre...), m[l[0]+1:]...)
				}
				ins := pick([]string{`\u0000`, `\u0000\u0000`, ` `})
				return append(append(append([]byte(nil), m[:l[1]-2]...), ins...), m[l[1]-2:]...)
			}
		}
		if i := bytes.IndexByte(m, '{'); i >= 0 {
			ins := pick([]string{`"zzz":1,`, `"A":null,`, `"a":{"b":[1,2,{"c":null}]},`, `"X":"s",`, `"x":1,`})
			return append(append(append([]byte(nil), m[:i+1]...), ins...), bytes.TrimPrefix(m[i+1:], []byte(","))...)
		}
	case 3:
		p := rndn(len(m))
		return append(m[:p], m[p+1:]...)
	case 4:
		p := rndn(len(m))
		m[p] = pick([]byte(`{}[],:"0n `))
		return m
	case 5: // a string member value becomes null (a typed decoder that does nothing on null must not keep scratch state)
		if rndBool() {
			if locs := stringValueRE.FindAllIndex(m, -1); len(locs) > 0 {
				l := locs[rndn(len(locs))]
				return append(append(append([]byte(nil), m[:l[0]+1]...), "null"...), m[l[1]:]...)
			}
		}
		return []byte("[" + string(m) + "]")
	case 7: // wrap / unwrap
		return []byte("[" + string(m) + "]")
	case 6:
		// white space INSIDE the quotes of a string member value, at its end or start (the quoted scalars of ,string
		// fields: "true ", " 1.5", "12\t" are not what encoding/json accepts)
		if rndBool() {
			if locs := stringValueRE.FindAllIndex(m, -1); len(locs) > 0 {
				l := locs[rndn(len(locs))]
				ws := pick([]string{" ", "  ", `\t`, `\n`, `\r`, ` \r`})
				at := l[1] - 1
				if rndn(4) == 0 {
					at = l[0] + 2
				}
				return append(append(append([]byte(nil), m[:at]...), ws...), m[at:]...)
			}
		}
		return []byte(" \n" + string(m) + "\t ")
	}
	return m
}

// jPrepop: destinations populated by Go code before decoding, in ways no earlier decode can produce: interfaces
// holding typed nil pointers, non-nil pointers (decoded INTO, as encoding/json does), pointers to pointers
func jPrepop() {
	type T struct {
		A int
		B any
	}
	mk := []func() any{
		func() any { var x any = (*int)(nil); return &x },
		func() any { var x any = (*T)(nil); return &x },
		func() any { var x NamedAny = (*T)(nil); return &x },
		func() any { return &struct{ A, B any }{A: (*int)(nil), B: (*T)(nil)} },
		func() any { return &[]any{(*int)(nil), 1, (*T)(nil)} },
		func() any { return &map[string]any{"k": (*int)(nil), "A": (*T)(nil)} },
		func() any { n := 7; var x any = &n; return &x },
		func() any { var x any = &T{A: 1}; return &x },
		func() any { var x NamedAny = &T{A: 1, B: (*int)(nil)}; return &x },
		func() any { n := 7; pn := &n; var x any = &pn; return &x },
		func() any { var pn *int; var x any = &pn; return &x },
		func() any { return &T{B: &T{A: 2}} },
		func() any { var x any = map[string]any{"A": (*int)(nil)}; return &x },
	}
	docs := []string{`{"A":2,"extra":1}`, `{"A":1,"B":{"A":3,"nope":{}}}`, `{"k":{"zz":1}}`, `1`, `"s"`, `null`, `true`, `{"A":2}`, `{"A":2,"B":{"A":3}}`, `{"B":null}`, `[1]`, `[null,null,null]`, `{"k":5,"A":{"A":6}}`, `{"A":"x"}`, `1.5`, `[]`, `{}`}
	for i, m := range mk {
		for pd := 0; pd < 4*len(docs); pd++ {
			d, pass := docs[pd%len(docs)], pd/len(docs)
			if !mine() {
				skip()
				continue
			}
			args := fmt.Sprintf("%d %s %d", i, hexs([]byte(d)), pass)
			var orc string
			impl := guarded(func() string {
				a, b := m(), m()
				// plain Unmarshal, or Decoders with UseNumber / DisallowUnknownFields (the options reach the value
				// decoded through a pointer held in an interface too)
				var e1, e2 error
				if opt := (i + len(d) + pass) % 4; opt == 0 {
					e1, e2 = json.Unmarshal([]byte(d), a), stdjson.Unmarshal([]byte(d), b)
				} else {
					sd, od := json.NewDecoder(strings.NewReader(d)), stdjson.NewDecoder(strings.NewReader(d))
					if opt&1 != 0 {
						sd.UseNumber()
						od.UseNumber()
					}
					if opt&2 != 0 {
						sd.DisallowUnknownFields()
						od.DisallowUnknownFields()
					}
					e1, e2 = sd.Decode(a), od.Decode(b)
				}
				orc = "err"
				if e2 == nil {
					orc = "ok:" + deepString(reflect.ValueOf(b).Elem(), 0)
				}
				if e1 != nil {
					return "err"
				}
				return "ok:" + deepString(reflect.ValueOf(a).Elem(), 0)
			})
			emit("j.prepop", args, impl, orc)
		}
	}
}

func c02() {
	jPrepop()
	g := &jgen{maxDepth: 3, forDecode: true}
	nT := 400
	if *tier == "thorough" {
		nT = 4000
	}
	var types []*sx
	for _, s := range c01Fixed {
		types = append(types, parseSx(s))
	}
	for _, s := range []string{"bool", "i8", "u8", "i16", "u16", "i32", "u32", "i64", "u64", "int", "uint", "f32", "f64", "str", "bytes", "any", "Number", "Time", "(ptr int)", "(slice int)", "(arr 2 int)", "(arr 0 int)", "(map str int)", "(map int str)",
		"(struct (f A - int) (f B ,string int) (f C ,string str) (f D ,string bool) (f E ,string f64) (f F ,string (ptr int)))",
		"(struct (f Abc - int) (f ABC - int) (f Abc_ x int))", "(map str (slice str))", "(map str any)", "(slice any)", "(ptr (ptr str))", "(struct (f A - any) (f B - (ptr any)))",
		"(map str str)", "(struct (f M - (map str str)) (f N - (map str (slice str))))", "(slice (map str str))", "(map str bool)", "(map str RawMessage)",
		"(arr 3 int)", "(struct (f A - (arr 3 int)) (f B - (slice int)) (f C - (map str int)))", "(arr 2 (slice int))", "(slice (arr 2 str))", "(ptr (arr 3 i8))"} {
		types = append(types, parseSx(s))
	}
	for i := 0; i < nT; i++ {
		if rndn(3) == 0 {
			types = append(types, g.ty(0))
		} else {
			types = append(types, g.structTy(0))
		}
	}
	// ,string string fields: the content of the OUTER string is itself a JSON string; escapes of the outer string can
	// put control characters, quotes and backslashes into the inner one (valid only when the inner string escapes them)
	for _, inner := range []string{`tab\there`, `tab\\there`, `a\u0001b`, `a\\u0001b`, `ok`, `q\\\"uote`, `q\"uote`, `\u00e9`, `\\u00e9`, `nl\nx`, `nl\\nx`, `\u0022`, `bs\\`, `bs\\\\`, ``, ` `, `\u007f`} {
		for _, ty := range []string{"(struct (f C ,string str))", "(struct (f A - int) (f C ,string (ptr str)) (f Z - str))", "(map str (struct (f C x,string str)))"} {
			d := `{"C":"\"` + inner + `\""}`
			if strings.HasPrefix(ty, "(map") {
				d = `{"k":{"x":"\"` + inner + `\""}}`
			}
			jUnmarshal(parseSx(ty), rndn(6), [][]byte{[]byte(d)})
			jUnmarshal(parseSx(ty), 0, [][]byte{[]byte(" " + d + "\n")})
		}
	}
	// map[string][]string: lists of exactly 9..11, 19..21 and 40 strings (the scratch slice of the specialised decoder
	// starts at capacity 10 and doubles), followed by shorter ones, and a second document into the same map
	for _, n := range []int{9, 10, 11, 19, 20, 21, 40} {
		var el []string
		for i := 0; i < n; i++ {
			el = append(el, fmt.Sprintf(`"e%d"`, i))
		}
		big := "[" + strings.Join(el, ",") + "]"
		tm := parseSx("(map str (slice str))")
		for _, d := range []string{`{"first":` + big + `}`, `{"first":` + big + `,"second":["x","y"]}`, `{"a":["p"],"first":` + big + `,"z":[null],"zz":` + big + `}`} {
			jUnmarshal(tm, rndn(6), [][]byte{[]byte(d)})
			jUnmarshal(tm, 0, [][]byte{[]byte(d), []byte(`{"second":["q"]}`)})
			jUnmarshal(parseSx("(struct (f M - (map str (slice str))) (f N - int))"), rndn(6), [][]byte{[]byte(`{"M":` + d + `,"N":1}`)})
		}
	}
	for _, t := range types {
		valid := docsFor(t, 3)
		// single documents: valid ones, scalar probes, mutations
		for _, d := range valid {
			jUnmarshal(t, rndn(6), [][]byte{d})
			jUnmarshal(t, rndn(6), [][]byte{mutateDoc(d)})
		}
		for k := 0; k < 4; k++ {
			jUnmarshal(t, rndn(6), [][]byte{[]byte(pick(jScalarsDocs))})
		}
		// null is accepted for every type (also those that cannot be decoded otherwise: maps with unsupported key types)
		jUnmarshal(t, rndn(6), [][]byte{[]byte("null")})
		jUnmarshal(t, rndn(6), [][]byte{[]byte(" null ")})
		// each string member value replaced by null, one at a time (typed decoders that do nothing on null must not
		// carry scratch state from the previous member)
		if len(valid) > 0 {
			for _, d := range nullifyEach(valid[0], 4) {
				jUnmarshal(t, rndn(6), [][]byte{d})
			}
		}
		if len(valid) > 0 {
			for _, d := range nullifyElems(pick(valid), 3) {
				jUnmarshal(t, rndn(6), [][]byte{d})
			}
			for _, d := range nullMembers(pick(valid), 3) {
				jUnmarshal(t, rndn(6), [][]byte{d})
				if rndn(3) == 0 {
					jUnmarshal(t, rndn(6), [][]byte{pick(valid), d})
				}
			}
		}
		// integer map keys as strconv reads them (encoding/json hands the key text to strconv.ParseInt / ParseUint):
		// leading zeroes, a plus sign, a minus zero, inner and outer white space, in front of every key in turn
		if ts := sxString(t); len(valid) > 0 && (strings.Contains(ts, "(map i") || strings.Contains(ts, "(map u") || strings.Contains(ts, "(map int") || strings.Contains(ts, "IntKey") || strings.Contains(ts, "NameKey")) {
			d := pick(valid)
			locs := keyRE.FindAllIndex(d, -1)
			for k := 0; k < 6 && len(locs) > 0; k++ {
				l := locs[rndn(len(locs))]
				pre := []string{"0", "00", "+", "-", " ", "+0"}[k]
				jUnmarshal(t, rndn(6), [][]byte{append(append(append([]byte(nil), d[:l[0]+1]...), pre...), d[l[0]+1:]...)})
			}
		}
		// quoted scalars (,string fields, Number, Time, Duration, integer and text map keys are near): white space inside
		// the quotes
		if len(valid) > 0 && (strings.Contains(sxString(t), ",string") || rndn(4) == 0) {
			for _, d := range innerSpaceEach(pick(valid), 6) {
				jUnmarshal(t, rndn(6), [][]byte{d})
			}
		}
		// full document, then an emptier one, then a PARTIAL one (slices truncated by [] must not bring their old elements
		// back when they grow again; maps and structs likewise)
		if len(valid) > 0 {
			for _, e := range []string{"[]", "{}", "null"} {
				jUnmarshal(t, rndn(6), [][]byte{valid[0], []byte(e), thinDoc(valid[0])})
			}
			if locs := regexp.MustCompile(`\[[^\[\]]+\]`).FindAllIndex(valid[0], -1); len(locs) > 0 {
				// the same inside the document: every innermost non-empty array emptied in the middle document
				mid := regexp.MustCompile(`\[[^\[\]]+\]`).ReplaceAll(valid[0], []byte("[]"))
				jUnmarshal(t, rndn(6), [][]byte{valid[0], mid, thinDoc(valid[0])})
			}
		}
		// reset histories: a populated target followed by an emptier document of each shape (what must be cleared,
		// zeroed or kept is decided by encoding/json), then repopulated
		if len(valid) > 0 {
			for _, e := range []string{"[]", "[ ]", "{}", "null", "[null]", "{\"A\":null}", "\"\"", "0"} {
				jUnmarshal(t, rndn(6), [][]byte{valid[0], []byte(e)})
				if rndn(4) == 0 {
					jUnmarshal(t, rndn(6), [][]byte{pick(valid), []byte(e), pick(valid)})
				}
			}
		}
		// histories: 2-4 documents into the same variable
		for k := 0; k < 3; k++ {
			var seq [][]byte
			for j := 2 + rndn(3); j > 0; j-- {
				switch {
				case len(valid) > 0 && rndn(3) > 0:
					d := pick(valid)
					if rndBool() {
						d = mutateDoc(d)
					}
					seq = append(seq, d)
				default:
					seq = append(seq, []byte(pick(jScalarsDocs)))
				}
			}
			jUnmarshal(t, rndn(6), seq)
		}
	}
}

// 64-bit overflow probes: literals just beyond 2^63 / 2^64 and far beyond, where a wrapped product can land above
// or below the previous partial value (both must be reported as overflow / fall back to float64)
func init() {
	for _, s := range []string{"20000000000000000000", "25000000000000000000", "27670116110564327424", "30000000000000000000", "50000000000000000000",
		"99999999999999999999", "184467440737095516150", "184467440737095516160", "92233720368547758070", "92233720368547758080", "10000000000000000000000",
		"36893488147419103232", "18446744073709551617", "9223372036854775809", "123456789012345678901234567890"} {
		jScalarsDocs = append(jScalarsDocs, s, "-"+s)
	}
	x := uint64(0x9E3779B97F4A7C15)
	for i := 0; i < 40; i++ {
		x ^= x << 13
		x ^= x >> 7
		x ^= x << 17
		jScalarsDocs = append(jScalarsDocs, fmt.Sprintf("%d%d", 1+x%9, x), fmt.Sprintf("-%d%d", 1+x%9, x>>1))
	}
}

// hasQuotedNonJSONFloat: some document contains a string token that strconv.ParseFloat accepts although it is not a
// JSON number ("2.e-9", "-.5", "0x1p-2", "-Inf"): encoding/json hands the content of a ",string" float field to
// strconv without checking the JSON number syntax (recorded finding F44)
var quotedTokenRE = regexp.MustCompile(`"([^"\\]{1,40})"`)

func hasQuotedNonJSONFloat(docs [][]byte) bool {
	for _, d := range docs {
		for _, m := range quotedTokenRE.FindAllSubmatch(d, -1) {
			if _, err := strconv.ParseFloat(string(m[1]), 64); err == nil && !stdjson.Valid(m[1]) {
				return true
			}
		}
	}
	return false
}

// float32 probes: beyond the float32 range (finite as float64), at the largest float32, and near rounding midpoints
// where parsing as float64 first and narrowing afterwards rounds twice
func init() {
	jScalarsDocs = append(jScalarsDocs, "1e39", "-1e39", "3.5e38", "3.4028235677973366e38", "3.4028234663852886e38", "3.4028235e38", "1e308",
		"340282356779733661637539395458142568448", "1.0000000596046447753906250000000001", "16777217.0000000000001", "1e-46", "1.401298464324817e-45", "7.006492321624085e-46", "0.1", "16777217")
}

var stringValueRE = regexp.MustCompile(`:"[^"\\]*"`)

func docsContain(docs [][]byte, sub string) bool {
	for _, d := range docs {
		if bytes.Contains(d, []byte(sub)) {
			return true
		}
	}
	return false
}

// hasQuotedJSONNumber: some document contains a string token whose content is a JSON number
var numberLikeRE = regexp.MustCompile(`"(-?[0-9](?:[^"\\]|\\.)*)"`)

var strictNumberRE = regexp.MustCompile(`^-?(0|[1-9][0-9]*)(\.[0-9]+)?([eE][+-]?[0-9]+)?$`)

// hasQuotedNumberLike: a string token whose content starts like a number (-?digit) and is not a JSON number
func hasQuotedNumberLike(docs [][]byte) bool {
	for _, d := range docs {
		for _, m := range numberLikeRE.FindAllSubmatch(d, -1) {
			if !strictNumberRE.Match(m[1]) { // white space around the literal counts too: Valid would accept it
				return true
			}
		}
	}
	return false
}

func hasQuotedJSONNumber(docs [][]byte) bool {
	for _, d := range docs {
		for _, m := range quotedTokenRE.FindAllSubmatch(d, -1) {
			if c := m[1][0]; (c == '-' || (c >= '0' && c <= '9')) && stdjson.Valid(m[1]) {
				return true
			}
		}
	}
	return false
}

// nullifyEach: the documents obtained from d by replacing one string member value by null (at most n of them, the
// later ones first: a null after a non-empty string is the interesting order)
func nullifyEach(d []byte, n int) [][]byte {
	locs := stringValueRE.FindAllIndex(d, -1)
	var out [][]byte
	for i := len(locs) - 1; i >= 0 && len(out) < n; i-- {
		l := locs[i]
		out = append(out, append(append(append([]byte(nil), d[:l[0]+1]...), "null"...), d[l[1]:]...))
	}
	return out
}

// nullMembers: for the members of a top-level object, the one-member document {key:null} and the whole document
// with that member's value replaced by null (a null for a field promoted through a nil embedded pointer still
// allocates the embedded struct in encoding/json; null into maps, slices, pointers, interfaces clears them)
func nullMembers(d []byte, n int) [][]byte {
	var m map[string]stdjson.RawMessage
	if stdjson.Unmarshal(d, &m) != nil {
		return nil
	}
	var keys []string
	for k := range m {
		keys = append(keys, k)
	}
	sort.Strings(keys)
	var out [][]byte
	for len(keys) > 0 && len(out) < 2*n {
		i := rndn(len(keys))
		k := keys[i]
		keys = append(keys[:i], keys[i+1:]...)
		kb, _ := stdjson.Marshal(k)
		out = append(out, []byte("{"+string(kb)+":null}"))
		m2 := map[string]stdjson.RawMessage{}
		for kk, vv := range m {
			m2[kk] = vv
		}
		m2[k] = stdjson.RawMessage("null")
		if b, err := stdjson.Marshal(m2); err == nil {
			out = append(out, b)
		}
	}
	return out
}

var stringElemRE = regexp.MustCompile(`[\[,]("[^"\\]*")[,\]]`)

// nullifyElems: string ELEMENTS of arrays replaced by null, one at a time (a decoder reusing a scratch slice between
// map entries or documents must not show the previous occupant of the slot)
func nullifyElems(d []byte, n int) [][]byte {
	locs := stringElemRE.FindAllSubmatchIndex(d, -1)
	var out [][]byte
	for i := len(locs) - 1; i >= 0 && len(out) < n; i-- {
		l := locs[i]
		out = append(out, append(append(append([]byte(nil), d[:l[2]]...), "null"...), d[l[3]:]...))
	}
	return out
}

// thinDoc: the document with about half of the members of every object dropped and arrays cut to their first element
// (what a later, PARTIAL document looks like: the members it does not mention must show what the emptier document in
// between left, not what the first one had put there)
func thinDoc(d []byte) []byte {
	var v any
	dec := stdjson.NewDecoder(bytes.NewReader(d))
	dec.UseNumber()
	if dec.Decode(&v) != nil {
		return d
	}
	var thin func(x any, depth int) any
	thin = func(x any, depth int) any {
		switch t := x.(type) {
		case map[string]any:
			keys := make([]string, 0, len(t))
			for k := range t {
				keys = append(keys, k)
			}
			sort.Strings(keys)
			o := map[string]any{}
			for i, k := range keys {
				if (i+depth)%2 == 1 || len(keys) == 1 {
					o[k] = thin(t[k], depth+1)
				}
			}
			return o
		case []any:
			if len(t) > 1 {
				t = t[:1]
			}
			o := make([]any, len(t))
			for i := range t {
				o[i] = thin(t[i], depth+1)
			}
			return o
		}
		return x
	}
	b, err := stdjson.Marshal(thin(v, 0))
	if err != nil {
		return d
	}
	return b
}

// innerSpaceEach: white space put inside the quotes of each string member value in turn (end or start of the content)
func innerSpaceEach(d []byte, n int) [][]byte {
	locs := stringValueRE.FindAllIndex(d, -1)
	var out [][]byte
	for i := len(locs) - 1; i >= 0 && len(out) < n; i-- {
		l := locs[i]
		ws := pick([]string{" ", "  ", `\t`, `\n`, `\r`, ` \r`, "\t", "\n", "\r", "\r\n\t"}) // the last four are RAW control bytes: not JSON inside a string
		at := l[1] - 1
		if rndn(4) == 0 {
			at = l[0] + 2
		}
		out = append(out, append(append(append([]byte(nil), d[:at]...), ws...), d[at:]...))
	}
	return out
}

var keyRE = regexp.MustCompile(`"[^"\\]*":`)
