package main

import (
	"bytes"
	stdjson "encoding/json"
	"io"
	"strings"
	"testing/iotest"

	"github.com/segmentio/encoding/json"
)

func init() {
	register("c05", c05)
	replayers["j.valid"] = func(a []string) { jValid(unhex(a[0])) }
	replayers["j.cons"] = func(a []string) { jConsumers(unhex(a[0])) }
}

func jValid(b []byte) {
	if !mine() {
		skip()
		return
	}
	impl := guarded(func() string { return string(tf(json.Valid(b))) })
	emit("j.valid", hexs(b), impl, string(tf(stdjson.Valid(b))))
}

func jValidExpect(b []byte, want bool) {
	if !mine() {
		skip()
		return
	}
	impl := guarded(func() string { return string(tf(json.Valid(b))) })
	emit("j.validg", hexs(b), impl, string(tf(want)))
}

type segMarshaler struct{ b []byte }

func (m segMarshaler) MarshalJSON() ([]byte, error) { return m.b, nil }

// jConsumers drives every syntax-only consumer of the package with the same payload and
// compares accept/reject with encoding/json on the same operation. Observable: one letter per
// consumer (a = accepted, r = rejected, P = panic).
func jConsumers(b []byte) {
	if !mine() {
		skip()
		return
	}
	ar := func(err error) byte {
		if err == nil {
			return 'a'
		}
		return 'r'
	}
	try := func(f func() error) (c byte) {
		defer func() {
			if recover() != nil {
				c = 'P'
			}
		}()
		return ar(f())
	}
	wrapObj := append(append([]byte(`{"x":`), b...), '}')
	wrapArr := append(append([]byte(`[1,`), b...), ']')
	var impl, orc []byte
	// RawMessage on encode
	impl = append(impl, try(func() error { _, err := json.Marshal(json.RawMessage(b)); return err }))
	orc = append(orc, try(func() error { _, err := stdjson.Marshal(stdjson.RawMessage(b)); return err }))
	// RawMessage on decode
	impl = append(impl, try(func() error { var r json.RawMessage; return json.Unmarshal(b, &r) }))
	orc = append(orc, try(func() error { var r stdjson.RawMessage; return stdjson.Unmarshal(b, &r) }))
	// value skipped because the target has no matching field
	impl = append(impl, try(func() error { var s struct{}; return json.Unmarshal(wrapObj, &s) }))
	orc = append(orc, try(func() error { var s struct{}; return stdjson.Unmarshal(wrapObj, &s) }))
	// the struct decoder itself (not its unknown-field skip): b as the document of a struct, of a struct-typed field, of
	// the elements of a slice of structs and of a map of structs -- it accepts exactly the objects (or null) Valid accepts
	type inner struct {
		X any `json:"x"`
	}
	impl = append(impl, try(func() error { var s inner; return json.Unmarshal(b, &s) }))
	orc = append(orc, try(func() error { var s inner; return stdjson.Unmarshal(b, &s) }))
	impl = append(impl, try(func() error {
		var s struct {
			X inner            `json:"x"`
			L []inner          `json:"l"`
			M map[string]inner `json:"m"`
		}
		return json.Unmarshal(append(append(append(append(append([]byte(`{"l":[`), b...), `],"m":{"k":`...), b...), `},"x":`...), append(b, '}')...), &s)
	}))
	orc = append(orc, try(func() error {
		var s struct {
			X inner            `json:"x"`
			L []inner          `json:"l"`
			M map[string]inner `json:"m"`
		}
		return stdjson.Unmarshal(append(append(append(append(append([]byte(`{"l":[`), b...), `],"m":{"k":`...), b...), `},"x":`...), append(append([]byte(nil), b...), '}')...), &s)
	}))
	// value skipped because the array target has no slot left
	impl = append(impl, try(func() error { var s [1]int; return json.Unmarshal(wrapArr, &s) }))
	orc = append(orc, try(func() error { var s [1]int; return stdjson.Unmarshal(wrapArr, &s) }))
	// output of a MarshalJSON method
	impl = append(impl, try(func() error { _, err := json.Marshal(segMarshaler{b}); return err }))
	orc = append(orc, try(func() error { _, err := stdjson.Marshal(segMarshaler{b}); return err }))
	// RawMessage as a map value next to valid ones, under a key that sorts first and under one that sorts last
	for _, k := range []string{"a", "z"} {
		impl = append(impl, try(func() error {
			_, err := json.Marshal(map[string]json.RawMessage{k: json.RawMessage(b), "m": json.RawMessage("1"), "n": json.RawMessage("[]")})
			return err
		}))
		orc = append(orc, try(func() error {
			_, err := stdjson.Marshal(map[string]stdjson.RawMessage{k: stdjson.RawMessage(b), "m": stdjson.RawMessage("1"), "n": stdjson.RawMessage("[]")})
			return err
		}))
	}
	// RawMessage through an Encoder whose options were changed (the options must not switch the syntax check off)
	for opt := 0; opt < 3; opt++ {
		impl = append(impl, try(func() error {
			e := json.NewEncoder(io.Discard)
			switch opt {
			case 0:
				e.SetEscapeHTML(false)
			case 1:
				e.SetIndent(">", " ")
				e.SetEscapeHTML(true)
			case 2:
				e.SetSortMapKeys(false)
				e.SetEscapeHTML(false)
			}
			return e.Encode(struct {
				A int
				R json.RawMessage
				M map[string]json.RawMessage
			}{1, json.RawMessage(b), map[string]json.RawMessage{"k": json.RawMessage(b)}})
		}))
		orc = append(orc, try(func() error {
			e := stdjson.NewEncoder(io.Discard)
			switch opt {
			case 0, 2:
				e.SetEscapeHTML(false)
			case 1:
				e.SetIndent(">", " ")
				e.SetEscapeHTML(true)
			}
			return e.Encode(struct {
				A int
				R stdjson.RawMessage
				M map[string]stdjson.RawMessage
			}{1, stdjson.RawMessage(b), map[string]stdjson.RawMessage{"k": stdjson.RawMessage(b)}})
		}))
	}
	// the Tokenizer, fresh and REUSED after a plain document (Reset recomputes what it knows about the input)
	tokRun := func(reuse bool) byte {
		return try(func() error {
			t := json.NewTokenizer(b)
			if reuse {
				t = json.NewTokenizer([]byte(`["plain", "ascii", 123, true]`))
				for t.Next() {
				}
				t.Reset(b)
			}
			n := 0
			for t.Next() {
				n++
			}
			if t.Err != nil {
				return t.Err
			}
			if n == 0 {
				return io.ErrUnexpectedEOF
			}
			return nil
		})
	}
	fresh := tokRun(false)
	impl = append(impl, fresh, tokRun(true))
	if stdjson.Valid(b) {
		orc = append(orc, 'a', 'a') // every valid document is tokenized to its end without error
	} else {
		orc = append(orc, fresh, fresh) // the Tokenizer is looser than Valid on invalid texts; a reused one is not looser than a fresh one
	}
	// Decoder framing of the first value
	impl = append(impl, try(func() error { var r json.RawMessage; return json.NewDecoder(bytes.NewReader(b)).Decode(&r) }))
	orc = append(orc, try(func() error { var r stdjson.RawMessage; return stdjson.NewDecoder(bytes.NewReader(b)).Decode(&r) }))
	// Decoder framing when the reader delivers the document one byte at a time (every prefix is seen as "input so far")
	// and in two pieces cut at a rotating position
	impl = append(impl, try(func() error {
		var r json.RawMessage
		return json.NewDecoder(iotest.OneByteReader(bytes.NewReader(b))).Decode(&r)
	}))
	orc = append(orc, try(func() error {
		var r stdjson.RawMessage
		return stdjson.NewDecoder(iotest.OneByteReader(bytes.NewReader(b))).Decode(&r)
	}))
	cut := 0
	if len(b) > 0 {
		cut = (len(b)*7 + 3) % len(b)
	}
	impl = append(impl, try(func() error {
		var r any
		return json.NewDecoder(io.MultiReader(bytes.NewReader(b[:cut]), bytes.NewReader(b[cut:]))).Decode(&r)
	}))
	orc = append(orc, try(func() error {
		var r any
		return stdjson.NewDecoder(io.MultiReader(bytes.NewReader(b[:cut]), bytes.NewReader(b[cut:]))).Decode(&r)
	}))
	// interface{} target (full decode)
	impl = append(impl, try(func() error { var r any; return json.Unmarshal(b, &r) }))
	orc = append(orc, try(func() error { var r any; return stdjson.Unmarshal(b, &r) }))
	emit("j.cons", hexs(b), string(impl), string(orc))
}

var c05alphabet = []string{"{", "}", "[", "]", ",", ":", "\"", "\\", "/", "u", "0", "1", "-", "+", ".", "e", "true", "null", "false", " ", "\x1f", "\x7f", "\x80", "a"}

func c05enum(depth int, prefix string, f func(string)) {
	f(prefix)
	if depth == 0 {
		return
	}
	for _, s := range c05alphabet {
		c05enum(depth-1, prefix+s, f)
	}
}

// random grammar-directed document
func genDoc(depth int) string {
	r := rndn(100)
	switch {
	case r < 12:
		return pick([]string{"null", "true", "false"})
	case r < 30:
		return pick([]string{"0", "-0", "1", "12", "-1.5", "1e5", "1E-5", "0.0", "-0e+0", "123456789012345678901234567890", "1.5e300", "0.1"})
	case r < 50:
		return genStr()
	case r < 75 && depth > 0:
		n := rndn(4)
		var parts []string
		for i := 0; i < n; i++ {
			parts = append(parts, genDoc(depth-1))
		}
		return "[" + ws() + strings.Join(parts, ws()+","+ws()) + ws() + "]"
	case depth > 0:
		n := rndn(4)
		var parts []string
		for i := 0; i < n; i++ {
			parts = append(parts, genStr()+ws()+":"+ws()+genDoc(depth-1))
		}
		return "{" + ws() + strings.Join(parts, ws()+","+ws()) + ws() + "}"
	}
	return "1"
}

func ws() string { return pick([]string{"", "", "", " ", "\n", "\t \r"}) }

func genStr() string {
	var sb strings.Builder
	sb.WriteByte('"')
	n := pick([]int{0, 1, 3, 6, 7, 8, 9, 14, 15, 16, 17, 20, 40})
	for i := 0; i < n; i++ {
		switch rndn(24) {
		case 0:
			sb.WriteString(pick([]string{`\n`, `\"`, `\\`, `\/`, `\b`, `\f`, `\r`, `\t`, `é`, `😀`, `\ud800`, `\u12`}))
		case 1:
			sb.WriteString(pick([]string{"é", "\xff", "\x7f", " ", "<", "&"}))
		default:
			sb.WriteByte(byte('a' + rndn(26)))
		}
	}
	sb.WriteByte('"')
	return sb.String()
}

func c05() {
	thorough := *tier == "thorough"
	// (1) every string of <= 3 symbols over the class alphabet through Valid and all consumers (14k strings);
	//     length 4 (346k) through Valid; thorough: length 5 through Valid (8.3M)
	c05enum(3, "", func(s string) { jValid([]byte(s)); jConsumers([]byte(s)) })
	for _, a := range c05alphabet {
		c05enum(3, a, func(s string) {
			if len(s) > 0 && strings.Count(s, "")-1 >= 0 {
				jValid([]byte(s))
			}
		})
	}
	if thorough {
		for _, a := range c05alphabet {
			for _, b := range c05alphabet {
				c05enum(3, a+b, func(s string) { jValid([]byte(s)) })
			}
		}
	}
	// (2) strings around the 9- and 17-byte hand-over points of the quote search: the interesting byte at every offset 0..40
	for n := 0; n <= 40; n++ {
		for _, c := range []string{"\"", "\\", "\\\"", "\x1f", "\x7f", "\x80", "\\u0041", "\\x", "\n"} {
			for pos := 0; pos <= n; pos++ {
				s := "\"" + strings.Repeat("a", pos) + c + strings.Repeat("b", n-pos) + "\""
				jValid([]byte(s))
				jValid([]byte("[" + s + "]"))
				jValid([]byte(s + " "))
				if n%4 == 0 {
					jConsumers([]byte(s))
				}
			}
		}
	}
	// (3) grammar-directed documents with single-token mutations
	nd := 3000
	if thorough {
		nd = 40000
	}
	for i := 0; i < nd; i++ {
		d := genDoc(4)
		jValid([]byte(d))
		jConsumers([]byte(d))
		b := []byte(d)
		for k := 0; k < 4 && len(b) > 0; k++ {
			m := append([]byte(nil), b...)
			p := rndn(len(m))
			switch rndn(4) {
			case 0: // delete
				m = append(m[:p], m[p+1:]...)
			case 1: // duplicate
				m = append(m[:p+1], m[p:]...)
			case 2: // swap with a delimiter
				m[p] = pick([]byte(`{}[],:" \0-.eE+`))
			case 3:
				if p+1 < len(m) {
					m[p], m[p+1] = m[p+1], m[p]
				}
			}
			jValid(m)
			if k == 0 {
				jConsumers(m)
			}
		}
	}
	// (3b) byte-exhaustive families: every byte value after a backslash (short and long strings, both scanners), at each
	// of the four hex positions of a \u escape, as the only byte of a string, as the byte after a number, and as the
	// first byte of a value
	for c := 0; c < 256; c++ {
		ch := string([]byte{byte(c)})
		for _, pad := range []string{"", "abcdefgh", "0123456789abcdefXYZ"} {
			s := "\"" + pad + "\\" + ch + pad + "\""
			jValid([]byte(s))
			jValid([]byte("{" + s + ":" + s + "}"))
			jValid([]byte("\"" + pad + ch + pad + "\""))
			for k := 0; k < 4; k++ {
				h := []byte("12aF")
				h[k] = byte(c)
				jValid([]byte("\"" + pad + "\\u" + string(h) + pad + "\""))
			}
		}
		jConsumers([]byte("\"\\" + ch + "\""))
		jConsumers([]byte("\"" + ch + "\""))
		jValid([]byte("1" + ch))
		jValid([]byte("-1.5e+3" + ch))
		jValid([]byte(ch + "1"))
		jValid([]byte("[1" + ch + "2]"))
		jValid([]byte("tru" + ch))
		jValid([]byte("nul" + ch + " "))
	}
	// (3b') bytes that other languages (and bytes.TrimSpace) treat as white space but JSON does not, around valid values
	for _, w := range []string{"\v", "\f", "\u0085", "\u00a0", "\u2028", "\u2029", "\u3000", "\x00", "\x1c", "\x1f", "\ufeff", "\x7f"} {
		for _, v := range []string{"1", "{}", "[]", "true", "null", "\"s\"", "-0.5e1", "[1,2]", "{\"a\":1}"} {
			for _, d := range []string{w + v, v + w, w + v + w, " " + w + " " + v, v + " " + w, "[" + w + "1]", "{\"a\":" + w + "1}", "[1" + w + ",2]"} {
				jValid([]byte(d))
				jConsumers([]byte(d))
			}
		}
	}
	// (3c) Decoder framing across buffer refills (streams longer than the first fill)
	flagHygieneStreams()
	// (4) nesting ladder
	depths := []int{1, 10, 100, 1000, 5000}
	if thorough {
		depths = append(depths, 9999, 10000, 10001, 12000)
	}
	for _, n := range depths {
		if n > 10000 {
			// encoding/json stops at 10000 open containers (not part of RFC 8259): beyond it the oracle is the grammar
			jValidExpect([]byte(strings.Repeat("[", n)+strings.Repeat("]", n)), true)
			jValidExpect([]byte(strings.Repeat(`{"a":`, n)+"1"+strings.Repeat("}", n)), true)
			jValidExpect([]byte(strings.Repeat("[", n)+strings.Repeat("]", n-1)), false)
			continue
		}
		jValid([]byte(strings.Repeat("[", n) + strings.Repeat("]", n)))
		jValid([]byte(strings.Repeat(`{"a":`, n) + "1" + strings.Repeat("}", n)))
		jValid([]byte(strings.Repeat("[", n) + strings.Repeat("]", n-1)))
	}
}
