//go:build verif && c10

package main

// C10 -- json memory ownership: inputs untouched, results stable, aliasing opt-in.
//
// Cases (fn / what is compared):
//
//	m.alias   Unmarshal / Parse(flags) of a generated document into a generated type: ALIASING MAP, one
//	          "kind:letter" per decoded leaf that carries memory, in document order
//	          (kinds: s string, n Number, r RawMessage, b []byte, k map key, qs/qn the same behind a ",string"
//	          tag, is/in/ik string/Number/key inside an interface{}; letters: I inside the input buffer,
//	          D inside the Decoder's read buffer, F elsewhere, E no bytes, X straddling, P inside a pooled
//	          encode buffer). Compared with the Coq provenance model (correspondence); no oracle.
//	m.own     the same run: the property's verdict ("ok" expected): input arena (guards included) unchanged,
//	          aliasing only where the matching flag is set, every non-aliasing leaf and the rendering of the
//	          whole value unchanged after the input has been overwritten with 0xFF and a burst of other
//	          library calls ran on this and on other goroutines, leaves pairwise disjoint.
//	m.dalias / m.down   the same through a Decoder: several documents on one stream delivered in chunks,
//	          white space gaps and padding larger than the read buffer so that compaction and regrowth
//	          happen between Decode calls; the values decoded earlier are re-read at the end.
//	m.tok / m.tokown    Tokenizer: String() of every string token: I / F / E; Values are sub-slices of the
//	          input by address; input untouched; earlier String() results stable.
//	m.marshal Marshal / Encoder: value untouched, result stable under the burst, consecutive results
//	          disjoint, never inside a pooled buffer, same value marshals to the same bytes afterwards
//	          (struct key fragments), Encoder output equal to Marshal + newline and stable.
//	m.bad     malformed documents: input untouched, no fault.

import (
	"bytes"
	"encoding/base64"
	stdjson "encoding/json"
	"fmt"
	"reflect"
	"runtime"
	"sort"
	"strconv"
	"strings"
	"sync"
	"unsafe"

	"github.com/segmentio/encoding/json"
)

//go:linkname c10EncPool github.com/segmentio/encoding/json.encoderBufferPool
var c10EncPool sync.Pool

func init() {
	register("c10", c10)
	dec := func(a []string) {
		p := strings.Split(strings.Join(a, " "), "|")
		flags, _ := strconv.Atoi(p[1])
		capm, _ := strconv.Atoi(p[2])
		ws, _ := strconv.ParseUint(p[3], 10, 64)
		mDecode(p[0], flags, capm, ws, parseSx(p[4]), treeFromSx(parseSx(p[5])))
	}
	replayers["m.alias"] = dec
	replayers["m.own"] = dec
	sdec := func(a []string) {
		p := strings.Split(strings.Join(a, " "), "|")
		flags, _ := strconv.Atoi(p[0])
		ws, _ := strconv.ParseUint(p[2], 10, 64)
		var docs []sdoc
		for _, d := range p[4:] {
			q := strings.Split(d, ";")
			pad, _ := strconv.Atoi(q[1])
			gap, _ := strconv.Atoi(q[2])
			docs = append(docs, sdoc{tree: treeFromSx(parseSx(q[0])), pad: pad, gap: gap})
		}
		mStream(flags, p[1], ws, parseSx(p[3]), docs)
	}
	replayers["m.dalias"] = sdec
	replayers["m.down"] = sdec
	replayers["m.tok"] = func(a []string) {
		p := strings.Split(strings.Join(a, " "), "|")
		ws, _ := strconv.ParseUint(p[0], 10, 64)
		mTok(ws, gFromSx(parseSx(p[1])))
	}
	replayers["m.tokown"] = replayers["m.tok"]
	replayers["m.marshal"] = func(a []string) {
		p := strings.Split(strings.Join(a, " "), "|")
		seed, _ := strconv.ParseUint(p[1], 10, 64)
		mMarshal(parseSx(p[0]), seed)
	}
	replayers["m.bad"] = func(a []string) {
		p := strings.Split(strings.Join(a, " "), "|")
		flags, _ := strconv.Atoi(p[0])
		mBad(flags, parseSx(p[1]), unhex(p[2]))
	}
}

// ---------------------------------------------------------------------------------------------
// document trees

// gnode: generic JSON (for interface{} and RawMessage targets, and the tokenizer)
type gnode struct {
	k    string // s n lit arr obj
	raw  []byte
	kids []*gnode
	keys [][]byte // obj: raw key tokens, parallel to kids
}

// dnode: a document for a given Go type; every leaf knows its raw token
type dnode struct {
	k     string // str num raw bytes qstr qnum sc any list map struct
	raw   []byte
	inner []byte
	g     *gnode
	kids  []*dnode
	ents  []dent
}

type dent struct {
	key []byte // raw key token
	kk  string // map: skey ikey tkey; struct: f (field fi) or u (unknown member, value gv)
	fi  int
	val *dnode
	gv  *gnode
}

func gSx(g *gnode) string {
	switch g.k {
	case "s", "n", "lit":
		return "(" + g.k + " " + hexs(g.raw) + ")"
	case "arr":
		p := []string{"arr"}
		for _, c := range g.kids {
			p = append(p, gSx(c))
		}
		return "(" + strings.Join(p, " ") + ")"
	}
	p := []string{"obj"}
	for i, c := range g.kids {
		p = append(p, "(e "+hexs(g.keys[i])+" "+gSx(c)+")")
	}
	return "(" + strings.Join(p, " ") + ")"
}

func gFromSx(x *sx) *gnode {
	g := &gnode{k: x.list[0].atom}
	switch g.k {
	case "s", "n", "lit":
		g.raw = unhex(x.list[1].atom)
	case "arr":
		for _, c := range x.list[1:] {
			g.kids = append(g.kids, gFromSx(c))
		}
	case "obj":
		for _, c := range x.list[1:] {
			g.keys = append(g.keys, unhex(c.list[1].atom))
			g.kids = append(g.kids, gFromSx(c.list[2]))
		}
	}
	return g
}

func treeSx(d *dnode) string {
	switch d.k {
	case "str", "num", "bytes", "sc":
		return "(" + d.k + " " + hexs(d.raw) + ")"
	case "qstr", "qnum":
		return "(" + d.k + " " + hexs(d.raw) + " " + hexs(d.inner) + ")"
	case "raw", "any":
		return "(" + d.k + " " + gSx(d.g) + ")"
	case "list":
		p := []string{"list"}
		for _, c := range d.kids {
			p = append(p, treeSx(c))
		}
		return "(" + strings.Join(p, " ") + ")"
	}
	p := []string{d.k}
	for _, e := range d.ents {
		if e.kk == "u" {
			p = append(p, "(u "+hexs(e.key)+" "+gSx(e.gv)+")")
		} else {
			p = append(p, fmt.Sprintf("(%s %s %d %s)", e.kk, hexs(e.key), e.fi, treeSx(e.val)))
		}
	}
	return "(" + strings.Join(p, " ") + ")"
}

func treeFromSx(x *sx) *dnode {
	d := &dnode{k: x.list[0].atom}
	switch d.k {
	case "str", "num", "bytes", "sc":
		d.raw = unhex(x.list[1].atom)
	case "qstr", "qnum":
		d.raw = unhex(x.list[1].atom)
		d.inner = unhex(x.list[2].atom)
	case "raw", "any":
		d.g = gFromSx(x.list[1])
	case "list":
		for _, c := range x.list[1:] {
			d.kids = append(d.kids, treeFromSx(c))
		}
	default:
		for _, c := range x.list[1:] {
			e := dent{kk: c.list[0].atom, key: unhex(c.list[1].atom)}
			if e.kk == "u" {
				e.gv = gFromSx(c.list[2])
			} else {
				e.fi, _ = strconv.Atoi(c.list[2].atom)
				e.val = treeFromSx(c.list[3])
			}
			d.ents = append(d.ents, e)
		}
	}
	return d
}

// rendering with seeded white space; pad spaces are inserted after the first opening bracket
type renderer struct {
	b   bytes.Buffer
	ws  *vrng
	pad int
}

func (r *renderer) sp() {
	if r.ws == nil {
		return
	}
	switch r.ws.n(7) {
	case 0:
		r.b.WriteByte(' ')
	case 1:
		r.b.WriteString("\n\t")
	case 2:
		r.b.WriteString("\r\n  ")
	}
}

func (r *renderer) open(c byte) {
	r.b.WriteByte(c)
	if r.pad > 0 {
		r.b.Write(bytes.Repeat([]byte{' '}, r.pad))
		r.pad = 0
	}
	r.sp()
}

func (r *renderer) g(g *gnode) {
	switch g.k {
	case "s", "n", "lit":
		r.b.Write(g.raw)
	case "arr":
		r.open('[')
		for i, c := range g.kids {
			if i > 0 {
				r.b.WriteByte(',')
				r.sp()
			}
			r.g(c)
			r.sp()
		}
		r.b.WriteByte(']')
	case "obj":
		r.open('{')
		for i, c := range g.kids {
			if i > 0 {
				r.b.WriteByte(',')
				r.sp()
			}
			r.b.Write(g.keys[i])
			r.sp()
			r.b.WriteByte(':')
			r.sp()
			r.g(c)
			r.sp()
		}
		r.b.WriteByte('}')
	}
}

func (r *renderer) d(d *dnode) {
	switch d.k {
	case "str", "num", "bytes", "sc", "qstr", "qnum":
		r.b.Write(d.raw)
	case "raw", "any":
		r.g(d.g)
	case "list":
		r.open('[')
		for i, c := range d.kids {
			if i > 0 {
				r.b.WriteByte(',')
				r.sp()
			}
			r.d(c)
			r.sp()
		}
		r.b.WriteByte(']')
	default:
		r.open('{')
		for i, e := range d.ents {
			if i > 0 {
				r.b.WriteByte(',')
				r.sp()
			}
			r.b.Write(e.key)
			r.sp()
			r.b.WriteByte(':')
			r.sp()
			if e.kk == "u" {
				r.g(e.gv)
			} else {
				r.d(e.val)
			}
			r.sp()
		}
		r.b.WriteByte('}')
	}
}

func renderDoc(d *dnode, ws uint64, pad int) []byte {
	r := &renderer{pad: pad}
	if ws != 0 {
		r.ws = &vrng{s: ws}
	}
	r.d(d)
	return append([]byte(nil), r.b.Bytes()...)
}

// ---------------------------------------------------------------------------------------------
// generators

var c10StrToks = []string{`""`, `"a"`, `"hello"`, `"1234567"`, `"12345678"`, `"123456789"`, `"0123456789abcdef"`, `"0123456789abcdefg"`,
	`"hello world, this is longer than sixteen bytes"`, `"a\nb"`, `"A"`, "\"é\"", "\"日本\"", `"éx"`, `"a\/b"`, `"q\"uote"`,
	`"back\\slash"`, `"😀"`, `"\ud800"`, "\"\x7f\"", "\"a\xffb\"", `"1234567\""`, `"12345678\"9"`, `"tab\there"`, `"<html>&"`, `"sp ace"`, `"~tilde~"`,
	`"0123456789abcde\\"`, `"\\"`, `" "`}
var c10KeyToks = []string{`"k"`, `"key1"`, `"a b"`, `"kA"`, `"\n"`, "\"é\"", `""`, `"K:x"`, `"K:"`, `"0123456789abcdefXYZ"`, `"x\\y"`, `"12345678"`, `"q\""`, `"z"`, `"Z"`}
var c10NumToks = []string{`0`, `-1`, `12.5`, `1e5`, `123456789012345678901234567890`, `-0.0`, `1E-2`, `7`}
var c10IntToks = []string{`0`, `-12`, `7`, `123456`}
var c10IntKeys = []string{`"0"`, `"-12"`, `"7"`, `"123456"`, `"1"`}

func c10RandAscii() []byte {
	n := rndn(40)
	b := []byte{'"'}
	for i := 0; i < n; i++ {
		c := byte(0x20 + rndn(0x5f))
		if c == '"' || c == '\\' {
			c = '_'
		}
		b = append(b, c)
	}
	return append(b, '"')
}

func c10StrTok() []byte {
	if rndn(4) == 0 {
		return c10RandAscii()
	}
	return []byte(pick(c10StrToks))
}

func c10Unquote(tok []byte) string {
	var s string
	if err := stdjson.Unmarshal(tok, &s); err != nil {
		panic("c10: bad key token " + string(tok))
	}
	return s
}

func c10G(depth int) *gnode {
	r := rndn(10)
	if depth <= 0 && r >= 6 {
		r = rndn(6)
	}
	switch {
	case r < 3:
		return &gnode{k: "s", raw: c10StrTok()}
	case r < 5:
		return &gnode{k: "n", raw: []byte(pick(c10NumToks))}
	case r < 6:
		return &gnode{k: "lit", raw: []byte(pick([]string{"true", "false", "null"}))}
	case r < 8:
		g := &gnode{k: "arr"}
		for n := rndn(4); n > 0; n-- {
			g.kids = append(g.kids, c10G(depth-1))
		}
		return g
	}
	g := &gnode{k: "obj"}
	seen := map[string]bool{}
	for n := rndn(4); n > 0; n-- {
		k := []byte(pick(c10KeyToks))
		if rndn(5) == 0 {
			k = c10RandAscii()
		}
		if u := c10Unquote(k); seen[u] {
			continue
		} else {
			seen[u] = true
		}
		g.keys = append(g.keys, k)
		g.kids = append(g.kids, c10G(depth-1))
	}
	return g
}

func scNull() *dnode { return &dnode{k: "sc", raw: []byte("null")} }

func flipCase(s string) string {
	b := []byte(s)
	for i, c := range b {
		switch {
		case 'a' <= c && c <= 'z' && rndn(2) == 0:
			b[i] = c - 32
		case 'A' <= c && c <= 'Z' && rndn(2) == 0:
			b[i] = c + 32
		}
	}
	return string(b)
}

// keyTokFor spells the JSON name of a struct field: exact, mixed case, or with an escape
func keyTokFor(name string) []byte {
	ascii := true
	for i := 0; i < len(name); i++ {
		if name[i] >= 0x80 {
			ascii = false
		}
	}
	switch rndn(4) {
	case 0:
		// (names with non-ASCII letters are matched only when spelled exactly: side finding reported for C02)
		if ascii {
			name = flipCase(name)
		}
	case 1:
		// escape the first ASCII character
		if name[0] < 0x80 {
			return []byte(fmt.Sprintf(`"\u%04x%s"`, name[0], name[1:]))
		}
	}
	q, _ := stdjson.Marshal(name)
	// undo the HTML escaping of encoding/json for a plain spelling
	return q
}

func fieldJSONName(fx *sx) (name string, stringify bool) {
	name = fx.list[1].atom
	tag := strings.ReplaceAll(fx.list[2].atom, "%20", " ")
	if tag != "-" {
		parts := strings.Split(tag, ",")
		if parts[0] != "" {
			name = parts[0]
		}
		for _, o := range parts[1:] {
			if o == "string" {
				stringify = true
			}
		}
	}
	return
}

func c10Doc(t *sx, depth int) *dnode {
	if t.list == nil {
		switch t.atom {
		case "str":
			if rndn(14) == 0 {
				return scNull()
			}
			return &dnode{k: "str", raw: c10StrTok()}
		case "Number":
			if rndn(14) == 0 {
				return scNull()
			}
			return &dnode{k: "num", raw: []byte(pick(c10NumToks))}
		case "RawMessage":
			return &dnode{k: "raw", g: c10G(2)}
		case "bytes":
			if rndn(10) == 0 {
				return scNull()
			}
			b := make([]byte, rndn(12))
			for i := range b {
				b[i] = byte(rnd())
			}
			tok := `"` + base64.StdEncoding.EncodeToString(b) + `"`
			if rndn(3) == 0 && strings.HasSuffix(tok, `="`) {
				tok = tok[:len(tok)-2] + `="`
			}
			return &dnode{k: "bytes", raw: []byte(tok)}
		case "any":
			return &dnode{k: "any", g: c10G(2)}
		case "int":
			return &dnode{k: "sc", raw: []byte(pick(c10IntToks))}
		case "bool":
			return &dnode{k: "sc", raw: []byte(pick([]string{"true", "false"}))}
		case "f64":
			return &dnode{k: "sc", raw: []byte(pick([]string{"1.5", "0", "-2e3"}))}
		}
		panic("c10: type atom " + t.atom)
	}
	switch t.list[0].atom {
	case "ptr":
		if rndn(10) == 0 {
			return scNull()
		}
		if d := c10Doc(t.list[1], depth); !isNullDoc(d) {
			return d
		}
		return scNull() // null leaves the pointer nil whatever the element type
	case "slice":
		if rndn(12) == 0 {
			return scNull()
		}
		d := &dnode{k: "list"}
		n := rndn(4)
		if rndn(10) == 0 {
			n = 11 + rndn(12) // beyond the initial capacity of 10: the slice is extended while decoding
		}
		for ; n > 0; n-- {
			d.kids = append(d.kids, c10Doc(t.list[1], depth+1))
		}
		return d
	case "arr":
		N, _ := strconv.Atoi(t.list[1].atom)
		d := &dnode{k: "list"}
		for n := rndn(N + 1); n > 0; n-- {
			d.kids = append(d.kids, c10Doc(t.list[2], depth+1))
		}
		return d
	case "map":
		if rndn(12) == 0 {
			return scNull()
		}
		d := &dnode{k: "map"}
		seen := map[string]bool{}
		for n := rndn(4); n > 0; n-- {
			var e dent
			switch t.list[1].atom {
			case "str":
				e.kk = "skey"
				e.key = []byte(pick(c10KeyToks))
				if rndn(5) == 0 {
					e.key = c10RandAscii()
				}
			case "int":
				e.kk = "ikey"
				e.key = []byte(pick(c10IntKeys))
			case "TextKey":
				e.kk = "tkey"
				e.key = []byte(pick([]string{`"K:a"`, `"K:b\n"`, `"c"`, `"K:"`, `"K:0123456789abcdefgh"`}))
			}
			u := c10Unquote(e.key)
			if e.kk == "tkey" {
				u = strings.TrimPrefix(u, "K:")
			}
			if seen[u] {
				continue
			}
			seen[u] = true
			e.val = c10Doc(t.list[2], depth+1)
			d.ents = append(d.ents, e)
		}
		return d
	case "struct":
		d := &dnode{k: "struct"}
		fields := t.list[1:]
		order := make([]int, len(fields))
		for i := range order {
			order[i] = i
		}
		for i := len(order) - 1; i > 0; i-- {
			j := rndn(i + 1)
			order[i], order[j] = order[j], order[i]
		}
		for _, fi := range order {
			if rndn(6) == 0 {
				continue // member absent
			}
			if rndn(6) == 0 {
				d.ents = append(d.ents, dent{kk: "u", key: []byte(pick([]string{`"unknown"`, `"zzA"`, `"UNKNOWN_LONG_MEMBER_NAME_THAT_EXCEEDS_SIXTY_FOUR_BYTES_0123456789_0123456789"`})), gv: c10G(2)})
				if len(d.ents) > 0 && rndn(2) == 0 {
					continue
				}
			}
			fx := fields[fi]
			name, stringify := fieldJSONName(fx)
			ft := fx.list[3]
			e := dent{kk: "f", fi: fi, key: keyTokFor(name)}
			base := ft
			if base.list != nil && base.list[0].atom == "ptr" {
				base = base.list[1]
			}
			if stringify && base.list == nil {
				switch base.atom {
				case "str":
					in := c10StrTok()
					// the inner token must itself be valid JSON text for both decoders: keep exotic bytes out
					if !stdjson.Valid(in) || bytes.IndexByte(in, 0xff) >= 0 {
						in = []byte(`"in"`)
					}
					out, _ := stdjson.Marshal(string(in))
					e.val = &dnode{k: "qstr", raw: out, inner: in}
				case "Number":
					in := []byte(pick(c10NumToks))
					out := []byte(`"` + string(in) + `"`)
					if rndn(3) == 0 {
						out = []byte(fmt.Sprintf(`"\u%04x%s"`, in[0], in[1:]))
					}
					e.val = &dnode{k: "qnum", raw: out, inner: in}
				case "int":
					// quoted integers as strconv reads them: sign and leading zeroes included (the decoder must not
					// normalise them in place: the input is lent, not given)
					e.val = &dnode{k: "sc", raw: []byte(`"` + pick(append([]string{"-007", "-0042", "-00", "007", "-000123456789", "00"}, c10IntToks...)) + `"`)}
				case "bool":
					e.val = &dnode{k: "sc", raw: []byte(pick([]string{`"true"`, `"false"`}))}
				case "f64":
					e.val = &dnode{k: "sc", raw: []byte(`"1.5"`)}
				}
			}
			if e.val == nil {
				e.val = c10Doc(ft, depth+1)
			}
			d.ents = append(d.ents, e)
		}
		return d
	}
	panic("c10: type")
}

var c10GoNames = []string{"A", "Bc", "Name", "Xy", "Long_Field_Name", "Q", "Ünï", "Zed", "ABC", "V9"}
var c10Leafs = []string{"str", "str", "str", "Number", "RawMessage", "bytes", "any", "any", "int", "bool", "f64"}

func c10Type(depth int) *sx {
	r := rndn(100)
	switch {
	case r < 40 || depth >= 3:
		return atom(pick(c10Leafs))
	case r < 48:
		return list(atom("ptr"), c10Type(depth+1))
	case r < 60:
		return list(atom("slice"), c10Type(depth+1))
	case r < 65:
		return list(atom("arr"), atom(strconv.Itoa(1+rndn(3))), c10Type(depth+1))
	case r < 80:
		return list(atom("map"), atom(pick([]string{"str", "str", "str", "int", "TextKey"})), c10Type(depth+1))
	}
	return c10Struct(depth + 1)
}

func c10Struct(depth int) *sx {
	out := []*sx{atom("struct")}
	n := 1 + rndn(5)
	if rndn(25) == 0 {
		n = 10 // with the fixed name list: exercises the larger keysets
	}
	perm := append([]string(nil), c10GoNames...)
	for i := len(perm) - 1; i > 0; i-- {
		j := rndn(i + 1)
		perm[i], perm[j] = perm[j], perm[i]
	}
	for i := 0; i < n && i < len(perm); i++ {
		ft := c10Type(depth)
		tag := "-"
		switch rndn(6) {
		case 0:
			tag = fmt.Sprintf("t%dx", i)
		case 1:
			tag = fmt.Sprintf("t%dé", i)
		case 2:
			tag = ",omitempty"
		case 3:
			tag = ",string"
		case 4:
			tag = fmt.Sprintf("t%dq,string", i)
		}
		out = append(out, list(atom("f"), atom(perm[i]), atom(tag), ft))
	}
	return list(out...)
}

var c10Fixed = []string{
	"str", "Number", "RawMessage", "bytes", "any", "(ptr str)", "(ptr Number)", "(ptr RawMessage)", "(slice str)", "(slice Number)", "(slice RawMessage)", "(slice bytes)", "(slice any)",
	"(arr 3 str)", "(map str str)", "(map str any)", "(map str RawMessage)", "(map str (slice str))", "(map str bool)", "(map str Number)", "(map str bytes)", "(map str int)",
	"(map int str)", "(map TextKey str)", "(map str (map str str))", "(map str (ptr str))",
	"(struct (f A - str) (f Bc - Number) (f Name - RawMessage) (f Xy - bytes) (f Q - any) (f Zed - (map str str)))",
	"(struct (f A ,string str) (f Bc ,string Number) (f Name ,string int) (f Xy n,string (ptr str)) (f Q ,string bool))",
	"(struct (f Long_Field_Name - str) (f Ünï - str) (f ABC abc (slice str)))",
	"(slice (struct (f A - str) (f Bc - (slice (map str Number)))))",
	"(ptr (ptr (slice (ptr str))))",
}

// ---------------------------------------------------------------------------------------------
// the aliasing map

type span struct{ lo, hi uintptr }

func spanOfCap(b []byte) span {
	if cap(b) == 0 {
		return span{}
	}
	p := uintptr(unsafe.Pointer(unsafe.SliceData(b)))
	return span{p, p + uintptr(cap(b))}
}

// rel: 0 disjoint, 1 straddling, 2 inside
func (s span) rel(p uintptr, n int) int {
	if s.hi == s.lo || n == 0 {
		return 0
	}
	q := p + uintptr(n)
	switch {
	case q <= s.lo || p >= s.hi:
		return 0
	case p >= s.lo && q <= s.hi:
		return 2
	}
	return 1
}

type leaf struct {
	kind   string
	p      unsafe.Pointer
	n      int
	snap   string
	letter byte
}

type wctx struct {
	input     span
	decbuf    span
	pools     []span
	useNumber bool
	leaves    []*leaf
	err       string
}

func (w *wctx) add(kind string, p unsafe.Pointer, n int) {
	l := &leaf{kind: kind, p: p, n: n, letter: 'F'}
	if n == 0 {
		l.letter = 'E'
		l.p = nil
	} else {
		l.snap = string(unsafe.Slice((*byte)(p), n))
		u := uintptr(p)
		switch {
		case w.input.rel(u, n) == 2:
			l.letter = 'I'
		case w.decbuf.rel(u, n) == 2:
			l.letter = 'D'
		case w.input.rel(u, n) == 1 || w.decbuf.rel(u, n) == 1:
			l.letter = 'X'
		}
		for _, ps := range w.pools {
			if ps.rel(u, n) != 0 {
				l.letter = 'P'
			}
		}
	}
	w.leaves = append(w.leaves, l)
}

func (w *wctx) addStr(kind, s string) { w.add(kind, unsafe.Pointer(unsafe.StringData(s)), len(s)) }
func (w *wctx) addBytes(kind string, b []byte) {
	w.add(kind, unsafe.Pointer(unsafe.SliceData(b)), len(b))
}

func (w *wctx) fail(msg string) {
	if w.err == "" {
		w.err = msg
	}
}

func (w *wctx) walkG(x any, g *gnode) {
	switch g.k {
	case "s":
		s, ok := x.(string)
		if !ok {
			w.fail("any:string")
			return
		}
		w.addStr("is", s)
	case "n":
		if w.useNumber {
			n, ok := x.(json.Number)
			if !ok {
				w.fail("any:number")
				return
			}
			w.addStr("in", string(n))
		} else if _, ok := x.(float64); !ok {
			w.fail("any:float")
		}
	case "lit":
	case "arr":
		a, ok := x.([]any)
		if !ok || len(a) != len(g.kids) {
			w.fail("any:array")
			return
		}
		for i, c := range g.kids {
			w.walkG(a[i], c)
		}
	case "obj":
		m, ok := x.(map[string]any)
		if !ok || len(m) != len(g.kids) {
			w.fail("any:object")
			return
		}
		for i, c := range g.kids {
			want := c10Unquote(g.keys[i])
			found := false
			for k, v := range m {
				if k == want {
					w.addStr("ik", k)
					w.walkG(v, c)
					found = true
					break
				}
			}
			if !found {
				w.fail("any:key")
				return
			}
		}
	}
}

func isNullDoc(d *dnode) bool {
	switch d.k {
	case "sc":
		return string(d.raw) == "null"
	case "raw", "any":
		return d.g.k == "lit" && string(d.g.raw) == "null"
	}
	return false
}

func (w *wctx) walk(v reflect.Value, d *dnode) {
	for v.Kind() == reflect.Ptr {
		if v.IsNil() {
			if !isNullDoc(d) {
				w.fail("nil pointer")
			}
			return
		}
		v = v.Elem()
	}
	switch d.k {
	case "sc":
	case "str":
		w.addStr("s", v.String())
	case "qstr":
		w.addStr("qs", v.String())
	case "num":
		w.addStr("n", v.String())
	case "qnum":
		w.addStr("qn", v.String())
	case "raw":
		w.addBytes("r", v.Bytes())
	case "bytes":
		w.addBytes("b", v.Bytes())
	case "any":
		if v.Kind() != reflect.Interface {
			w.fail("not an interface")
			return
		}
		if v.IsNil() {
			if d.g.k != "lit" {
				w.fail("nil interface")
			}
			return
		}
		w.walkG(v.Interface(), d.g)
	case "list":
		if (v.Kind() != reflect.Slice && v.Kind() != reflect.Array) || v.Len() < len(d.kids) {
			w.fail("list")
			return
		}
		for i, c := range d.kids {
			w.walk(v.Index(i), c)
		}
	case "map":
		if v.Kind() != reflect.Map || v.Len() != len(d.ents) {
			w.fail("map")
			return
		}
		for _, e := range d.ents {
			u := c10Unquote(e.key)
			var val reflect.Value
			switch e.kk {
			case "skey":
				it := v.MapRange()
				for it.Next() {
					if it.Key().String() == u {
						w.addStr("k", it.Key().String())
						val = it.Value()
						break
					}
				}
			case "ikey":
				n, _ := strconv.ParseInt(u, 10, 64)
				val = v.MapIndex(reflect.ValueOf(n).Convert(v.Type().Key()))
			case "tkey":
				val = v.MapIndex(reflect.ValueOf(TextKey(strings.TrimPrefix(u, "K:"))))
			}
			if !val.IsValid() {
				w.fail("map key")
				return
			}
			w.walk(val, e.val)
		}
	case "struct":
		if v.Kind() != reflect.Struct {
			w.fail("struct")
			return
		}
		for _, e := range d.ents {
			if e.kk == "u" {
				continue
			}
			w.walk(v.Field(e.fi), e.val)
		}
	}
}

func (w *wctx) letters() string {
	if w.err != "" {
		return "walk:" + w.err
	}
	if len(w.leaves) == 0 {
		return "none"
	}
	p := make([]string, len(w.leaves))
	for i, l := range w.leaves {
		p[i] = l.kind + ":" + string(l.letter)
	}
	return strings.Join(p, " ")
}

const (
	fDCS = int(json.DontCopyString)
	fDCN = int(json.DontCopyNumber)
	fDCR = int(json.DontCopyRawMessage)
	fUN  = int(json.UseNumber)
)

func aliasAllowed(kind string, flags int) bool {
	switch kind {
	case "s", "k", "is", "ik", "qs":
		return flags&fDCS != 0
	case "n", "in", "qn":
		return flags&fDCN != 0
	case "r":
		return flags&fDCR != 0
	}
	return false
}

// verdict over the leaves: permissions now, stability later
func (w *wctx) permissions(flags int, bad *[]string) {
	type iv struct {
		lo, hi uintptr
	}
	var ivs []iv
	for _, l := range w.leaves {
		switch l.letter {
		case 'I', 'D':
			if !aliasAllowed(l.kind, flags) {
				*bad = append(*bad, "alias-without-flag:"+l.kind)
			}
		case 'X':
			*bad = append(*bad, "straddle:"+l.kind)
		case 'P':
			*bad = append(*bad, "pool:"+l.kind)
		}
		// one-byte strings made by the Go runtime's string(b) conversion all point into the runtime's
		// read-only table of single bytes: they share memory with each other by design and nobody can write there
		if l.n > 1 || (l.n == 1 && l.letter != 'F') {
			ivs = append(ivs, iv{uintptr(l.p), uintptr(l.p) + uintptr(l.n)})
		}
	}
	sort.Slice(ivs, func(i, j int) bool { return ivs[i].lo < ivs[j].lo })
	for i := 1; i < len(ivs); i++ {
		if ivs[i].lo < ivs[i-1].hi {
			*bad = append(*bad, "leaves-overlap")
			break
		}
	}
}

func (w *wctx) stability(bad *[]string) (anyAlias bool) {
	for _, l := range w.leaves {
		if l.n == 0 {
			continue
		}
		now := string(unsafe.Slice((*byte)(l.p), l.n))
		switch l.letter {
		case 'I', 'D':
			anyAlias = true
		default:
			if now != l.snap {
				*bad = append(*bad, "unstable:"+l.kind)
			}
		}
	}
	return
}

// ---------------------------------------------------------------------------------------------
// the burst of other library calls

type stormT struct {
	A string
	B []byte
	C map[string]any
	D json.RawMessage
	E json.Number
	F []string
}

// a fault inside the burst (a library call returning garbage because some buffer was shared) is recorded
// and reported by the verdict of the case that ran the burst
var stormFaults struct {
	sync.Mutex
	n int
}

func stormFault() {
	stormFaults.Lock()
	stormFaults.n++
	stormFaults.Unlock()
}

func takeStormFaults(bad *[]string) {
	stormFaults.Lock()
	if stormFaults.n > 0 {
		*bad = append(*bad, "burst-corrupted")
	}
	stormFaults.n = 0
	stormFaults.Unlock()
}

func stormOnce(k int) {
	defer func() {
		if r := recover(); r != nil {
			stormFault()
		}
	}()
	fill := strings.Repeat(string(rune('À'+k%16)), 40+k%7*300)
	v := stormT{A: fill, B: bytes.Repeat([]byte{0xEE}, 100+k*37%2000), C: map[string]any{"k" + fill[:8]: fill, "z": []any{1.5, fill}},
		D: json.RawMessage(`{"x":"` + strings.Repeat("y", 50+k%9*100) + `"}`), E: "123456789", F: []string{fill, "q\"", fill}}
	for i := 0; i < 6; i++ {
		b, err := json.Marshal(&v)
		if err != nil {
			stormFault()
		}
		var back stormT
		if err := json.Unmarshal(b, &back); err != nil || back.A != v.A || string(back.B) != string(v.B) || string(back.D) != string(v.D) || len(back.F) != 3 || back.F[2] != fill {
			stormFault()
		}
		var x any
		if _, err := json.Parse(b, &x, json.ZeroCopy|json.UseNumber); err != nil {
			stormFault()
		}
		for j := range b {
			b[j] = 0xDD
		}
		var sink bytes.Buffer
		enc := json.NewEncoder(&sink)
		enc.Encode(v.C)
		enc.Encode(fill)
		tok := json.NewTokenizer(sink.Bytes())
		for tok.Next() {
			if tok.Kind().Class() == json.String {
				_ = tok.String()
			}
		}
		dec := json.NewDecoder(strings.NewReader(`{"A":"` + fill + `"} ["` + fill + `"] "` + fill + `\n"`))
		dec.ZeroCopy()
		for {
			var y any
			if dec.Decode(&y) != nil {
				break
			}
		}
	}
}

func storm(k int) {
	stormOnce(k)
	var wg sync.WaitGroup
	for g := 0; g < 3; g++ {
		wg.Add(1)
		go func(g int) {
			defer wg.Done()
			stormOnce(k + 1 + g)
		}(g)
	}
	wg.Wait()
	if k%5 == 0 {
		runtime.GC()
	}
	stormOnce(k + 7)
}

// poolSpans drains the package's pooled encode buffers (reached by linkname), records where they
// are, and puts them back.
func poolSpans() []span {
	var got []any
	var out []span
	for i := 0; i < 8; i++ {
		x := c10EncPool.Get()
		got = append(got, x)
		// x is *encoderBuffer{data []byte}
		p := (*struct{ data []byte })((*[2]unsafe.Pointer)(unsafe.Pointer(&x))[1])
		out = append(out, spanOfCap(p.data))
	}
	for _, x := range got {
		c10EncPool.Put(x)
	}
	return out
}

// pairMine: the alias map and the verdict of one run are two cases; the run is evaluated when either
// of them belongs to this shard
func pairMine() bool {
	return ((caseNo+1)%*nshard) == *shard || ((caseNo+2)%*nshard) == *shard
}

func verdict(bad []string) string {
	if len(bad) == 0 {
		return "ok"
	}
	sort.Strings(bad)
	var u []string
	for i, b := range bad {
		if i == 0 || b != bad[i-1] {
			u = append(u, b)
		}
	}
	return "VIOL " + strings.Join(u, ",")
}

// ---------------------------------------------------------------------------------------------
// Unmarshal / Parse

const guardLen = 24

// mDecode: entry "u" (Unmarshal; flags must be 0) or "p" (Parse with flags). capm: 0 = the input
// slice has no spare capacity, 1 = the trailing guard bytes are within its capacity.
func mDecode(entry string, flags, capm int, ws uint64, t *sx, tree *dnode) {
	if !pairMine() {
		skip()
		skip()
		return
	}
	args := fmt.Sprintf("%s|%d|%d|%d|%s|%s", entry, flags, capm, ws, sxString(t), treeSx(tree))
	trace("m.alias", args)
	var own string
	al := guarded(func() string {
		rt := jType(t)
		doc := renderDoc(tree, ws, 0)
		arena := make([]byte, guardLen+len(doc)+guardLen)
		for i := range arena {
			arena[i] = 0xA5
		}
		copy(arena[guardLen:], doc)
		in := arena[guardLen : guardLen+len(doc) : guardLen+len(doc)]
		if capm == 1 {
			in = arena[guardLen : guardLen+len(doc)]
		}
		before := string(arena)
		target := reflect.New(rt)
		var err error
		if entry == "u" {
			err = json.Unmarshal(in, target.Interface())
		} else {
			var rest []byte
			rest, err = json.Parse(in, target.Interface(), json.ParseFlags(flags))
			if err == nil && len(rest) != 0 {
				err = fmt.Errorf("rest")
			}
		}
		var bad []string
		if string(arena) != before {
			bad = append(bad, "input-modified")
		}
		if err != nil {
			own = verdict(append(bad, "decode-error"))
			return "err"
		}
		w := &wctx{input: span{uintptr(unsafe.Pointer(&arena[0])), uintptr(unsafe.Pointer(&arena[0])) + uintptr(len(arena))}, useNumber: flags&fUN != 0, pools: poolSpans()}
		w.walk(target.Elem(), tree)
		w.permissions(flags, &bad)
		r1 := deepString(target.Elem(), 0)
		// the caller reuses its buffer; other calls run
		for i := range arena {
			arena[i] = 0xFF
		}
		storm(int(ws % 64))
		if !w.stability(&bad) {
			if r2 := deepString(target.Elem(), 0); r1 != r2 {
				bad = append(bad, "value-changed")
			}
		}
		for i := range arena {
			if arena[i] != 0xFF {
				bad = append(bad, "input-written-later")
				break
			}
		}
		runtime.KeepAlive(target)
		takeStormFaults(&bad)
		own = verdict(bad)
		return w.letters()
	})
	if al == "PANIC" {
		own = "PANIC"
	}
	emit("m.alias", args, al, "-")
	emit("m.own", args, own, "ok")
}

// ---------------------------------------------------------------------------------------------
// Decoder

type sdoc struct {
	tree *dnode
	pad  int
	gap  int
}

func decBufferSpan(dec *json.Decoder) span {
	f := reflect.ValueOf(dec).Elem().FieldByName("buffer")
	if f.Cap() == 0 {
		return span{}
	}
	p := f.Pointer()
	return span{p, p + uintptr(f.Cap())}
}

func mStream(flags int, mode string, ws uint64, t *sx, docs []sdoc) {
	if !pairMine() {
		skip()
		skip()
		return
	}
	var ds []string
	for _, d := range docs {
		ds = append(ds, fmt.Sprintf("%s;%d;%d", treeSx(d.tree), d.pad, d.gap))
	}
	args := fmt.Sprintf("%d|%s|%d|%s|%s", flags, mode, ws, sxString(t), strings.Join(ds, "|"))
	trace("m.dalias", args)
	var own string
	al := guarded(func() string {
		rt := jType(t)
		var stream []byte
		for i, d := range docs {
			stream = append(stream, bytes.Repeat([]byte{' '}, d.gap)...)
			w := ws
			if w != 0 {
				w += uint64(i)
			}
			stream = append(stream, renderDoc(d.tree, w, d.pad)...)
			stream = append(stream, '\n')
		}
		before := string(stream)
		rd := &scriptReader{data: stream, mode: mode, failAt: -1}
		dec := json.NewDecoder(rd)
		if flags&fDCS != 0 {
			dec.DontCopyString()
		}
		if flags&fDCN != 0 {
			dec.DontCopyNumber()
		}
		if flags&fDCR != 0 {
			dec.DontCopyRawMessage()
		}
		if flags&fUN != 0 {
			dec.UseNumber()
		}
		streamSpan := spanOfCap(stream)
		var bad []string
		var ctxs []*wctx
		var targets []reflect.Value
		var renders []string
		var out []string
		for _, d := range docs {
			target := reflect.New(rt)
			if err := dec.Decode(target.Interface()); err != nil {
				bad = append(bad, "decode-error")
				out = append(out, "err")
				break
			}
			w := &wctx{input: streamSpan, decbuf: decBufferSpan(dec), useNumber: flags&fUN != 0}
			w.walk(target.Elem(), d.tree)
			w.permissions(flags, &bad)
			for _, l := range w.leaves {
				if l.letter == 'I' {
					bad = append(bad, "aliases-reader-data:"+l.kind) // the reader copied: impossible unless the pointer test is wrong
				}
			}
			ctxs = append(ctxs, w)
			targets = append(targets, target)
			renders = append(renders, deepString(target.Elem(), 0))
			out = append(out, w.letters())
		}
		if len(bad) == 0 {
			var x any
			if err := dec.Decode(&x); err == nil {
				bad = append(bad, "no-eof")
			}
		}
		if string(stream) != before {
			bad = append(bad, "input-modified")
		}
		for i := range stream {
			stream[i] = 0xFF
		}
		storm(int(ws % 64))
		for i, w := range ctxs {
			if !w.stability(&bad) {
				if deepString(targets[i].Elem(), 0) != renders[i] {
					bad = append(bad, "value-changed")
				}
			}
		}
		runtime.KeepAlive(targets)
		takeStormFaults(&bad)
		own = verdict(bad)
		return strings.Join(out, " / ")
	})
	if al == "PANIC" {
		own = "PANIC"
	}
	emit("m.dalias", args, al, "-")
	emit("m.down", args, own, "ok")
}

// ---------------------------------------------------------------------------------------------
// Tokenizer

func mTok(ws uint64, g *gnode) {
	if !pairMine() {
		skip()
		skip()
		return
	}
	args := fmt.Sprintf("%d|%s", ws, gSx(g))
	trace("m.tok", args)
	var own string
	al := guarded(func() string {
		r := &renderer{}
		if ws != 0 {
			r.ws = &vrng{s: ws}
		}
		r.g(g)
		doc := append([]byte(nil), r.b.Bytes()...)
		arena := make([]byte, guardLen+len(doc)+guardLen)
		for i := range arena {
			arena[i] = 0xA5
		}
		copy(arena[guardLen:], doc)
		in := arena[guardLen : guardLen+len(doc)]
		before := string(arena)
		inSpan := span{uintptr(unsafe.Pointer(&arena[0])) + guardLen, uintptr(unsafe.Pointer(&arena[0])) + guardLen + uintptr(len(doc))}
		w := &wctx{input: inSpan, pools: poolSpans()}
		var bad []string
		tok := json.NewTokenizer(in)
		n := 0
		for tok.Next() {
			n++
			if n > len(doc)+2 {
				bad = append(bad, "no-termination")
				break
			}
			if len(tok.Value) == 0 || inSpan.rel(uintptr(unsafe.Pointer(&tok.Value[0])), len(tok.Value)) != 2 {
				bad = append(bad, "value-not-subslice")
			}
			if tok.Kind().Class() == json.String {
				w.addBytes("t", tok.String())
			}
		}
		if tok.Err != nil {
			bad = append(bad, "token-error")
		}
		if string(arena) != before {
			bad = append(bad, "input-modified")
		}
		for _, l := range w.leaves {
			if l.letter == 'X' || l.letter == 'P' || l.letter == 'D' {
				bad = append(bad, "string-aliases:"+string(l.letter))
			}
		}
		// String() results handed out earlier are stable (those not pointing into the input: also when it is overwritten)
		for i := range arena {
			arena[i] = 0xFF
		}
		storm(int(ws % 64))
		w.stability(&bad)
		takeStormFaults(&bad)
		own = verdict(bad)
		return w.letters()
	})
	if al == "PANIC" {
		own = "PANIC"
	}
	emit("m.tok", args, al, "-")
	emit("m.tokown", args, own, "ok")
}

// ---------------------------------------------------------------------------------------------
// Marshal / Encoder

type copyWriter struct{ chunks [][]byte }

func (c *copyWriter) Write(p []byte) (int, error) {
	c.chunks = append(c.chunks, append([]byte(nil), p...))
	return len(p), nil
}

func disjoint(a, b []byte) bool {
	if cap(a) == 0 || cap(b) == 0 {
		return true
	}
	sa, sb := spanOfCap(a), spanOfCap(b)
	return sa.hi <= sb.lo || sb.hi <= sa.lo
}

// c10Value: jFill draws a few characters from the global PRNG; pin it so that the value is a function of the seed
func c10Value(t *sx, seed uint64) reflect.Value {
	save := rngState
	rngState = seed ^ 0x5bd1e995
	v := jValue(t, seed, 0)
	rngState = save
	return v
}

func mMarshal(t *sx, seed uint64) {
	if !mine() {
		skip()
		return
	}
	args := fmt.Sprintf("%s|%d", sxString(t), seed)
	trace("m.marshal", args)
	impl := guarded(func() string {
		v := c10Value(t, seed)
		x := v.Addr().Interface()
		r0 := deepString(v, 0)
		var bad []string
		b1, err1 := json.Marshal(x)
		b2, err2 := json.Marshal(x)
		if deepString(v, 0) != r0 {
			bad = append(bad, "value-modified")
		}
		if (err1 == nil) != (err2 == nil) {
			bad = append(bad, "error-differs")
		}
		if err1 != nil || err2 != nil {
			return verdict(bad)
		}
		s1 := string(b1)
		if !disjoint(b1, b2) {
			bad = append(bad, "results-overlap")
		}
		for _, ps := range poolSpans() {
			for _, b := range [][]byte{b1, b2} {
				if len(b) != 0 && ps.rel(uintptr(unsafe.Pointer(&b[0])), len(b)) != 0 {
					bad = append(bad, "result-in-pool")
				}
			}
		}
		cw := &copyWriter{}
		enc := json.NewEncoder(cw)
		if err := enc.Encode(x); err != nil {
			bad = append(bad, "encoder-error")
		}
		// several goroutines marshal the same value and other values at the same time
		var wg sync.WaitGroup
		res := make([][]byte, 4)
		for g := range res {
			wg.Add(1)
			go func(g int) {
				defer wg.Done()
				stormOnce(int(seed%32) + g)
				res[g], _ = json.Marshal(x)
				stormOnce(int(seed%32) + g + 4)
			}(g)
		}
		wg.Wait()
		storm(int(seed % 64))
		// the caller overwrites what it owns: the value itself is rebuilt from the seed afterwards
		for g, b := range res {
			if string(b) != s1 {
				bad = append(bad, "concurrent-result-differs")
			}
			if !disjoint(b, b1) || (g > 0 && !disjoint(b, res[g-1])) {
				bad = append(bad, "results-overlap")
			}
		}
		if string(b1) != s1 || string(b2) != s1 {
			bad = append(bad, "result-unstable")
		}
		if len(cw.chunks) != 1 || string(cw.chunks[0]) != s1+"\n" {
			bad = append(bad, "encoder-output")
		}
		// an indenting Encoder reuses its own buffer between Encode calls: what the Writer copied stays the same
		iw := &copyWriter{}
		ienc := json.NewEncoder(iw)
		ienc.SetIndent(">", "\t")
		ienc.Encode(x)
		stormOnce(int(seed % 16))
		ienc.Encode(x)
		var ind bytes.Buffer
		if err := stdjson.Indent(&ind, []byte(s1), ">", "\t"); err == nil {
			if len(iw.chunks) != 2 || string(iw.chunks[0]) != ind.String()+"\n" || string(iw.chunks[1]) != string(iw.chunks[0]) {
				bad = append(bad, "indent-encoder-output")
			}
		}
		// a fresh, equal value marshals to the same bytes after all of this (cached key fragments intact)
		v2 := c10Value(t, seed)
		b3, err3 := json.Marshal(v2.Addr().Interface())
		if err3 != nil || string(b3) != s1 {
			bad = append(bad, "remarshal-differs")
		}
		if deepString(v, 0) != r0 {
			bad = append(bad, "value-modified")
		}
		// the result belongs to the caller: writing into it (up to its capacity) disturbs nothing
		full := b1[:cap(b1)]
		for i := range full {
			full[i] = 0xFF
		}
		b4, _ := json.Marshal(x)
		if string(b4) != s1 || string(b2) != s1 {
			bad = append(bad, "write-to-result-leaks")
		}
		runtime.KeepAlive(v)
		takeStormFaults(&bad)
		return verdict(bad)
	})
	emit("m.marshal", args, impl, "ok")
}

// ---------------------------------------------------------------------------------------------
// malformed input

func mBad(flags int, t *sx, doc []byte) {
	if !mine() {
		skip()
		return
	}
	args := fmt.Sprintf("%d|%s|%s", flags, sxString(t), hexs(doc))
	trace("m.bad", args)
	impl := guarded(func() string {
		rt := jType(t)
		var bad []string
		arena := make([]byte, guardLen+len(doc)+guardLen)
		for i := range arena {
			arena[i] = 0xA5
		}
		copy(arena[guardLen:], doc)
		in := arena[guardLen : guardLen+len(doc)]
		before := string(arena)
		json.Parse(in, reflect.New(rt).Interface(), json.ParseFlags(flags))
		json.Unmarshal(in, reflect.New(rt).Interface())
		json.Valid(in)
		tok := json.NewTokenizer(in)
		for n := 0; tok.Next() && n <= len(doc)+2; n++ {
			if tok.Kind().Class() == json.String {
				_ = tok.String()
			}
		}
		dec := json.NewDecoder(&scriptReader{data: in, mode: "r7", failAt: -1})
		for {
			if err := dec.Decode(reflect.New(rt).Interface()); err != nil {
				break
			}
		}
		if string(arena) != before {
			bad = append(bad, "input-modified")
		}
		return verdict(bad)
	})
	emit("m.bad", args, impl, "ok")
}

// ---------------------------------------------------------------------------------------------

func c10() {
	nT := 130
	reps := 1
	if *tier == "thorough" {
		nT = 900
		reps = 2
	}
	var types []*sx
	for _, s := range c10Fixed {
		types = append(types, parseSx(s))
	}
	for i := 0; i < nT; i++ {
		if rndn(3) == 0 {
			types = append(types, c10Struct(0))
		} else {
			types = append(types, c10Type(0))
		}
	}
	subsets := []int{0, fDCS, fDCN, fDCR, fDCS | fDCN, fDCS | fDCR, fDCN | fDCR, fDCS | fDCN | fDCR}
	wsOf := func() uint64 {
		if rndn(3) == 0 {
			return 0
		}
		return 1 + rnd()%1000000
	}
	for _, t := range types {
		for rep := 0; rep < reps; rep++ {
			mDecode("u", 0, rndn(2), wsOf(), t, c10Doc(t, 0))
			for _, fl := range subsets {
				if rndBool() {
					fl |= fUN
				}
				mDecode("p", fl, rndn(2), wsOf(), t, c10Doc(t, 0))
			}
			// Decoder: 3-5 documents; gaps and padding force compaction and regrowth of the read buffer
			for k := 0; k < 3; k++ {
				fl := pick(subsets)
				if k == 0 {
					fl = fDCS | fDCN | fDCR
				}
				if k == 1 {
					fl = 0
				}
				if rndBool() {
					fl |= fUN
				}
				var docs []sdoc
				for n := 3 + rndn(3); n > 0; n-- {
					docs = append(docs, sdoc{tree: c10Doc(t, 0), pad: pick([]int{0, 0, 0, 3000, 30000, 70000}), gap: pick([]int{0, 1, 1, 5000, 29000, 33000, 40000})})
				}
				mStream(fl, pick([]string{"all", "r100", "r5000", "dataerr", "r7"}), wsOf(), t, docs)
			}
			// malformed
			doc := renderDoc(c10Doc(t, 0), wsOf(), 0)
			for k := 0; k < 2; k++ {
				mBad(pick(subsets), t, mutateDoc(doc))
			}
			if len(doc) > 1 {
				mBad(pick(subsets), t, doc[:rndn(len(doc))])
			}
		}
	}
	// tokenizer
	nK := 300
	if *tier == "thorough" {
		nK = 3000
	}
	for i := 0; i < nK; i++ {
		mTok(wsOf(), c10G(3))
	}
	// Marshal / Encoder over the shared json type universe
	g := &jgen{maxDepth: 3}
	nM := 250
	if *tier == "thorough" {
		nM = 2500
	}
	var mt []*sx
	for _, s := range c01Fixed {
		mt = append(mt, parseSx(s))
	}
	for i := 0; i < nM; i++ {
		if rndn(3) == 0 {
			mt = append(mt, g.ty(0))
		} else {
			mt = append(mt, g.structTy(0))
		}
	}
	for _, t := range mt {
		mMarshal(t, rnd())
		if rndn(4) == 0 {
			mMarshal(t, rnd())
		}
	}
	// the same destination decoded into repeatedly
	c10Reuse()
}
