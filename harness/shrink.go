package main

// Delta-debugging of descriptor-based cases (proto / thrift / json type+value pairs): remove struct
// fields, slice elements and map entries while the case still fails. "Fails" is decided by
// re-running the case in a CHILD process (so that fatal faults are observable): the child exits
// non-zero, or prints a case line whose implementation observable differs from the oracle's.

import (
	"bufio"
	"bytes"
	"fmt"
	"os"
	"os/exec"
	"strings"
)

func init() { register("shrink", shrinkCmd) }

// failClass runs the case in a child process: "" (passes), "crash" (child died), "panic"
// (recovered panic observable), "mismatch" (implementation differs from the oracle).
func failClass(fn, args string) string {
	cmd := exec.Command(os.Args[0], "replay")
	cmd.Stdin = strings.NewReader(fn + "\t" + args + "\n")
	var out bytes.Buffer
	cmd.Stdout = &out
	err := cmd.Run()
	if err != nil {
		return "crash"
	}
	f := strings.Split(strings.TrimRight(out.String(), "\n"), "\t")
	if len(f) != 4 {
		return ""
	}
	if f[2] == "PANIC" {
		return "panic"
	}
	if f[3] != "-" && f[2] != f[3] {
		return "mismatch"
	}
	return ""
}

var wantClass string

func childFails(fn, args string) bool {
	c := failClass(fn, args)
	if wantClass == "" {
		return c != ""
	}
	return c == wantClass
}

// paths into a (type,value) pair are explored by rebuilding: candidates returns all one-step reductions.
func candidates(t *pty, v *pval) [](struct {
	t *pty
	v *pval
}) {
	type tv = struct {
		t *pty
		v *pval
	}
	var out []tv
	switch t.k {
	case kStruct:
		for i := range t.fields {
			nt := &pty{k: kStruct, fields: append(append([]pfield(nil), t.fields[:i]...), t.fields[i+1:]...)}
			// keep explicit numbering stable: give every remaining untagged field an explicit tag with its old number
			nv := &pval{k: kStruct, elems: append(append([]*pval(nil), v.elems[:i]...), v.elems[i+1:]...)}
			out = append(out, tv{nt, nv})
		}
		for i, f := range t.fields {
			for _, c := range candidates(f.t, v.elems[i]) {
				nt := &pty{k: kStruct, fields: append([]pfield(nil), t.fields...)}
				nt.fields[i] = pfield{tag: f.tag, t: c.t}
				nv := &pval{k: kStruct, elems: append([]*pval(nil), v.elems...)}
				nv.elems[i] = c.v
				out = append(out, tv{nt, nv})
			}
			// replace a field value by its zero value
			z := zeroValue(f.t)
			if z.String() != v.elems[i].String() {
				nv := &pval{k: kStruct, elems: append([]*pval(nil), v.elems...)}
				nv.elems[i] = z
				out = append(out, tv{t, nv})
			}
		}
	case kSlice:
		for i := range v.elems {
			nv := &pval{k: kSlice, elems: append(append([]*pval(nil), v.elems[:i]...), v.elems[i+1:]...)}
			out = append(out, tv{t, nv})
		}
		for i := range v.elems {
			for _, c := range candidates(t.elem, v.elems[i]) {
				if c.t.String() != t.elem.String() {
					if len(v.elems) != 1 {
						continue
					}
					out = append(out, tv{&pty{k: kSlice, elem: c.t}, &pval{k: kSlice, elems: []*pval{c.v}}})
					continue
				}
				nv := &pval{k: kSlice, elems: append([]*pval(nil), v.elems...)}
				nv.elems[i] = c.v
				out = append(out, tv{t, nv})
			}
		}
	case kMap:
		for i := range v.elems {
			nv := &pval{k: kMap, keys: append(append([]*pval(nil), v.keys[:i]...), v.keys[i+1:]...), elems: append(append([]*pval(nil), v.elems[:i]...), v.elems[i+1:]...)}
			out = append(out, tv{t, nv})
		}
		for i := range v.elems {
			for _, c := range candidates(t.elem, v.elems[i]) {
				if c.t.String() != t.elem.String() {
					if len(v.elems) != 1 {
						continue
					}
					out = append(out, tv{&pty{k: kMap, key: t.key, elem: c.t}, &pval{k: kMap, keys: v.keys, elems: []*pval{c.v}}})
					continue
				}
				nv := &pval{k: kMap, keys: v.keys, elems: append([]*pval(nil), v.elems...)}
				nv.elems[i] = c.v
				out = append(out, tv{t, nv})
			}
		}
	case kPtr:
		if !v.isnil {
			for _, c := range candidates(t.elem, v.elem) {
				out = append(out, tv{&pty{k: kPtr, elem: c.t}, &pval{k: kPtr, elem: c.v}})
			}
		}
	case kString, kBytes:
		if len(v.s) > 1 {
			out = append(out, tv{t, &pval{k: t.k, s: v.s[:len(v.s)/2], isnil: v.isnil}})
		}
	}
	return out
}

func shrinkCmd() {
	sc := bufio.NewScanner(os.Stdin)
	sc.Buffer(make([]byte, 1<<20), 1<<28)
	for sc.Scan() {
		f := strings.SplitN(sc.Text(), "\t", 3)
		if len(f) < 2 {
			continue
		}
		fn := f[0]
		parts := strings.Split(f[1], "|")
		wantClass = ""
		if len(parts) >= 2 {
			wantClass = failClass(fn, f[1])
		}
		if len(parts) < 2 || wantClass == "" {
			fmt.Fprintf(out, "%s\t%s\n", fn, f[1])
			continue
		}
		t := tyFromSx(parseSx(parts[0]))
		v := valFromSx(t, parseSx(parts[1]))
		// make every field number explicit so that removing a field does not renumber the others
		if nt := explicitNumbers(t); failClass(fn, nt.String()+"|"+v.String()+strings.Join(append([]string{""}, parts[2:]...), "|")) == wantClass {
			t = nt
		}
		rest := ""
		if len(parts) > 2 {
			rest = "|" + strings.Join(parts[2:], "|")
		}
		for progress := true; progress; {
			progress = false
			for _, c := range candidates(t, v) {
				if childFails(fn, c.t.String()+"|"+c.v.String()+rest) {
					t, v = c.t, c.v
					progress = true
					break
				}
			}
		}
		fmt.Fprintf(out, "%s\t%s|%s%s\t%s\n", fn, t.String(), v.String(), rest, wantClass)
	}
}

func explicitNumbers(t *pty) *pty {
	switch t.k {
	case kStruct:
		nt := &pty{k: kStruct}
		for i, f := range t.fields {
			nf := pfield{t: explicitNumbers(f.t), tag: f.tag}
			if nf.tag == nil {
				base := f.t
				for base.k == kPtr {
					base = base.elem
				}
				w := 0
				switch base.k {
				case kString, kBytes, kStruct, kMap, kArr, kRaw:
					w = 2
				}
				nf.tag = &ptag{wire: w, number: i + 1, repeated: base.k == kSlice}
			}
			nt.fields = append(nt.fields, nf)
		}
		return nt
	case kPtr:
		return &pty{k: kPtr, elem: explicitNumbers(t.elem)}
	case kSlice:
		return &pty{k: kSlice, elem: explicitNumbers(t.elem)}
	case kMap:
		return &pty{k: kMap, key: t.key, elem: explicitNumbers(t.elem)}
	}
	return t
}
