//go:build verif && c01s

package main

// C01/C02 scalar core: strings and integers through the public API of segmentio/encoding/json, against
// encoding/json, on inputs aimed at the mechanisms of encodeString / escapeIndex (8-byte word scan),
// parseString / parseStringUnquote (8/16-byte quote scan, escapes, surrogates, UTF-8 coercion),
// formatInteger (two-digit table) and the typed integer decoders (range tests).
//
// Cases (fn, args -> observable):
//
//	s.esc      <hex s>             AppendEscape(nil,s,EscapeHTML) AppendEscape(nil,s,0)   (Escape and Marshal checked inline)
//	s.escf     <flags> <hex s>     AppendEscape(nil,s,flags)
//	s.unq      <hex doc>           Unmarshal(doc,&s): ok <hex> | null | err
//	s.unesc    <hex lit>           AppendUnescape(nil,lit,0)
//	s.rt       <hex s>             Unmarshal(Marshal(s))
//	s.sanitize <hex s>             string([]rune(s))                  (stdlib only: ties the models of utf8)
//	s.utf8dec  <hex>               utf8.DecodeRune                    (stdlib only)
//	s.utf8enc  <rune>              utf8.AppendRune                    (stdlib only)
//	s.utf16    <r1> <r2>           utf16.IsSurrogate utf16.DecodeRune (stdlib only)
//	s.int.enc  <type> <value>      Marshal of the typed value
//	s.int.dec  <type> <hex doc>    Unmarshal(doc,&x): ok <v> | null | err
//	s.float    <bits> <hex Float64bits> <hex Float32bits> <hex AppendFloat 'e'> <hex AppendFloat 'f'>
//	                               Marshal(v) and Append([e-, v): <hex> <hex> | err err   (v a float64 or float32)
//	s.floatq   (same args)         Marshal(struct{F floatN `json:"f,string"`}{v})

import (
	"bytes"
	stdjson "encoding/json"
	"fmt"
	"math"
	"strconv"
	"unicode/utf16"
	"unicode/utf8"

	"github.com/segmentio/encoding/json"
)

func init() {
	register("c01s", c01s)
	replayers["s.esc"] = func(a []string) { sEsc(unhex(a[0])) }
	replayers["s.escf"] = func(a []string) {
		f, _ := strconv.ParseUint(a[0], 10, 32)
		sEscF(uint32(f), unhex(a[1]))
	}
	replayers["s.unq"] = func(a []string) { sUnq(unhex(a[0])) }
	replayers["s.unesc"] = func(a []string) { sUnesc(unhex(a[0])) }
	replayers["s.rt"] = func(a []string) { sRT(unhex(a[0])) }
	replayers["s.int.enc"] = func(a []string) { sIntEnc(a[0], a[1]) }
	replayers["s.int.dec"] = func(a []string) { sIntDec(a[0], unhex(a[1])) }
}

func sGuard(f func() string) (s string) {
	defer func() {
		if r := recover(); r != nil {
			s = fmt.Sprintf("panic %v", r)
			for i := 0; i < len(s); i++ {
				if s[i] == '\t' || s[i] == '\n' {
					s = s[:i]
					break
				}
			}
		}
	}()
	return f()
}

func stdEscape(s string, html bool) []byte {
	var ob bytes.Buffer
	oe := stdjson.NewEncoder(&ob)
	oe.SetEscapeHTML(html)
	if err := oe.Encode(s); err != nil {
		return []byte("ERR")
	}
	return bytes.TrimSuffix(ob.Bytes(), []byte("\n"))
}

func sEsc(s []byte) {
	if !mine() {
		skip()
		return
	}
	args := hexs(s)
	trace("s.esc", args)
	orc := hexs(stdEscape(string(s), true)) + " " + hexs(stdEscape(string(s), false))
	impl := sGuard(func() string {
		h := json.AppendEscape(nil, string(s), json.EscapeHTML)
		n := json.AppendEscape(nil, string(s), 0)
		if e := json.Escape(string(s)); !bytes.Equal(e, h) {
			return "MISMATCH Escape " + hexs(e)
		}
		if m, err := json.Marshal(string(s)); err != nil || !bytes.Equal(m, h) {
			return "MISMATCH Marshal " + hexs(m)
		}
		// the buffer prefix is preserved
		if p := json.AppendEscape([]byte("xy"), string(s), 0); !bytes.Equal(p, append([]byte("xy"), n...)) {
			return "MISMATCH prefix " + hexs(p)
		}
		return hexs(h) + " " + hexs(n)
	})
	emit("s.esc", args, impl, orc)
}

func sEscF(flags uint32, s []byte) {
	if !mine() {
		skip()
		return
	}
	args := fmt.Sprintf("%d %s", flags, hexs(s))
	trace("s.escf", args)
	orc := hexs(stdEscape(string(s), flags&uint32(json.EscapeHTML) != 0))
	impl := sGuard(func() string { return hexs(json.AppendEscape(nil, string(s), json.AppendFlags(flags))) })
	emit("s.escf", args, impl, orc)
}

func strObs(err error, s string, init string) string {
	if err != nil {
		return "err"
	}
	if s == init {
		return "null"
	}
	return "ok " + hexs([]byte(s))
}

const strInit = "\x00INIT\x00"

func sUnq(doc []byte) {
	if !mine() {
		skip()
		return
	}
	args := hexs(doc)
	trace("s.unq", args)
	os := strInit
	oerr := stdjson.Unmarshal(doc, &os)
	orc := strObs(oerr, os, strInit)
	impl := sGuard(func() string {
		in := append([]byte(nil), doc...)
		s := strInit
		err := json.Unmarshal(in, &s)
		if !bytes.Equal(in, doc) {
			return "MISMATCH input modified"
		}
		return strObs(err, s, strInit)
	})
	emit("s.unq", args, impl, orc)
}

func sUnesc(lit []byte) {
	if !mine() {
		skip()
		return
	}
	args := hexs(lit)
	trace("s.unesc", args)
	impl := sGuard(func() string {
		in := append([]byte(nil), lit...)
		r := json.AppendUnescape(nil, in, 0)
		if u := json.Unescape(in); !bytes.Equal(u, r) {
			return "MISMATCH Unescape " + hexs(u)
		}
		return hexs(r)
	})
	emit("s.unesc", args, impl, "-")
}

func sRT(s []byte) {
	if !mine() {
		skip()
		return
	}
	args := hexs(s)
	trace("s.rt", args)
	orc := "ok " + hexs([]byte(string([]rune(string(s)))))
	impl := sGuard(func() string {
		m, err := json.Marshal(string(s))
		if err != nil {
			return "err-marshal"
		}
		var back string
		if err := json.Unmarshal(m, &back); err != nil {
			return "err"
		}
		return "ok " + hexs([]byte(back))
	})
	emit("s.rt", args, impl, orc)
}

func sSanitize(s []byte) {
	o := hexs([]byte(string([]rune(string(s)))))
	emit("s.sanitize", hexs(s), o, o)
}

func sUtf8Dec(s []byte) {
	r, n := utf8.DecodeRune(s)
	r2, n2 := utf8.DecodeRuneInString(string(s))
	o := fmt.Sprintf("%d %d", r, n)
	if r2 != r || n2 != n {
		o = "MISMATCH DecodeRuneInString"
	}
	emit("s.utf8dec", hexs(s), o, o)
}

func sUtf8Enc(r rune) {
	var buf [4]byte
	n := utf8.EncodeRune(buf[:], r)
	o := hexs(buf[:n])
	emit("s.utf8enc", fmt.Sprintf("%d", r), o, o)
}

func sUtf16(r1, r2 rune) {
	o := fmt.Sprintf("%v %d", utf16.IsSurrogate(r1), utf16.DecodeRune(r1, r2))
	emit("s.utf16", fmt.Sprintf("%d %d", r1, r2), o, o)
}

// ---- integers ----

var intTypes = []string{"int", "int8", "int16", "int32", "int64", "uint", "uint8", "uint16", "uint32", "uint64", "uintptr"}

func intBits(ty string) (signed bool, bits int) {
	switch ty {
	case "int", "int64":
		return true, 64
	case "int8":
		return true, 8
	case "int16":
		return true, 16
	case "int32":
		return true, 32
	case "uint", "uint64", "uintptr":
		return false, 64
	case "uint8":
		return false, 8
	case "uint16":
		return false, 16
	case "uint32":
		return false, 32
	}
	panic(ty)
}

// intVar returns a pointer to a fresh variable of the named type holding v (wrapped), and a reader of its value
func intVar(ty string, sv int64, uv uint64) (ptr any, get func() string) {
	switch ty {
	case "int":
		x := int(sv)
		return &x, func() string { return strconv.FormatInt(int64(x), 10) }
	case "int8":
		x := int8(sv)
		return &x, func() string { return strconv.FormatInt(int64(x), 10) }
	case "int16":
		x := int16(sv)
		return &x, func() string { return strconv.FormatInt(int64(x), 10) }
	case "int32":
		x := int32(sv)
		return &x, func() string { return strconv.FormatInt(int64(x), 10) }
	case "int64":
		x := sv
		return &x, func() string { return strconv.FormatInt(x, 10) }
	case "uint":
		x := uint(uv)
		return &x, func() string { return strconv.FormatUint(uint64(x), 10) }
	case "uint8":
		x := uint8(uv)
		return &x, func() string { return strconv.FormatUint(uint64(x), 10) }
	case "uint16":
		x := uint16(uv)
		return &x, func() string { return strconv.FormatUint(uint64(x), 10) }
	case "uint32":
		x := uint32(uv)
		return &x, func() string { return strconv.FormatUint(uint64(x), 10) }
	case "uint64":
		x := uv
		return &x, func() string { return strconv.FormatUint(x, 10) }
	case "uintptr":
		x := uintptr(uv)
		return &x, func() string { return strconv.FormatUint(uint64(x), 10) }
	}
	panic(ty)
}

// value is a decimal text in the range of the type
func sIntEnc(ty string, value string) {
	if !mine() {
		skip()
		return
	}
	args := ty + " " + value
	trace("s.int.enc", args)
	signed, _ := intBits(ty)
	var sv int64
	var uv uint64
	if signed {
		sv, _ = strconv.ParseInt(value, 10, 64)
	} else {
		uv, _ = strconv.ParseUint(value, 10, 64)
	}
	p, get := intVar(ty, sv, uv)
	if get() != value {
		panic("s.int.enc: value out of range of type: " + args)
	}
	ob, oerr := stdjson.Marshal(p)
	orc := outObs(ob, oerr)
	impl := sGuard(func() string {
		b, err := json.Marshal(p)
		b2, err2 := json.Append([]byte("["), p, 0)
		if err2 != nil || !bytes.Equal(b2, append([]byte("["), b...)) {
			return "MISMATCH Append " + hexs(b2)
		}
		return outObs(b, err)
	})
	emit("s.int.enc", args, impl, orc)
}

const intInit = 77

func intObs(err error, get func() string, doc []byte) string {
	if err != nil {
		return "err"
	}
	v := get()
	if v == "77" && !bytes.Contains(doc, []byte("77")) {
		return "null"
	}
	return "ok " + v
}

func sIntDec(ty string, doc []byte) {
	if !mine() {
		skip()
		return
	}
	args := ty + " " + hexs(doc)
	trace("s.int.dec", args)
	op, oget := intVar(ty, intInit, intInit)
	oerr := stdjson.Unmarshal(doc, op)
	orc := intObs(oerr, oget, doc)
	impl := sGuard(func() string {
		in := append([]byte(nil), doc...)
		p, get := intVar(ty, intInit, intInit)
		err := json.Unmarshal(in, p)
		if !bytes.Equal(in, doc) {
			return "MISMATCH input modified"
		}
		return intObs(err, get, doc)
	})
	emit("s.int.dec", args, impl, orc)
}

// ---- generators ----

var escBytes = []byte{0x00, 0x01, 0x07, 0x08, 0x09, 0x0a, 0x0b, 0x0c, 0x0d, 0x0e, 0x1f, 0x20, 0x21, '"', '#', '&', '\'', '/', '<', '=', '>', '[', '\\', ']',
	0x7e, 0x7f, 0x80, 0x81, 0xa8, 0xa9, 0xbf, 0xc0, 0xc1, 0xc2, 0xdf, 0xe0, 0xe2, 0xed, 0xef, 0xf0, 0xf4, 0xf5, 0xfe, 0xff}

// byte sequences: valid runes of every width and the families of ill-formed UTF-8
var utf8Seqs = [][]byte{
	{0xc2, 0x80}, {0xdf, 0xbf}, {0xe0, 0xa0, 0x80}, {0xe1, 0x80, 0xa8}, {0xe2, 0x80, 0xa7}, {0xe2, 0x80, 0xa8}, {0xe2, 0x80, 0xa9}, {0xe2, 0x80, 0xaa}, {0xe2, 0x81, 0xa8},
	{0xe3, 0x80, 0xa8}, {0xec, 0xbf, 0xbf}, {0xed, 0x9f, 0xbf}, {0xee, 0x80, 0x80}, {0xef, 0xbf, 0xbd}, {0xef, 0xbf, 0xbf}, {0xf0, 0x90, 0x80, 0x80}, {0xf0, 0x9f, 0x98, 0x80},
	{0xf3, 0xbf, 0xbf, 0xbf}, {0xf4, 0x8f, 0xbf, 0xbf},
	// lone continuation bytes, lone lead bytes
	{0x80}, {0xbf}, {0xc2}, {0xe2}, {0xf0}, {0xff}, {0xfe}, {0xf8, 0x88, 0x80, 0x80, 0x80},
	// truncated
	{0xe2, 0x80}, {0xf0, 0x9f}, {0xf0, 0x9f, 0x98}, {0xe2, 0x28, 0xa8}, {0xf0, 0x9f, 0x41, 0x80}, {0xf0, 0x9f, 0x98, 0x41}, {0xc2, 0x41}, {0xc2, 0xc2, 0x80},
	// overlong
	{0xc0, 0x80}, {0xc0, 0xaf}, {0xc1, 0xbf}, {0xe0, 0x80, 0x80}, {0xe0, 0x9f, 0xbf}, {0xf0, 0x80, 0x80, 0x80}, {0xf0, 0x8f, 0xbf, 0xbf},
	// surrogates in UTF-8 (CESU), above U+10FFFF
	{0xed, 0xa0, 0x80}, {0xed, 0xaf, 0xbf}, {0xed, 0xb0, 0x80}, {0xed, 0xbf, 0xbf}, {0xed, 0xa0, 0x80, 0xed, 0xb0, 0x80}, {0xf4, 0x90, 0x80, 0x80}, {0xf5, 0x80, 0x80, 0x80}, {0xf7, 0xbf, 0xbf, 0xbf},
}

func fill(n int, c byte) []byte { return bytes.Repeat([]byte{c}, n) }

func rndString(maxLen int) []byte {
	n := rndn(maxLen + 1)
	b := make([]byte, 0, n+4)
	for len(b) < n {
		switch rndn(10) {
		case 0:
			b = append(b, pick(escBytes))
		case 1:
			b = append(b, pick(utf8Seqs)...)
		case 2:
			b = append(b, byte(rnd()))
		default:
			b = append(b, byte(0x20+rndn(0x5f)))
		}
	}
	return b
}

func c01sStrings(each func([]byte)) {
	// every interesting byte at every offset 0..24 of strings whose length crosses the 8-byte word boundaries
	for _, c := range escBytes {
		for off := 0; off <= 24; off++ {
			for _, total := range []int{off + 1, off + 2, (off/8 + 1) * 8, (off/8+1)*8 + 1, 25, 33} {
				if total <= off {
					continue
				}
				s := fill(total, 'a')
				s[off] = c
				each(s)
			}
		}
	}
	// two special bytes: the second one after the first (the word scan only finds the first)
	for i := 0; i < 300; i++ {
		s := fill(8+rndn(20), 'b')
		s[rndn(len(s))] = pick(escBytes)
		s[rndn(len(s))] = pick(escBytes)
		each(s)
	}
	// UTF-8 sequences (valid, ill-formed) at every offset around the word boundaries, alone, doubled, and followed by ASCII
	for _, q := range utf8Seqs {
		for off := 0; off <= 17; off++ {
			each(append(append(fill(off, 'x'), q...), fill(rndn(3)*4, 'y')...))
		}
		each(append(append([]byte{}, q...), q...))
		for _, q2 := range utf8Seqs[:24] {
			each(append(append(fill(6, 'z'), q...), q2...))
		}
	}
	for _, n := range []int{0, 1, 7, 8, 9, 15, 16, 17, 64} {
		each(fill(n, 'a'))
		each(fill(n, 0x7f))
		each(fill(n, '<'))
		each(fill(n, 0x80))
		each(fill(n, '\\'))
	}
	nr := 1500
	if *tier == "thorough" {
		nr = 30000
	}
	for i := 0; i < nr; i++ {
		each(rndString(40))
	}
}

var hexAlpha = "0123456789abcdefABCDEF"

func rndU4(kind int) []byte {
	var v int
	switch kind {
	case 0:
		v = rndn(0x80)
	case 1:
		v = 0x80 + rndn(0x780)
	case 2:
		v = 0xd800 + rndn(0x400) // high surrogate
	case 3:
		v = 0xdc00 + rndn(0x400) // low surrogate
	case 4:
		v = pick([]int{0, 0x22, 0x5c, 0x7f, 0x80, 0x7ff, 0x800, 0x2028, 0x2029, 0xd7ff, 0xd800, 0xdbff, 0xdc00, 0xdfff, 0xe000, 0xfffd, 0xfffe, 0xffff})
	default:
		v = rndn(0x10000)
	}
	s := fmt.Sprintf("%04x", v)
	b := []byte(`\u` + s)
	for i := 2; i < 6; i++ {
		if rndBool() && b[i] >= 'a' {
			b[i] -= 0x20
		}
	}
	return b
}

// a string literal body piece; bad selects ill-formed pieces
func rndPiece(bad bool) []byte {
	if bad {
		switch rndn(12) {
		case 0:
			return []byte{'\\', pick([]byte{'x', 'a', '0', 'U', '\'', ' ', 'v', 0x00, 0x80})}
		case 1:
			return []byte(`\u` + string(hexAlpha[rndn(22)]) + pick([]string{"", "1", "12", "g123", "1g23", "12g3", "123g", "12 4", "-123", "+123"}))
		case 2:
			return []byte{byte(rndn(0x20))}
		case 3:
			return []byte{'"'}
		case 4:
			return []byte{'\\'}
		case 5:
			return append(rndU4(2), '\\')
		case 6:
			return append(rndU4(2), []byte(`\u12`)...)
		case 7:
			return append(rndU4(2), []byte(`\x`)...)
		case 8:
			return append(rndU4(2), []byte(`\u`)...)
		default:
			return pick(utf8Seqs[19:])
		}
	}
	switch rndn(12) {
	case 0:
		return []byte{'\\', pick([]byte(`"\/bfnrt`))}
	case 1:
		return rndU4(rndn(6))
	case 2:
		return append(rndU4(2), rndU4(3)...) // pair
	case 3:
		return append(rndU4(2), rndU4(rndn(6))...) // high + anything
	case 4:
		return append(rndU4(3), rndU4(2)...) // low + high
	case 5:
		return pick(utf8Seqs)
	case 6:
		return append(rndU4(2), pick([][]byte{[]byte("u"), []byte(`\n`), []byte("x"), []byte(`\\u0041`), {0xe2, 0x80, 0xa8}})...)
	case 7:
		return []byte{pick([]byte{0x7f, '/', '<', '>', '&', '\'', ' '})}
	default:
		n := 1 + rndn(6)
		b := make([]byte, n)
		for i := range b {
			b[i] = byte('a' + rndn(26))
		}
		return b
	}
}

func c01sDocs(each func([]byte)) {
	ws := []string{"", " ", "\n", "\t\r ", "  "}
	fixed := []string{
		`""`, `"a"`, `null`, ` null `, `nul`, `nulll`, `null x`, `nullx`, `NULL`, `"`, ``, ` `, `"\`, `"\"`, `"\u`, `"\u0`, `"\u00`, `"\u004`, `"A`, `"A"`,
		`"😀"`, `"\ud83d"`, `"\ude00"`, `"\ud83d😀"`, `"\ud83dA"`, `"\ud83dx"`, `"\ud83d\n"`, `"\ud83d\\ude00"`, `"\ud83d\ude0"`, `"\ud83d\ude0g"`, `"\ud83d\u"`, `"\ud83d\"`,
		`"😀"`, `"􏿿"`, `"𐀀"`, `"\ud800\udbff"`, `"\udc00\ud800"`, `"\ud800"`, `"�"`, `"￿"`, `"\u0000"`,
		`"a" x`, `"a""b"`, `"a",`, `'a'`, `"a\'b"`, `"\/"`, `"/"`, `1`, `true`, `{}`, `["a"]`, `"  "`, "\"\xe2\x80\xa8\"", "\"\xff\"", "\"\xed\xa0\x80\"", "\"a\x00b\"", "\"a\x1fb\"", "\"a\nb\"", "\"a\tb\"",
		"\xef\xbb\xbf\"a\"", `"\x41"`, `"\U00000041"`, `"\u004 1"`, `"\u+041"`, `"\u-041"`, `"\u 041"`,
	}
	for _, f := range fixed {
		each([]byte(f))
		each([]byte(" " + f + "\n"))
	}
	// the quote scan reads 8 and 16 bytes after the opening quote: put every kind of piece at every offset 0..18
	nround := 2
	if *tier == "thorough" {
		nround = 20
	}
	for round := 0; round < nround; round++ {
		for off := 0; off <= 18; off++ {
			for k := 0; k < 12; k++ {
				body := fill(off, byte('a'+rndn(26)))
				body = append(body, rndPiece(k%4 == 3)...)
				if rndBool() {
					body = append(body, fill(rndn(10), 'q')...)
				}
				doc := append(append([]byte(`"`), body...), '"')
				each(append(append([]byte(pick(ws)), doc...), pick(ws)...))
			}
		}
	}
	// random literals from pieces, mostly valid; then single-byte mutations and truncations
	nr := 2500
	if *tier == "thorough" {
		nr = 50000
	}
	for i := 0; i < nr; i++ {
		var body []byte
		np := rndn(7)
		bad := rndn(6) == 0
		badAt := rndn(np + 1)
		for j := 0; j < np; j++ {
			body = append(body, rndPiece(bad && j == badAt)...)
		}
		doc := append(append([]byte(`"`), body...), '"')
		switch rndn(12) {
		case 0:
			if len(doc) > 1 {
				doc = doc[:1+rndn(len(doc)-1)]
			}
		case 1:
			doc[rndn(len(doc))] = pick(escBytes)
		case 2:
			doc = append(doc, pick([]string{"x", `"`, ",", " 1", "\x00", `""`})...)
		}
		each(append(append([]byte(pick(ws)), doc...), pick(ws)...))
	}
}

func c01sInts() {
	// values: boundaries of every width, of every decimal digit count (the two-digit table), random
	var vals []string
	add := func(s string) { vals = append(vals, s) }
	for k := 0; k <= 64; k++ {
		p := new(bigInt).lsh(k)
		for _, d := range []int64{-2, -1, 0, 1, 2} {
			add(p.addInt(d).String())
			add(p.addInt(d).neg().String())
		}
	}
	for k := 0; k <= 20; k++ {
		p := new(bigInt).pow10(k)
		for _, d := range []int64{-1, 0, 1} {
			add(p.addInt(d).String())
			add(p.addInt(d).neg().String())
		}
	}
	for _, s := range []string{"12", "99", "100", "101", "1234", "12345", "999999", "1000000", "1000001", "100100100100", "9999999999999999999", "10000000000000000000",
		"18446744073709551615", "18446744073709551616", "9223372036854775807", "9223372036854775808", "-9223372036854775808", "-9223372036854775809",
		"99999999999999999999", "184467440737095516150", "1844674407370955161", "36893488147419103232", "340282366920938463463374607431768211456"} {
		add(s)
	}
	nr := 400
	if *tier == "thorough" {
		nr = 8000
	}
	for i := 0; i < nr; i++ {
		v := rnd() >> uint(rndn(64))
		add(strconv.FormatUint(v, 10))
		add("-" + strconv.FormatUint(v, 10))
	}
	for _, ty := range intTypes {
		signed, bits := intBits(ty)
		seen := map[string]bool{}
		for _, v := range vals {
			// encoding: only values of the type
			ok := false
			if signed {
				if x, err := strconv.ParseInt(v, 10, bits); err == nil && strconv.FormatInt(x, 10) == v {
					ok = true
				}
			} else {
				if x, err := strconv.ParseUint(v, 10, bits); err == nil && strconv.FormatUint(x, 10) == v {
					ok = true
				}
			}
			if ok && !seen[v] {
				seen[v] = true
				sIntEnc(ty, v)
			}
			// decoding: every text, in range or not
			sIntDec(ty, []byte(v))
		}
		for _, doc := range []string{"", " ", "-", "+1", "0", "-0", "00", "01", "-01", "-00", "0x10", "1.0", "1.5", "1e2", "1E2", "1e", "1.", ".5", "-.5", "1 ", " 1", "\n-12\t", "1 2", "1x", "1,", "--1", "- 1",
			"null", " null ", "nul", "nulll", "null1", "true", `"1"`, `"12"`, "[1]", "{}", "1" + string(fill(30, '0')), "-1" + string(fill(30, '0')), string(fill(25, '9')), "0" + string(fill(25, '0')) + "1",
			"127", "128", "-128", "-129", "255", "256", "32767", "32768", "-32768", "-32769", "65535", "65536", "2147483647", "2147483648", "-2147483648", "-2147483649", "4294967295", "4294967296",
			"77", " 77 ", "1e0", "0e0", "-0.0", "0.0", "1\x00", "\xef\xbb\xbf1"} {
			sIntDec(ty, []byte(doc))
		}
		nm := 150
		if *tier == "thorough" {
			nm = 3000
		}
		for i := 0; i < nm; i++ {
			// mutations of a valid literal
			d := []byte(pick(vals))
			switch rndn(5) {
			case 0:
				d[rndn(len(d))] = pick([]byte("0123456789-+.eE xn\"\x00"))
			case 1:
				d = append(d, pick([]string{" ", ".", "e1", "0", "x", ".0", "\n", "e", "E+1", ","})...)
			case 2:
				d = append([]byte(pick([]string{" ", "0", "-", "+", "\t\n", "00"})), d...)
			case 3:
				d = d[:rndn(len(d)+1)]
			case 4:
				d = append(d, byte('0'+rndn(10)))
			}
			sIntDec(ty, d)
		}
	}
}

// minimal unbounded naturals with sign for generating boundary texts (decimal strings), no math/big needed in the harness
type bigInt struct {
	negv bool
	mag  []byte // decimal digits, most significant first
}

func (b *bigInt) lsh(k int) *bigInt {
	r := &bigInt{mag: []byte{1}}
	for i := 0; i < k; i++ {
		r = r.mulSmall(2)
	}
	return r
}
func (b *bigInt) pow10(k int) *bigInt {
	r := &bigInt{mag: []byte{1}}
	for i := 0; i < k; i++ {
		r.mag = append(r.mag, 0)
	}
	return r
}
func (b *bigInt) mulSmall(m int) *bigInt {
	out := make([]byte, len(b.mag)+1)
	carry := 0
	for i := len(b.mag) - 1; i >= 0; i-- {
		v := int(b.mag[i])*m + carry
		out[i+1] = byte(v % 10)
		carry = v / 10
	}
	out[0] = byte(carry)
	for len(out) > 1 && out[0] == 0 {
		out = out[1:]
	}
	return &bigInt{mag: out}
}

// addInt adds a small d to a non-negative b (result may be negative only for b = 0, 1)
func (b *bigInt) addInt(d int64) *bigInt {
	if len(b.mag) <= 18 {
		v, _ := strconv.ParseInt(b.String(), 10, 64)
		v += d
		r := &bigInt{}
		if v < 0 {
			r.negv = true
			v = -v
		}
		for _, c := range strconv.FormatInt(v, 10) {
			r.mag = append(r.mag, byte(c-'0'))
		}
		return r
	}
	out := append([]byte(nil), b.mag...)
	i := len(out) - 1
	if d >= 0 {
		carry := int(d)
		for ; i >= 0 && carry > 0; i-- {
			v := int(out[i]) + carry
			out[i] = byte(v % 10)
			carry = v / 10
		}
		if carry > 0 {
			out = append([]byte{byte(carry)}, out...)
		}
	} else {
		borrow := int(-d)
		for ; i >= 0 && borrow > 0; i-- {
			v := int(out[i]) - borrow
			borrow = 0
			for v < 0 {
				v += 10
				borrow++
			}
			out[i] = byte(v)
		}
		for len(out) > 1 && out[0] == 0 {
			out = out[1:]
		}
	}
	return &bigInt{mag: out}
}
func (b *bigInt) neg() *bigInt {
	if len(b.mag) == 1 && b.mag[0] == 0 {
		return b
	}
	return &bigInt{negv: !b.negv, mag: b.mag}
}
func (b *bigInt) String() string {
	s := make([]byte, 0, len(b.mag)+1)
	if b.negv {
		s = append(s, '-')
	}
	for _, d := range b.mag {
		s = append(s, '0'+d)
	}
	return string(s)
}

func c01s() {
	_ = math.MaxInt8
	// standard-library models first (cheap)
	for c := 0; c < 256; c++ {
		sUtf8Dec([]byte{byte(c)})
		for _, c1 := range []byte{0x00, 0x41, 0x7f, 0x80, 0x8f, 0x90, 0x9f, 0xa0, 0xbf, 0xc0, 0xff} {
			sUtf8Dec([]byte{byte(c), c1})
			if c >= 0xe0 {
				for _, c2 := range []byte{0x41, 0x7f, 0x80, 0xbf, 0xc0} {
					sUtf8Dec([]byte{byte(c), c1, c2})
					if c >= 0xf0 {
						for _, c3 := range []byte{0x7f, 0x80, 0xbf, 0xc0} {
							sUtf8Dec([]byte{byte(c), c1, c2, c3, 'x'})
						}
					}
				}
			}
		}
	}
	sUtf8Dec(nil)
	for _, q := range utf8Seqs {
		sUtf8Dec(q)
		sSanitize(q)
	}
	for _, r := range []rune{-1, math.MinInt32, 0, 1, 0x7f, 0x80, 0x7ff, 0x800, 0x2028, 0xd7ff, 0xd800, 0xdbff, 0xdc00, 0xdfff, 0xe000, 0xfffd, 0xffff, 0x10000, 0x1f600, 0x10ffff, 0x110000, math.MaxInt32} {
		sUtf8Enc(r)
		for _, r2 := range []rune{-1, 0, 0x41, 0xd7ff, 0xd800, 0xdbff, 0xdc00, 0xdfff, 0xe000, 0x10000} {
			sUtf16(r, r2)
		}
	}
	for i := 0; i < 400; i++ {
		sUtf8Enc(rune(int32(rnd() >> uint(32+rndn(32)))))
		sUtf16(rune(0xd000+rndn(0x1400)), rune(0xd000+rndn(0x1400)))
		sUtf8Dec(rndString(5))
	}

	c01sStrings(func(s []byte) {
		sEsc(s)
		if rndn(4) == 0 {
			sEscF(uint32(rnd()), s)
		}
		if rndn(3) == 0 {
			sRT(s)
		}
		if rndn(4) == 0 {
			sSanitize(s)
		}
		// the raw string between quotes is a document for the decoder too (raw control bytes, quotes, ill-formed UTF-8)
		if rndn(3) == 0 {
			sUnq(append(append([]byte(`"`), s...), '"'))
		}
	})
	c01sDocs(func(d []byte) {
		sUnq(d)
		if rndn(3) == 0 {
			sUnesc(bytes.TrimLeft(d, " \t\r\n"))
		}
	})
	c01sInts()
	c01sFloats()
}

// ---- floats ----

func init() {
	replayers["s.float"] = func(a []string) {
		bits, _ := strconv.Atoi(a[0])
		u, _ := strconv.ParseUint(a[1], 16, 64)
		sFloat(bits, math.Float64frombits(u))
	}
	replayers["s.floatq"] = func(a []string) {
		bits, _ := strconv.Atoi(a[0])
		u, _ := strconv.ParseUint(a[1], 16, 64)
		sFloatQ(bits, math.Float64frombits(u))
	}
}

// floatPrefix is the destination handed to Append: the clean-up of encodeFloat inspects the last bytes of the WHOLE
// buffer, so the prefix ends in the bytes the clean-up looks for
const floatPrefix = "[e-"

// floatArgs narrows f to the width, and renders the complete input: the bit patterns and what strconv.AppendFloat
// writes for the two formats the glue can choose (the model does not model strconv)
func floatArgs(bits int, f float64) (v any, pv any, args string) {
	var u32 uint32
	if bits == 32 {
		f32 := float32(f)
		f = float64(f32)
		u32 = math.Float32bits(f32)
		v, pv = f32, &f32
	} else {
		u32 = math.Float32bits(float32(f))
		g := f
		v, pv = f, &g
	}
	args = fmt.Sprintf("%d %016x %08x %s %s", bits, math.Float64bits(f), u32,
		hexs(strconv.AppendFloat(nil, f, 'e', -1, bits)), hexs(strconv.AppendFloat(nil, f, 'f', -1, bits)))
	return
}

func sFloat(bits int, f float64) {
	if !mine() {
		skip()
		return
	}
	v, pv, args := floatArgs(bits, f)
	trace("s.float", args)
	orc := "err err"
	if ob, oerr := stdjson.Marshal(v); oerr == nil {
		orc = hexs(ob) + " " + hexs(append([]byte(floatPrefix), ob...))
	}
	impl := sGuard(func() string {
		b, err := json.Marshal(v)
		if pb, perr := json.Marshal(pv); (perr != nil) != (err != nil) || !bytes.Equal(pb, b) {
			return "MISMATCH Marshal(pointer) " + hexs(pb)
		}
		b2, err2 := json.Append([]byte(floatPrefix), v, 0)
		return outObs(b, err) + " " + outObs(b2, err2)
	})
	emit("s.float", args, impl, orc)
}

func sFloatQ(bits int, f float64) {
	if !mine() {
		skip()
		return
	}
	v, _, args := floatArgs(bits, f)
	trace("s.floatq", args)
	var sv any
	if bits == 32 {
		sv = struct {
			F float32 `json:"f,string"`
		}{v.(float32)}
	} else {
		sv = struct {
			F float64 `json:"f,string"`
		}{v.(float64)}
	}
	ob, oerr := stdjson.Marshal(sv)
	orc := outObs(ob, oerr)
	impl := sGuard(func() string {
		b, err := json.Marshal(sv)
		return outObs(b, err)
	})
	emit("s.floatq", args, impl, orc)
}

func c01sFloats() {
	// The seeds of rng.go are neighbouring positions of ONE splitmix stream, and generators that consume a variable
	// number of draws per case coalesce onto the same positions: by the time this function runs the state no longer
	// depends on -seed. Jump to a position derived from the seed by a hash (restored at the end).
	saved := rngState
	z := *seed + 0x632BE59BD9B4E019
	z = (z ^ (z >> 30)) * 0xBF58476D1CE4E5B9
	z = (z ^ (z >> 27)) * 0x94D049BB133111EB
	rngState = z ^ (z >> 31)
	defer func() { rngState = saved }()
	var vals []float64
	add := func(x float64) { vals = append(vals, x, -x) }
	ulps64 := func(x float64, ds ...int) {
		u := math.Float64bits(x)
		for _, d := range ds {
			add(math.Float64frombits(u + uint64(int64(d))))
		}
	}
	ulps32 := func(x float32, ds ...int) {
		u := math.Float32bits(x)
		for _, d := range ds {
			add(float64(math.Float32frombits(u + uint32(int32(d)))))
		}
	}
	for _, x := range jFloats {
		add(x)
	}
	// every power of ten that has a float64 / float32 (and the underflows to 0 and overflows to Inf at the ends),
	// with its two neighbours: x * (1 +- 2^-52), x * (1 +- 2^-23)
	for k := -330; k <= 310; k++ {
		x64, _ := strconv.ParseFloat("1e"+strconv.Itoa(k), 64)
		add(x64)
		if x64 != 0 && !math.IsInf(x64, 0) {
			ulps64(x64, -1, 1)
		}
		y, _ := strconv.ParseFloat("1e"+strconv.Itoa(k), 32)
		x32 := float32(y)
		add(float64(x32))
		if x32 != 0 && !math.IsInf(float64(x32), 0) {
			ulps32(x32, -1, 1)
		}
	}
	// the cut-offs 1e-6 and 1e21 of both widths, and the float32 cut-offs read as float64 (float32(1e-6) widened is
	// below the float64 1e-6: the reason for the float32 comparison in the code)
	ulps64(1e-6, -3, -2, -1, 0, 1, 2, 3)
	ulps64(1e21, -3, -2, -1, 0, 1, 2, 3)
	ulps32(1e-6, -3, -2, -1, 0, 1, 2, 3)
	ulps32(1e21, -3, -2, -1, 0, 1, 2, 3)
	ulps64(float64(float32(1e-6)), -2, -1, 0, 1, 2)
	ulps64(float64(float32(1e21)), -2, -1, 0, 1, 2)
	// exponent clean-up boundaries: e-10 / e-09, e-100 / e-99, e+09 / e+10
	for _, s := range []string{"1e-9", "9.99e-10", "1e-10", "1.5e-10", "1e-99", "1e-100", "9.9e-100", "1e-101", "1e+99", "1e+100", "1e-307", "1e-308", "2.5e-7", "1e-5", "9.999999999e20", "1.7976931348623157e308", "123456789012345678901", "1234567890123456789012"} {
		x, _ := strconv.ParseFloat(s, 64)
		add(x)
	}
	// subnormals, smallest normals, largest values of both widths and their neighbours
	for _, u := range []uint64{1, 2, 3, 1<<52 - 1, 1 << 52, 1<<52 + 1, 0x7fefffffffffffff, 0x7feffffffffffffe, 0x3ff0000000000000, 0x3ff0000000000001, 0x3fefffffffffffff} {
		add(math.Float64frombits(u))
	}
	for _, u := range []uint32{1, 2, 3, 1<<23 - 1, 1 << 23, 1<<23 + 1, 0x7f7fffff, 0x7f7ffffe, 0x3f800000, 0x3f800001, 0x3f7fffff} {
		add(float64(math.Float32frombits(u)))
	}
	ulps64(float64(math.MaxFloat32), -1, 0, 1)                  // above MaxFloat32: +Inf as a float32
	add(float64(math.MaxFloat32) * (1 + 1.0/(1<<25)))           // rounds to MaxFloat32 or to +Inf
	add(float64(math.SmallestNonzeroFloat32) / 2)               // rounds to 0 as a float32
	add(float64(math.SmallestNonzeroFloat32) / 2 * (1 + 1e-10)) // rounds to the smallest subnormal
	// not-a-number and infinities
	for _, u := range []uint64{0x7ff0000000000000, 0xfff0000000000000, 0x7ff8000000000000, 0x7ff8000000000001, 0x7ff0000000000001, 0xfff8000000000000, 0x7fffffffffffffff, 0xffffffffffffffff} {
		vals = append(vals, math.Float64frombits(u))
	}
	nr := 1500
	if *tier == "thorough" {
		nr = 40000
	}
	for i := 0; i < nr; i++ {
		switch rndn(5) {
		case 0: // any bit pattern
			vals = append(vals, math.Float64frombits(rnd()))
		case 1:
			vals = append(vals, float64(math.Float32frombits(uint32(rnd()))))
		case 2: // binary exponent around the cut-offs (2^-20 ~ 1e-6, 2^70 ~ 1e21), random mantissa of random length
			e := uint64(1023 - 40 + rndn(125))
			m := rnd() & (1<<52 - 1) &^ (1<<uint(rndn(53)) - 1)
			add(math.Float64frombits(e<<52 | m))
		case 3: // short decimals with any decimal exponent
			x, _ := strconv.ParseFloat(fmt.Sprintf("%de%d", 1+rndn(9999), -340+rndn(660)), 64)
			add(x)
		case 4: // short decimals around the cut-offs
			x, _ := strconv.ParseFloat(fmt.Sprintf("%de%d", 1+rndn(99999), pick([]int{-12, -11, -10, -9, -8, -7, 15, 16, 17, 18, 19, 20, 21})), 64)
			add(x)
		}
	}
	for _, x := range vals {
		sFloat(64, x)
		sFloat(32, x)
		if rndn(4) == 0 {
			sFloatQ(64, x)
			sFloatQ(32, x)
		}
	}
}
