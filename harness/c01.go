package main

import (
	"bytes"
	stdjson "encoding/json"
	"fmt"
	"reflect"
	"strconv"
	"strings"

	"github.com/segmentio/encoding/json"
)

func init() {
	register("c01", c01)
	replayers["j.marshal"] = func(a []string) {
		f := strings.Split(strings.Join(a, " "), "|")
		seed, _ := strconv.ParseUint(f[1], 10, 64)
		em, _ := strconv.Atoi(f[2])
		jMarshal(parseSx(f[0]), seed, em)
	}
	replayers["j.encoder"] = func(a []string) {
		f := strings.Split(strings.Join(a, " "), "|")
		seed, _ := strconv.ParseUint(f[1], 10, 64)
		cfg, _ := strconv.Atoi(f[2])
		jEncoder(parseSx(f[0]), seed, cfg)
	}
	replayers["j.escape"] = func(a []string) { jEscape(unhex(a[0])) }
	for _, sfx := range []string{".nc", ".epo", ".tk"} {
		replayers["j.marshal"+sfx] = replayers["j.marshal"]
		replayers["j.encoder"+sfx] = replayers["j.encoder"]
	}
}

func jValue(t *sx, seed uint64, errMode int) reflect.Value {
	v := reflect.New(jType(t)).Elem()
	jFill(v, &vrng{s: seed}, 0, errMode)
	return v
}

func outObs(b []byte, err error) string {
	if err != nil {
		return "err"
	}
	return hexs(b)
}

// Marshal, by value and by pointer, against encoding/json
func jMarshal(t *sx, seed uint64, errMode int) {
	if !mine() {
		skip()
		return
	}
	args := fmt.Sprintf("%s|%d|%d", sxString(t), seed, errMode)
	trace("j.marshal", args)
	var orc string
	fn := "j.marshal" + classSuffix(jType(t))
	impl := guarded(func() string {
		v := jValue(t, seed, errMode)
		ob, oerr := stdjson.Marshal(v.Interface())
		opb, operr := stdjson.Marshal(v.Addr().Interface())
		orc = outObs(ob, oerr) + " " + outObs(opb, operr)
		b, err := json.Marshal(v.Interface())
		pb, perr := json.Marshal(v.Addr().Interface())
		return outObs(b, err) + " " + outObs(pb, perr)
	})
	emit(fn, args, impl, orc)
}

// Encoder.Encode under SetEscapeHTML / SetIndent settings
func jEncoder(t *sx, seed uint64, cfg int) {
	if !mine() {
		skip()
		return
	}
	args := fmt.Sprintf("%s|%d|%d", sxString(t), seed, cfg)
	var orc string
	fn := "j.encoder" + classSuffix(jType(t))
	impl := guarded(func() string {
		v := jValue(t, seed, 0)
		prefixes := []string{"", ">", "  "}
		indents := []string{"", "\t", "  "}
		var ob, sb bytes.Buffer
		oe := stdjson.NewEncoder(&ob)
		se := json.NewEncoder(&sb)
		oe.SetEscapeHTML(cfg&1 != 0)
		se.SetEscapeHTML(cfg&1 != 0)
		if cfg&2 != 0 {
			oe.SetIndent(prefixes[(cfg>>2)%3], indents[(cfg>>4)%3])
			se.SetIndent(prefixes[(cfg>>2)%3], indents[(cfg>>4)%3])
		}
		oerr := oe.Encode(v.Interface())
		serr := se.Encode(v.Interface())
		// an Encoder is used for a STREAM of values: one to three more calls on the same Encoders (the indent buffer
		// and the output of earlier calls must not come back), with a change of settings between calls now and then.
		// A value that cannot be marshalled (every third stream has some) fails THAT call only: the error of a call
		// is not sticky (only a writer error is), the following values are encoded; observable: error-ness per call
		// and the whole output
		flagOf := func(err error) string {
			if err != nil {
				return "e"
			}
			return "-"
		}
		oflags, sflags := flagOf(oerr), flagOf(serr)
		for k := uint64(1); k <= seed%4 && oflags == sflags; k++ {
			if (seed>>3)%3 == 0 {
				oe.SetIndent(prefixes[int(k)%3], indents[int(seed>>5)%3])
				se.SetIndent(prefixes[int(k)%3], indents[int(seed>>5)%3])
				oe.SetEscapeHTML(k%2 == 0)
				se.SetEscapeHTML(k%2 == 0)
			}
			em := 0
			if (seed>>7)%3 == 0 && k%2 == 1 {
				em = 1
			}
			w := jValue(t, seed+k, em)
			oflags += flagOf(oe.Encode(w.Interface()))
			sflags += flagOf(se.Encode(w.Interface()))
		}
		orc = oflags + " " + hexs(ob.Bytes())
		return sflags + " " + hexs(sb.Bytes())
	})
	emit(fn, args, impl, orc)
}

// failAfter is a Writer that accepts n bytes and then fails
type failAfter struct{ n int }

func (w *failAfter) Write(p []byte) (int, error) {
	if len(p) > w.n {
		k := w.n
		w.n = 0
		return k, fmt.Errorf("writer failed")
	}
	w.n -= len(p)
	return len(p), nil
}

// jEncoderWriteErr: an Encoder whose Writer fails on one of the calls: the failing call reports the error, like
// encoding/json's Encoder on the same Writer
func jEncoderWriteErr(t *sx, seed uint64) {
	if !mine() {
		skip()
		return
	}
	args := fmt.Sprintf("%s|%d", sxString(t), seed)
	var orc string
	fn := "j.encwerr" + classSuffix(jType(t))
	impl := guarded(func() string {
		run := func(std bool) string {
			w := &failAfter{n: int(seed % 40)}
			flags := ""
			var enc interface{ Encode(any) error }
			if std {
				enc = stdjson.NewEncoder(w)
			} else {
				enc = json.NewEncoder(w)
			}
			for k := uint64(0); k < 3; k++ {
				if err := enc.Encode(jValue(t, seed+k, 0).Interface()); err != nil {
					flags += "e"
				} else {
					flags += "-"
				}
			}
			return flags
		}
		orc = run(true)
		return run(false)
	})
	emit(fn, args, impl, orc)
}

// Escape / AppendEscape against the standard encoder's string escaping
func jEscape(s []byte) {
	if !mine() {
		skip()
		return
	}
	var orc string
	impl := guarded(func() string {
		var ob bytes.Buffer
		oe := stdjson.NewEncoder(&ob)
		oe.SetEscapeHTML(true)
		oe.Encode(string(s))
		o1 := append([]byte(nil), bytes.TrimSuffix(ob.Bytes(), []byte("\n"))...)
		ob.Reset()
		oe.SetEscapeHTML(false)
		oe.Encode(string(s))
		o2 := bytes.TrimSuffix(ob.Bytes(), []byte("\n"))
		orc = hexs(o1) + " " + hexs(o2)
		return hexs(json.Escape(string(s))) + " " + hexs(json.AppendEscape(nil, string(s), 0))
	})
	emit("j.escape", hexs(s), impl, orc)
}

var c01Fixed = []string{
	"(struct (f A ,string (ptr int)))",
	"(struct (f A ,string str) (f B ,string bool) (f C ,string f64) (f D ,string u8))",
	"(map NameKey int)", "(map NameKeyU str)", "(struct (f M - (map NameKey (map NameKeyU bool))))", "(map UKey int)", "(struct (f M - (map UKey str)) (f N - namedany))", "(slice namedany)", "(map TextKey int)", "(map IntKey str)", "(map StructKey int)", "(map (ptr int) int)",
	"(struct (e EmbA) (e EmbB))", "(struct (e EmbA) (f X - int))", "(struct (e EmbC) (e EmbD))", "(struct (e (ptr EmbA)) (e EmbD))",
	"(arr 1 (ptr int))", "(struct (f A - (arr 1 (ptr int))))", "(arr 1 (map str int))",
	"(struct (f A - (struct (f B - (ptr int)))))",
	"(slice ValMarshaler)", "(slice PtrMarshaler)", "(map str PtrMarshaler)", "(struct (f A - PtrMarshaler) (f B - (ptr PtrMarshaler)))",
	"(slice ValText)", "(slice PtrText)", "(map ValText int)", "(struct (f A - PtrText) (f B ,omitempty (ptr PtrText)))",
	"Time", "(ptr Time)", "Number", "RawMessage", "(ptr RawMessage)",
	"(struct (f A ,omitempty (arr 0 int)) (f B ,omitempty (arr 2 int)) (f C ,omitempty (struct)) (f D ,omitempty Time))",
	"(map str any)", "(slice any)", "any", "(ptr (ptr (ptr int)))", "bytes", "(slice u8)", "(arr 4 u8)", "(slice i8)",
	"(map str (map str (slice str)))", "(map str RawMessage)", "(map str bool)", "(map str str)", "(map str (slice str))",
	// pointer-receiver marshalers in array elements: reached by value (not addressable) or through a pointer (addressable)
	"(arr 2 PtrMarshaler)", "(arr 1 PtrText)", "(arr 2 (arr 1 PtrMarshaler))", "(map str (arr 1 PtrMarshaler))", "(struct (f A - (arr 2 PtrMarshaler)) (f T - (arr 1 PtrText)))",
	"(slice (arr 1 PtrMarshaler))", "(ptr (arr 2 PtrText))",
	// pointer-shaped types nested two or more levels deep (stored directly in the interface word)
	"(struct (f In - (struct (f P - (ptr int)))))", "(struct (f A - (arr 1 (ptr str))))", "(struct (f By - (struct (f Name - (map str int)))))", "(arr 1 (struct (f P - (ptr int))))",
	"(struct (f W - (struct (f V - (struct (f P - (ptr (struct (f X - int) (f S - str)))))))))", "(map str (struct (f In - (struct (f P - (ptr int))))))", "(slice any)",
}

func c01() {
	jEncSeqAll() // failed encodes followed by other encodes (pooled scratch state)
	g := &jgen{maxDepth: 3}
	nT, nV := 500, 5
	if *tier == "thorough" {
		nT, nV = 5000, 10
	}
	var types []*sx
	for _, s := range c01Fixed {
		types = append(types, parseSx(s))
	}
	for i := 0; i < nT; i++ {
		if rndn(3) == 0 {
			types = append(types, g.ty(0))
		} else {
			types = append(types, g.structTy(0))
		}
	}
	for _, t := range types {
		for j := 0; j < nV; j++ {
			seed := rnd()
			em := 0
			if j == nV-1 {
				em = 1
			}
			jMarshal(t, seed, em)
			if j < 2 {
				jEncoder(t, seed, rndn(54))
				if seed%4 == 0 {
					jEncoderWriteErr(t, seed)
				}
			}
		}
	}
	// strings: every escapable byte at every offset of strings of length 0..24, both HTML settings
	for n := 0; n <= 24; n++ {
		for pos := 0; pos < n; pos++ {
			for _, c := range []string{"\"", "\\", "<", ">", "&", "\n", "\t", "\x00", "\x1f", "\x7f", "\x80", "\xff", "é", " ", " ", "\xe2\x80", "😀", "\xed\xa0\x80", "\ufffd", "\uffff"} {
				s := strings.Repeat("a", pos) + c + strings.Repeat("b", n-pos-1)
				jEscape([]byte(s))
			}
		}
		jEscape([]byte(strings.Repeat("x", n)))
	}
	for i := 0; i < 3000; i++ {
		r := &vrng{s: rnd()}
		jEscape([]byte(r.str() + r.str()))
	}
}
