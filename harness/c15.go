package main

import (
	"bytes"
	stdjson "encoding/json"
	"fmt"
	"strconv"
	"strings"

	"github.com/segmentio/encoding/json"
)

func init() {
	register("c15", c15)
	replayers["j.append"] = func(a []string) {
		f := strings.Split(strings.Join(a, " "), "|")
		seed, _ := strconv.ParseUint(f[1], 10, 64)
		em, _ := strconv.Atoi(f[2])
		plen, _ := strconv.Atoi(f[3])
		sk, _ := strconv.Atoi(f[4])
		fl, _ := strconv.Atoi(f[5])
		jAppend(parseSx(f[0]), seed, em, plen, sk, fl)
	}
	replayers["j.appendesc"] = func(a []string) {
		plen, _ := strconv.Atoi(a[1])
		sk, _ := strconv.Atoi(a[2])
		jAppendEscape(unhex(a[0]), plen, sk)
	}
}

func spareFor(kind int, n int) int {
	switch kind {
	case 0:
		return 0
	case 1:
		if n > 0 {
			return n - 1
		}
		return 0
	case 2:
		return n
	case 3:
		return n + 1
	}
	return 2*n + 64
}

// checkAppend runs f(b) on a destination with the given prefix length and spare capacity and checks the
// contract against the result of f(nil).
func checkAppend(plen, spareKind int, f func(b []byte) ([]byte, error)) string {
	base, berr := f(nil)
	spare := spareFor(spareKind, len(base))
	backing := make([]byte, plen+spare)
	for i := range backing {
		backing[i] = byte(0xC0 + i%31)
	}
	prefix := append([]byte(nil), backing[:plen]...)
	b := backing[: plen : plen+spare]
	out, err := f(b)
	if !bytes.Equal(backing[:plen], prefix) {
		return "PREFIX-BYTES-OVERWRITTEN"
	}
	if len(out) < plen || !bytes.Equal(out[:plen], prefix) {
		return "RESULT-DOES-NOT-BEGIN-WITH-B"
	}
	if (err != nil) != (berr != nil) {
		return fmt.Sprintf("ERROR-DIFFERS nil-dest-err=%v err=%v", berr != nil, err != nil)
	}
	if err == nil && !bytes.Equal(out[plen:], base) {
		return "REMAINDER-DIFFERS-FROM-APPEND-NIL"
	}
	return "ok"
}

func jAppend(t *sx, seed uint64, errMode, plen, spareKind, flags int) {
	if !mine() {
		skip()
		return
	}
	args := fmt.Sprintf("%s|%d|%d|%d|%d|%d", sxString(t), seed, errMode, plen, spareKind, flags)
	trace("j.append", args)
	impl := guarded(func() string {
		v := jValue(t, seed, errMode)
		x := v.Interface()
		if seed%2 == 0 {
			x = v.Addr().Interface()
		}
		return checkAppend(plen, spareKind, func(b []byte) ([]byte, error) { return json.Append(b, x, json.AppendFlags(flags)) })
	})
	emit("j.append", args, impl, "ok")
}

func jAppendEscape(s []byte, plen, spareKind int) {
	if !mine() {
		skip()
		return
	}
	impl := guarded(func() string {
		r := checkAppend(plen, spareKind, func(b []byte) ([]byte, error) {
			return json.AppendEscape(b, string(s), json.AppendFlags(spareKind&1)), nil
		})
		if r != "ok" {
			return "AppendEscape:" + r
		}
		q := json.AppendEscape(nil, string(s), 0)
		r = checkAppend(plen, spareKind, func(b []byte) ([]byte, error) { return json.AppendUnescape(b, q, 0), nil })
		if r != "ok" {
			return "AppendUnescape:" + r
		}
		return "ok"
	})
	emit("j.appendesc", fmt.Sprintf("%s %d %d", hexs(s), plen, spareKind), impl, "ok")
}

func c15() {
	g := &jgen{maxDepth: 3}
	nT := 250
	if *tier == "thorough" {
		nT = 2500
	}
	var types []*sx
	for _, s := range c01Fixed {
		types = append(types, parseSx(s))
	}
	// shapes that exercise the three capacity-arithmetic sites: base64, ",string" requoting, rollbacks on error
	for _, s := range []string{"bytes", "(slice bytes)", "(struct (f A - bytes) (f B ,string i64) (f C ,string str) (f D ,string f64))",
		"(struct (f A - int) (f B - ValMarshaler))", "(slice ValMarshaler)", "(map str ValMarshaler)", "(arr 3 ValMarshaler)", "(struct (f A - str) (e (ptr EmbA)) (f Z - f64))",
		"(map str RawMessage)", "(map str any)", "(struct (f A - Number))"} {
		types = append(types, parseSx(s))
	}
	for i := 0; i < nT; i++ {
		types = append(types, g.ty(0))
	}
	prefixLens := []int{0, 1, 7, 4095, 4096}
	for _, t := range types {
		for j := 0; j < 3; j++ {
			seed := rnd()
			em := j % 2 // errMode 1: values that make Append fail part-way (rollback paths)
			for _, pl := range prefixLens {
				for sk := 0; sk < 5; sk++ {
					if pl >= 4095 && sk%2 == 1 && *tier != "thorough" {
						continue
					}
					jAppend(t, seed, em, pl, sk, pick([]int{2, 3, 2, 3, 6, 7})) // SortMapKeys always on: unsorted map order is not repeatable
				}
			}
		}
	}
	for i := 0; i < 400; i++ {
		r := &vrng{s: rnd()}
		s := []byte(r.str() + r.str())
		for _, pl := range []int{0, 1, 9} {
			for sk := 0; sk < 5; sk++ {
				jAppendEscape(s, pl, sk)
			}
		}
	}
	// prefix CONTENT: code that looks back from the end of the buffer (exponent clean-up, requoting, rollback) must
	// not look into, or rewrite, the caller's bytes
	c15vals := []any{5.0, float32(7), 0.5, 1e-7, 1e21, -3.0, 0.0, 7, int8(-5), uint64(9), "x", "12345678", true, nil, []byte("ab"), []float64{1, 2}, map[string]float64{"e-0": 5},
		struct {
			A float64 `json:"a,string"`
			B int     `json:"b,string"`
		}{5, 5}}
	for _, pre := range []string{"1e-0", "2.5e-0", "node-e-0", "e-", "1e-", "[e-0", "\"", "\\", "{\"a\":", "\"\\\"", "0", "-", "e+0", "1e-07", "\xff\xfe", "\"e-0"} {
		for vi := range c15vals {
			for sk := 0; sk < 5; sk++ {
				jAppendPrefix([]byte(pre), vi, c15vals[vi], sk)
			}
		}
	}
	// UNSORTED map encoding (flags without SortMapKeys): every specialised string-keyed map type and the generic one,
	// with at most one entry per map so that the output is repeatable, at top level and nested, behind every prefix
	// length and spare capacity: the remainder equals Append(nil, ...) and, HTML escaping aside, encoding/json's bytes
	c15maps := []any{map[string]any{"answer": 42}, map[string]string{"a": "b"}, map[string]json.RawMessage{"r": json.RawMessage("[1]")}, map[string][]string{"k": {"x", "y"}},
		map[string]bool{"t": true}, []map[string]string{{"a": "b"}, {"c": "d"}, {}}, struct {
			A int
			M map[string]any
			N map[string]bool
		}{1, map[string]any{"x": nil}, map[string]bool{"y": false}},
		map[string]any{"outer": map[string]any{"inner": []any{map[string]any{"deep": 1}}}}, map[int]string{1: "x"}, map[string]map[string]string{"o": {"i": "v"}},
		[]any{map[string]string{"a": "b"}, map[string]any{}, map[string][]string{"k": nil}}}
	for vi := range c15maps {
		for _, fl := range []int{0, 1, 4, 5, 2} {
			for _, pl := range []int{0, 1, 7, 4096} {
				for sk := 0; sk < 5; sk++ {
					jAppendMaps(vi, c15maps[vi], pl, sk, fl)
				}
			}
		}
	}
	// the manual grow-and-reslice of encodeBytes, observed exactly (result length, capacity, whether the destination's
	// array was kept): compared with the Coq model Json/AppendModel.v encode_bytes
	for _, l := range []int{0, 1, 5, 64} {
		for vlen := 0; vlen <= 40; vlen++ {
			n := (vlen+2)/3*4 + 2
			for _, spare := range []int{0, 1, n - 1, n, n + 1, 2*n + 64} {
				jEncBytes(l, l+spare, vlen)
			}
		}
	}
}

func jAppendMaps(vi int, x any, plen, spareKind, flags int) {
	if !mine() {
		skip()
		return
	}
	args := fmt.Sprintf("%d %d %d %d", vi, plen, spareKind, flags)
	trace("j.appendmap", args)
	impl := guarded(func() string {
		r := checkAppend(plen, spareKind, func(b []byte) ([]byte, error) { return json.Append(b, x, json.AppendFlags(flags)) })
		if r != "ok" {
			return r
		}
		got, err := json.Append(nil, x, json.AppendFlags(flags))
		var sb bytes.Buffer
		se := stdjson.NewEncoder(&sb)
		se.SetEscapeHTML(flags&int(json.EscapeHTML) != 0)
		if serr := se.Encode(x); serr != nil || err != nil {
			return fmt.Sprintf("err=%v stderr=%v", err, serr)
		}
		if want := bytes.TrimSuffix(sb.Bytes(), []byte("\n")); !bytes.Equal(got, want) {
			return "got " + string(got) + " want " + string(want)
		}
		return "ok"
	})
	emit("j.appendmap", args, impl, "ok")
}

func jEncBytes(l, c, vlen int) {
	if !mine() {
		skip()
		return
	}
	args := fmt.Sprintf("%d %d %d", l, c, vlen)
	impl := guarded(func() string {
		backing := make([]byte, c)
		for i := range backing {
			backing[i] = 0xA5
		}
		b := backing[:l]
		v := make([]byte, vlen)
		for i := range v {
			v[i] = byte(i * 37)
		}
		out, err := json.Append(b, v, 0)
		if err != nil {
			return "err"
		}
		kept := c > 0 && cap(out) > 0 && &out[:1][0] == &backing[:1][0]
		for i := 0; i < l; i++ {
			if backing[i] != 0xA5 || out[i] != 0xA5 {
				return "PREFIX-CHANGED"
			}
		}
		return fmt.Sprintf("%d %d %v", len(out), cap(out), !kept)
	})
	emit("j.encbytes", args, impl, "-")
}

// jAppendPrefix: Append onto a destination holding the given bytes (not filler): same contract as checkAppend
func jAppendPrefix(prefix []byte, vi int, x any, spareKind int) {
	if !mine() {
		skip()
		return
	}
	args := fmt.Sprintf("%s %d %d", hexs(prefix), vi, spareKind)
	trace("j.appendpre", args)
	impl := guarded(func() string {
		base, berr := json.Append(nil, x, json.EscapeHTML|json.SortMapKeys)
		spare := spareFor(spareKind, len(base))
		backing := make([]byte, len(prefix)+spare)
		copy(backing, prefix)
		for i := len(prefix); i < len(backing); i++ {
			backing[i] = 0xEE
		}
		out, err := json.Append(backing[:len(prefix):len(prefix)+spare], x, json.EscapeHTML|json.SortMapKeys)
		if !bytes.Equal(backing[:len(prefix)], prefix) {
			return "PREFIX-BYTES-OVERWRITTEN"
		}
		if len(out) < len(prefix) || !bytes.Equal(out[:len(prefix)], prefix) {
			return "RESULT-DOES-NOT-BEGIN-WITH-B"
		}
		if (err != nil) != (berr != nil) {
			return "ERROR-DIFFERS"
		}
		if err == nil && !bytes.Equal(out[len(prefix):], base) {
			return "REMAINDER-DIFFERS-FROM-APPEND-NIL " + string(out[len(prefix):]) + " vs " + string(base)
		}
		return "ok"
	})
	emit("j.appendpre", args, impl, "ok")
}
