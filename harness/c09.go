//go:build verif && c09

package main

// C09: every package-level entry point of json, proto and thrift may be called from any number of goroutines at
// once, including the first-ever use of many distinct types on all of them.
//
// The harness process (parent) never touches the libraries itself. For every scenario it re-executes itself:
//
//	c09child conc <G> <P> <rounds>   cold process; per round G goroutines start together on a spin barrier under
//	                                 GOMAXPROCS=P and make first-ever calls on FRESH types (reflect.StructOf types made
//	                                 unique by a salt tag; named recursive types wrapped in salted structs) and on
//	                                 shared types; prints one line per task with the results of all its executions
//	c09child seq 1 1 <rounds>        the same tasks (same seed) executed once each, in order, on one goroutine of
//	                                 another cold process: what each call returns running alone (the oracle)
//	c09child hist                    single-threaded lookup histories with the size / identity of the unexported caches
//	                                 read after every call (go:linkname): the sequential projection of the Coq model
//
// The child's stderr and exit status are inspected: a race detector report (race build; GORACE exitcode=66), a
// runtime fatal error (concurrent map writes ...), a deadlock or a timeout become the implementation observable of
// the scenario's c.run case.

import (
	"bufio"
	"bytes"
	"context"
	stdjson "encoding/json"
	"errors"
	"fmt"
	hfnv "hash/fnv"
	"math"
	"os"
	"os/exec"
	"reflect"
	"runtime"
	"runtime/debug"
	"sort"
	"strconv"
	"strings"
	"sync"
	"sync/atomic"
	"time"
	"unsafe"

	"github.com/segmentio/encoding/json"
	"github.com/segmentio/encoding/proto"
	"github.com/segmentio/encoding/thrift"
)

func init() {
	register("c09", runC09)
	register("c09child", c09Child)
	for _, fn := range []string{"c.run", "c.json.marshal", "c.json.enc", "c.json.rt", "c.json.unmarshal", "c.json.tok", "c.json.map",
		"c.proto.marshal", "c.proto.rt", "c.proto.typeof", "c.proto.typeof.same", "c.thrift.marshal", "c.thrift.rt", "c.json.std", "c.selftest",
		"c.json.fail", "c.json.nested", "c.json.tokreset", "c.proto.badmap", "c.proto.badmap.fixed", "c.json.pool.nested", "c.json.pool.after-failures", "c.json.pool.cold"} {
		replayers[fn] = c09Replay
	}
}

const c09Slots = 16 // private task slots (the largest G)

// ---------------------------------------------------------------------------------------------------------------
// predeclared named recursive types (reflect.StructOf cannot build recursive types)

type c09JRecA struct {
	V    int                  `json:"v"`
	Next *c09JRecA            `json:"next,omitempty"`
	Kids []c09JRecA           `json:"kids,omitempty"`
	M    map[string]*c09JRecA `json:"m,omitempty"`
}
type c09JRecB struct {
	S string
	C *c09JRecC
}
type c09JRecC struct {
	B  []*c09JRecB `json:"b"`
	BB map[string]c09JRecB
	N  float64
}
type c09JRecD struct {
	*c09JRecD `json:"self,omitempty"`
	X         []int
	Y         any
}

type c09PRecA struct {
	V    int64
	Next *c09PRecA
	Kids []c09PRecA
	S    string
}
type c09PRecB struct {
	C  *c09PRecC
	Id uint32
}
type c09PRecC struct {
	B []*c09PRecB
	M map[string]*c09PRecB
	F float64
}

type c09TRecA struct {
	V    int64      `thrift:"1"`
	Next *c09TRecA  `thrift:"2,optional"`
	Kids []c09TRecA `thrift:"3"`
	S    string     `thrift:"4"`
}
type c09TRecB struct {
	C  *c09TRecC `thrift:"1,optional"`
	Id int32     `thrift:"2"`
}
type c09TRecC struct {
	B []*c09TRecB          `thrift:"1"`
	M map[string]*c09TRecB `thrift:"2"`
	F float64              `thrift:"3"`
}

var c09JRecs = []reflect.Type{reflect.TypeOf(c09JRecA{}), reflect.TypeOf(c09JRecB{}), reflect.TypeOf(c09JRecC{}), reflect.TypeOf(c09JRecD{})}
var c09PRecs = []reflect.Type{reflect.TypeOf(c09PRecA{}), reflect.TypeOf(c09PRecB{}), reflect.TypeOf(c09PRecC{})}
var c09TRecs = []reflect.Type{reflect.TypeOf(c09TRecA{}), reflect.TypeOf(c09TRecB{}), reflect.TypeOf(c09TRecC{})}

// ---------------------------------------------------------------------------------------------------------------
// fresh types

var c09Salt int

// c09SaltType returns a struct type identical to rt except for an extra key in the tag of its first field: a type
// the process has never seen, with the same encoding.
func c09SaltType(rt reflect.Type) reflect.Type {
	if rt.Kind() != reflect.Struct || rt.NumField() == 0 {
		return rt
	}
	c09Salt++
	fs := make([]reflect.StructField, rt.NumField())
	for i := range fs {
		fs[i] = rt.Field(i)
		fs[i].Offset = 0
		fs[i].Index = nil
	}
	tag := string(fs[0].Tag)
	if tag != "" {
		tag += " "
	}
	fs[0].Tag = reflect.StructTag(tag + `c09:"` + strconv.Itoa(c09Salt) + `"`)
	return reflect.StructOf(fs)
}

// c09Wrap returns a fresh struct type with one field W of type rt (json name w, proto field 1, thrift id 1).
func c09Wrap(rt reflect.Type) reflect.Type {
	c09Salt++
	return reflect.StructOf([]reflect.StructField{{Name: "W", Type: rt,
		Tag: reflect.StructTag(`json:"w" thrift:"1" c09:"` + strconv.Itoa(c09Salt) + `"`)}})
}

// c09FillRec fills a value of a (recursive) named type to a bounded depth, deterministically.
func c09FillRec(v reflect.Value, r *vrng, depth int) {
	switch v.Kind() {
	case reflect.Bool:
		v.SetBool(r.n(2) == 0)
	case reflect.Int, reflect.Int8, reflect.Int16, reflect.Int32, reflect.Int64:
		v.SetInt(int64(r.n(2000)) - 1000)
	case reflect.Uint, reflect.Uint8, reflect.Uint16, reflect.Uint32, reflect.Uint64:
		v.SetUint(uint64(r.n(3000)))
	case reflect.Float32, reflect.Float64:
		v.SetFloat(float64(r.n(1000)) / 8)
	case reflect.String:
		v.SetString([]string{"", "a", "hello", "x<y>&", "日本"}[r.n(5)])
	case reflect.Interface:
		switch r.n(4) {
		case 0:
			v.Set(reflect.ValueOf(float64(r.n(100))))
		case 1:
			v.Set(reflect.ValueOf("s" + strconv.Itoa(r.n(10))))
		case 2:
			v.Set(reflect.ValueOf(map[string]any{"k": float64(r.n(9)), "a": []any{true, nil}}))
		}
	case reflect.Ptr:
		if depth > 0 && r.n(3) != 0 {
			p := reflect.New(v.Type().Elem())
			c09FillRec(p.Elem(), r, depth-1)
			v.Set(p)
		}
	case reflect.Slice:
		if depth > 0 {
			n := r.n(3)
			s := reflect.MakeSlice(v.Type(), n, n)
			for i := 0; i < n; i++ {
				c09FillRec(s.Index(i), r, depth-1)
			}
			if n > 0 || r.n(2) == 0 {
				v.Set(s)
			}
		}
	case reflect.Map:
		if depth > 0 {
			n := r.n(3)
			m := reflect.MakeMap(v.Type())
			for i := 0; i < n; i++ {
				k := reflect.New(v.Type().Key()).Elem()
				k.SetString("k" + strconv.Itoa(i))
				e := reflect.New(v.Type().Elem()).Elem()
				c09FillRec(e, r, depth-1)
				m.SetMapIndex(k, e)
			}
			if n > 0 {
				v.Set(m)
			}
		}
	case reflect.Struct:
		for i := 0; i < v.NumField(); i++ {
			if v.Type().Field(i).PkgPath == "" {
				c09FillRec(v.Field(i), r, depth)
			}
		}
	}
}

// c09Render prints a value deterministically (pointers followed, map keys sorted, no addresses).
func c09Render(sb *strings.Builder, v reflect.Value, depth int) {
	if depth > 40 {
		sb.WriteString("...")
		return
	}
	switch v.Kind() {
	case reflect.Ptr:
		if v.IsNil() {
			sb.WriteString("nil")
			return
		}
		sb.WriteString("&")
		c09Render(sb, v.Elem(), depth+1)
	case reflect.Interface:
		if v.IsNil() {
			sb.WriteString("nil")
			return
		}
		sb.WriteString("<" + v.Elem().Type().String() + ">")
		c09Render(sb, v.Elem(), depth+1)
	case reflect.Struct:
		if v.Type() == jNamed["Time"] {
			sb.WriteString(v.Interface().(time.Time).UTC().Format(time.RFC3339Nano))
			return
		}
		sb.WriteString("{")
		for i := 0; i < v.NumField(); i++ {
			if i > 0 {
				sb.WriteString(" ")
			}
			c09Render(sb, v.Field(i), depth+1)
		}
		sb.WriteString("}")
	case reflect.Slice:
		if v.IsNil() {
			sb.WriteString("nil")
			return
		}
		if v.Type().Elem().Kind() == reflect.Uint8 {
			sb.WriteString("x" + hexs(v.Bytes()))
			return
		}
		fallthrough
	case reflect.Array:
		sb.WriteString("[")
		for i := 0; i < v.Len(); i++ {
			if i > 0 {
				sb.WriteString(" ")
			}
			c09Render(sb, v.Index(i), depth+1)
		}
		sb.WriteString("]")
	case reflect.Map:
		if v.IsNil() {
			sb.WriteString("nil")
			return
		}
		var ents []string
		for _, k := range v.MapKeys() {
			var kb, eb strings.Builder
			c09Render(&kb, k, depth+1)
			c09Render(&eb, v.MapIndex(k), depth+1)
			ents = append(ents, kb.String()+":"+eb.String())
		}
		sort.Strings(ents)
		sb.WriteString("map[" + strings.Join(ents, " ") + "]")
	case reflect.String:
		sb.WriteString(strconv.Quote(v.String()))
	case reflect.Float32, reflect.Float64:
		sb.WriteString(strconv.FormatFloat(v.Float(), 'g', -1, 64))
	case reflect.Bool:
		sb.WriteString(strconv.FormatBool(v.Bool()))
	case reflect.Int, reflect.Int8, reflect.Int16, reflect.Int32, reflect.Int64:
		sb.WriteString(strconv.FormatInt(v.Int(), 10))
	case reflect.Uint, reflect.Uint8, reflect.Uint16, reflect.Uint32, reflect.Uint64, reflect.Uintptr:
		sb.WriteString(strconv.FormatUint(v.Uint(), 10))
	default:
		sb.WriteString("?" + v.Kind().String())
	}
}

func c09RenderS(v reflect.Value) string {
	var sb strings.Builder
	c09Render(&sb, v, 0)
	return sb.String()
}

// c09Short keeps observables short: long ones are cut and completed by a hash of the whole.
func c09Short(s string) string {
	s = strings.NewReplacer("\t", "\\t", "\n", "\\n", "\r", "\\r").Replace(s)
	if len(s) <= 160 {
		return s
	}
	h := hfnv.New64a()
	h.Write([]byte(s))
	return fmt.Sprintf("%s..#%d:%016x", s[:120], len(s), h.Sum64())
}

func c09Guard(f func() string) (s string) {
	defer func() {
		if r := recover(); r != nil {
			s = c09Short("PANIC " + fmt.Sprint(r))
		}
	}()
	return f()
}

func c09Err(err error) string {
	if err == nil {
		return "nil"
	}
	return c09Short("err:" + err.Error())
}

// ---------------------------------------------------------------------------------------------------------------
// tasks

type c09Task struct {
	fn   string
	desc string
	run  func() string  // goroutine-safe: reads its (shared, immutable) input, allocates its own outputs
	tyof func() uintptr // proto.TypeOf identity probe (shared proto tasks only)
}

type c09Round struct {
	shared  []c09Task
	private [c09Slots][]c09Task
}

func c09TypeDesc(rt reflect.Type) string {
	s := rt.String()
	if len(s) > 100 {
		h := hfnv.New32a()
		h.Write([]byte(s))
		s = fmt.Sprintf("%s..#%08x", s[:90], h.Sum32())
	}
	return strings.NewReplacer("\t", " ", "\n", " ").Replace(s)
}

// json tasks on a value of type rt (value v is never written after creation)
func c09JsonTasks(rt reflect.Type, v reflect.Value) []c09Task {
	d := c09TypeDesc(rt)
	doc, derr := func() (b []byte, err error) {
		defer func() {
			if r := recover(); r != nil {
				err = fmt.Errorf("panic")
			}
		}()
		return stdjson.Marshal(v.Interface())
	}()
	if derr != nil {
		doc = []byte(`{"w":{"v":1,"kids":[{"v":2}]},"A":1,"a":"x","B":[1,2],"name":null}`)
	}
	return []c09Task{
		{fn: "c.json.marshal", desc: d, run: func() string {
			b, err := json.Marshal(v.Interface())
			return c09Short(string(b)) + " " + c09Err(err)
		}},
		{fn: "c.json.enc", desc: d, run: func() string {
			var buf bytes.Buffer
			err := json.NewEncoder(&buf).Encode(v.Addr().Interface())
			return c09Short(buf.String()) + " " + c09Err(err)
		}},
		{fn: "c.json.unmarshal", desc: d + " " + c09Short(string(doc)), run: func() string {
			x := reflect.New(rt)
			err := json.Unmarshal(doc, x.Interface())
			return c09Short(c09RenderS(x.Elem())) + " " + c09Err(err)
		}},
		{fn: "c.json.rt", desc: d, run: func() string {
			b, err := json.Marshal(v.Addr().Interface())
			if err != nil {
				return c09Err(err)
			}
			x := reflect.New(rt)
			err = json.NewDecoder(bytes.NewReader(b)).Decode(x.Interface())
			return c09Short(c09RenderS(x.Elem())) + " " + c09Err(err)
		}},
	}
}

// c09HasMap: does a value of type rt contain a Go map (whose iteration order decides the order of the encoded entries)?
func c09HasMap(rt reflect.Type, seen map[reflect.Type]bool) bool {
	if seen[rt] {
		return false
	}
	seen[rt] = true
	switch rt.Kind() {
	case reflect.Map:
		return true
	case reflect.Ptr, reflect.Slice, reflect.Array:
		return c09HasMap(rt.Elem(), seen)
	case reflect.Struct:
		for i := 0; i < rt.NumField(); i++ {
			if c09HasMap(rt.Field(i).Type, seen) {
				return true
			}
		}
	}
	return false
}

// c09Bytes: the encoded bytes, or (when map iteration order may permute entries) their length and a hash of the sorted bytes
func c09Bytes(b []byte, hasMap bool) string {
	if !hasMap {
		return c09Short(hexs(b))
	}
	c := append([]byte{}, b...)
	sort.Slice(c, func(i, j int) bool { return c[i] < c[j] })
	h := hfnv.New64a()
	h.Write(c)
	return fmt.Sprintf("len=%d multiset=%016x", len(b), h.Sum64())
}

func c09ProtoTasks(rt reflect.Type, v reflect.Value, withTypeOf bool) []c09Task {
	d := c09TypeDesc(rt)
	hm := c09HasMap(rt, map[reflect.Type]bool{})
	ts := []c09Task{
		{fn: "c.proto.marshal", desc: d, run: func() string {
			n := proto.Size(v.Addr().Interface())
			b, err := proto.Marshal(v.Addr().Interface())
			return fmt.Sprintf("size=%d %s %s", n, c09Bytes(b, hm), c09Err(err))
		}},
		{fn: "c.proto.rt", desc: d, run: func() string {
			b, err := proto.Marshal(v.Interface())
			if err != nil {
				return c09Err(err)
			}
			x := reflect.New(rt)
			err = proto.Unmarshal(b, x.Interface())
			return c09Short(c09RenderS(x.Elem())) + " " + c09Err(err)
		}},
	}
	if withTypeOf {
		ts = append(ts, c09Task{fn: "c.proto.typeof", desc: d,
			run: func() string { return c09Short(c09ProtoType(proto.TypeOf(rt), 3)) },
			tyof: func() (p uintptr) {
				defer func() { recover() }()
				return reflect.ValueOf(proto.TypeOf(rt)).Pointer()
			}})
	}
	return ts
}

func c09ProtoType(t proto.Type, depth int) string {
	s := fmt.Sprintf("%s/%d/%d", t.Name(), t.Kind(), t.WireType())
	if depth == 0 {
		return s
	}
	if t.Kind() == proto.Map {
		return s + "<" + c09ProtoType(t.Key(), depth-1) + "," + c09ProtoType(t.Elem(), depth-1) + ">"
	}
	if n := t.NumField(); n > 0 {
		var fs []string
		for i := 0; i < n; i++ {
			f := t.Field(i)
			fs = append(fs, fmt.Sprintf("%d:%s:%v:%s", f.Number, f.Name, f.Repeated, c09ProtoType(f.Type, depth-1)))
		}
		s += "{" + strings.Join(fs, ";") + "}"
	}
	return s
}

func c09ThriftTasks(rt reflect.Type, v reflect.Value, p string) []c09Task {
	d := p + " " + c09TypeDesc(rt)
	hm := c09HasMap(rt, map[reflect.Type]bool{})
	return []c09Task{
		{fn: "c.thrift.marshal", desc: d, run: func() string {
			b, err := thrift.Marshal(tproto(p), v.Interface())
			return c09Bytes(b, hm) + " " + c09Err(err)
		}},
		{fn: "c.thrift.rt", desc: d, run: func() string {
			b, err := thrift.Marshal(tproto(p), v.Addr().Interface())
			if err != nil {
				return c09Err(err)
			}
			x := reflect.New(rt)
			err = thrift.Unmarshal(tproto(p), b, x.Interface())
			return c09Short(c09RenderS(x.Elem())) + " " + c09Err(err)
		}},
	}
}

// addressable copy of rv converted to type rt (identical up to struct tags)
func c09Conv(rv reflect.Value, rt reflect.Type) reflect.Value {
	p := reflect.New(rt)
	p.Elem().Set(rv.Convert(rt))
	return p.Elem()
}

func c09RandDoc(r *vrng, depth int) string {
	switch k := r.n(10); {
	case depth <= 0 || k < 3:
		return []string{"1", "-2.5e3", `"s"`, `"a\"b"`, "true", "null", "false", "0", `""`}[r.n(9)]
	case k < 6:
		n := r.n(4)
		var xs []string
		for i := 0; i < n; i++ {
			xs = append(xs, c09RandDoc(r, depth-1))
		}
		return "[" + strings.Join(xs, []string{",", " , "}[r.n(2)]) + "]"
	default:
		n := r.n(4)
		var xs []string
		for i := 0; i < n; i++ {
			xs = append(xs, fmt.Sprintf(`"k%d":%s`, i, c09RandDoc(r, depth-1)))
		}
		return "{" + strings.Join(xs, ",") + "}"
	}
}

// tasks on types every program shares (no salt): the pools (sorted maps, tokenizer stacks, encoder buffers)
func c09SharedBuiltinTasks(r *vrng) []c09Task {
	var ts []c09Task
	mk := func(n int) (map[string]any, map[string]string, map[string]bool, map[string][]string, map[string]json.RawMessage) {
		a, b, c, d, e := map[string]any{}, map[string]string{}, map[string]bool{}, map[string][]string{}, map[string]json.RawMessage{}
		for i := 0; i < n; i++ {
			k := fmt.Sprintf("key%03d", r.n(500))
			a[k] = []any{float64(i), "v", map[string]any{"z": true, "y": nil, "x": k}}
			b[k] = k + "<v>"
			c[k] = i%2 == 0
			d[k] = []string{k, "2"}
			e[k] = json.RawMessage(fmt.Sprintf(`{"i":%d}`, i))
		}
		return a, b, c, d, e
	}
	a, b, c, d, e := mk(1 + r.n(40))
	for i, m := range []any{a, b, c, d, e} {
		m := m
		ts = append(ts, c09Task{fn: "c.json.map", desc: fmt.Sprintf("kind%d n=%d", i, reflect.ValueOf(m).Len()), run: func() string {
			bs, err := json.Marshal(m)
			return c09Short(string(bs)) + " " + c09Err(err)
		}})
		if i != 0 {
			// types on which this package and encoding/json are specified to agree byte for byte
			ts = append(ts, c09Task{fn: "c.json.std", desc: fmt.Sprintf("kind%d n=%d", i, reflect.ValueOf(m).Len()), run: func() string {
				bs, err := json.Marshal(m)
				sb, serr := stdjson.Marshal(m)
				if err != nil || serr != nil || !bytes.Equal(bs, sb) {
					return c09Short("DIFFERS-FROM-STD " + string(bs))
				}
				return "same-as-std"
			}})
		}
	}
	for i := 0; i < 3; i++ {
		doc := []byte(c09RandDoc(r, 6))
		ts = append(ts, c09Task{fn: "c.json.tok", desc: c09Short(string(doc)), run: func() string {
			return c09Short(runTokenizer(json.NewTokenizer(doc), doc))
		}})
	}
	return ts
}

// ---- failing calls: the error paths of the pool users ----

type c09Chan struct {
	A  int
	Ch chan int
}
type c09Func struct {
	A  string
	Fn func()
}
type c09ErrM struct{ N int }

func (e c09ErrM) MarshalJSON() ([]byte, error) { return nil, errors.New("c09 marshal error") }

type c09HasErrM struct {
	A string
	B []int
	E c09ErrM
}
type c09Cyc struct {
	V    int
	Next *c09Cyc
}

// nested use of the encoder buffer pool: MarshalJSON calls json.Marshal on an inner value while the outer
// Marshal / Encode holds its own pooled buffer
type c09Inner struct {
	I int    `json:"i"`
	S string `json:"s"`
}
type c09Nester struct{ In c09Inner }

func (n c09Nester) MarshalJSON() ([]byte, error) { return json.Marshal(n.In) }

type c09Outer struct {
	A string      `json:"a"`
	N c09Nester   `json:"n"`
	M []c09Nester `json:"m"`
	Z string      `json:"z"`
}

func c09OuterValue(k int) (c09Outer, string) {
	a := strings.Repeat("abcdefgh", 8+k%40)
	v := c09Outer{A: a, N: c09Nester{c09Inner{k, "x"}}, M: []c09Nester{{c09Inner{k + 1, "y"}}, {c09Inner{k + 2, a[:9]}}}, Z: "end"}
	want := fmt.Sprintf(`{"a":"%s","n":{"i":%d,"s":"x"},"m":[{"i":%d,"s":"y"},{"i":%d,"s":"%s"}],"z":"end"}`, a, k, k+1, k+2, a[:9])
	return v, want
}

// values whose Append fails (after part of the output has been written into the pooled buffer)
func c09FailValues(r *vrng) []any {
	cyc := &c09Cyc{V: 1, Next: &c09Cyc{V: 2}}
	cyc.Next.Next = cyc
	big := map[string]any{}
	raw := map[string]json.RawMessage{}
	for i, n := 0, 5+r.n(30); i < n; i++ {
		big[fmt.Sprintf("k%03d", i)] = []any{float64(i), "v"}
		raw[fmt.Sprintf("k%03d", i)] = json.RawMessage(`[1,2]`)
	}
	big[fmt.Sprintf("k%03d", r.n(5))+"x"] = math.NaN()
	raw[fmt.Sprintf("k%03d", r.n(5))+"x"] = json.RawMessage(`{"unterminated":`)
	return []any{
		c09Chan{A: r.n(100)},
		&c09Func{A: strings.Repeat("f", 1+r.n(300))},
		c09HasErrM{A: strings.Repeat("e", 1+r.n(300)), B: []int{1, 2, 3}, E: c09ErrM{1}},
		[]any{"prefix", strings.Repeat("p", r.n(500)), math.NaN()},
		struct {
			S string
			X []float64
		}{"inf", []float64{1, 2, math.Inf(-1)}},
		cyc,
		big, // encodeMapStringInterface, sorted branch: error after break, mapslice zeroed and Put
		raw, // encodeMapStringRawMessage, sorted branch
		map[string]any{"a": map[string]any{"b": map[string]any{"c": make(chan int)}}}, // three mapslices held when the error occurs
	}
}

func c09FailTasks(r *vrng) []c09Task {
	var ts []c09Task
	for i, v := range c09FailValues(r) {
		v := v
		d := fmt.Sprintf("fail%d %T", i, v)
		if len(d) > 80 {
			d = d[:80]
		}
		ts = append(ts, c09Task{fn: "c.json.fail", desc: "marshal " + d, run: func() string {
			b, err := json.Marshal(v)
			return c09Short(string(b)) + " " + c09Err(err)
		}})
		ts = append(ts, c09Task{fn: "c.json.fail", desc: "encode " + d, run: func() string {
			var buf bytes.Buffer
			err := json.NewEncoder(&buf).Encode(v)
			return c09Short(buf.String()) + " " + c09Err(err)
		}})
	}
	return ts
}

// nested Marshal inside MarshalJSON; the oracle is the constant ok (the expected text is known by construction)
func c09NestedTasks(r *vrng) []c09Task {
	var ts []c09Task
	for i := 0; i < 2; i++ {
		v, want := c09OuterValue(r.n(1000))
		ts = append(ts, c09Task{fn: "c.json.nested", desc: fmt.Sprintf("marshal len=%d", len(want)), run: func() string {
			b, err := json.Marshal(v)
			if err != nil || string(b) != want {
				return c09Short("CORRUPT " + string(b) + " " + c09Err(err))
			}
			return "ok"
		}})
		ts = append(ts, c09Task{fn: "c.json.nested", desc: fmt.Sprintf("encode len=%d", len(want)), run: func() string {
			var buf bytes.Buffer
			err := json.NewEncoder(&buf).Encode(&v)
			if err != nil || buf.String() != want+"\n" {
				return c09Short("CORRUPT " + buf.String() + " " + c09Err(err))
			}
			return "ok"
		}})
	}
	return ts
}

// Tokenizer: an error leaves the pooled stack attached; Reset releases it; the reused tokenizer must behave like a fresh one
func c09TokResetTasks(r *vrng) []c09Task {
	var ts []c09Task
	for i := 0; i < 2; i++ {
		bad := []byte(strings.Repeat(`[{"a":`, 1+r.n(6)) + []string{`}`, `]`, `1 2`, `tru`, `,`}[r.n(5)])
		good := []byte(c09RandDoc(r, 5))
		ts = append(ts, c09Task{fn: "c.json.tokreset", desc: c09Short(string(bad) + " | " + string(good)), run: func() string {
			t := json.NewTokenizer(bad)
			first := runTokenizer(t, bad)
			t.Reset(good)
			second := runTokenizer(t, good)
			if fresh := runTokenizer(json.NewTokenizer(good), good); fresh != second {
				return c09Short("RESET-DIFFERS reused=" + second + " fresh=" + fresh)
			}
			t.Reset(nil)
			t.Reset(nil) // a second Reset must not release anything twice
			return c09Short(first + " | " + second)
		}})
	}
	return ts
}

type c09PMap struct {
	M map[string]string
	N map[int32]*c09PRecB
	S string
}

// proto map decoding: an error inside a map entry (the scratch struct is zeroed and Put), then a good decode
func c09ProtoBadMapTasks(r *vrng) []c09Task {
	var ts []c09Task
	for i := 0; i < 2; i++ {
		v := &c09PMap{M: map[string]string{"key": strings.Repeat("v", 5+r.n(100))}, S: "s"}
		if i == 1 {
			v = &c09PMap{N: map[int32]*c09PRecB{7: {Id: uint32(r.n(1000)), C: &c09PRecC{F: 1.5}}}, S: "t"}
		}
		cut := 1 + r.n(4)
		ts = append(ts, c09Task{fn: "c.proto.badmap", desc: fmt.Sprintf("kind%d cut=%d", i, cut), run: func() string {
			b, err := proto.Marshal(v)
			if err != nil || len(b) <= cut+3 {
				return c09Err(err)
			}
			var x, y c09PMap
			// cut inside the map entry (the last field S follows the maps: drop it and some bytes of the entry)
			e1 := proto.Unmarshal(b[:len(b)-3-cut], &x)
			e2 := proto.Unmarshal(b, &y)
			bad := "err"
			if e1 == nil {
				bad = "nil"
			}
			return bad + " " + c09Short(c09RenderS(reflect.ValueOf(y))) + " " + c09Err(e2)
		}})
	}
	// the same with an outcome known by construction (the oracle is the constant ok, not the sequential run, which
	// would reproduce a deterministic leak): a rejected entry, then entries that OMIT their key or their value and a
	// message value with one field only. Hand-written wire bytes: M is field 1, N field 2 of c09PMap; an entry is
	// key = field 1, value = field 2; c09PRecB.Id is field 2
	ts = append(ts, c09Task{fn: "c.proto.badmap.fixed", desc: "stale scratch", run: func() string {
		var x, z c09PMap
		// M entry {key:"stale-key", value: truncated}; N entry {key:77, value:{Id:7, then a truncated field}}
		e1 := proto.Unmarshal([]byte{0x0a, 0x0e, 0x0a, 0x09, 's', 't', 'a', 'l', 'e', '-', 'k', 'e', 'y', 0x12, 0x05, 'v'}, &x)
		e2 := proto.Unmarshal([]byte{0x12, 0x08, 0x08, 0x4d, 0x12, 0x04, 0x10, 0x07, 0x10, 0x80}, &x)
		if e1 == nil || e2 == nil {
			return "MALFORMED-ENTRY-ACCEPTED"
		}
		e3 := proto.Unmarshal([]byte{0x0a, 0x03, 0x12, 0x01, 'w', 0x0a, 0x03, 0x0a, 0x01, 'k', 0x12, 0x04, 0x08, 0x09, 0x12, 0x00, 0x12, 0x04, 0x12, 0x02, 0x10, 0x05}, &z)
		if e3 != nil {
			return "err " + c09Err(e3)
		}
		ok := len(z.M) == 2 && z.M[""] == "w" && z.M["k"] == "" && len(z.N) == 2 && z.N[9] != nil && z.N[9].Id == 0 && z.N[9].C == nil && z.N[0] != nil && z.N[0].Id == 5 && z.N[0].C == nil
		if k, has := z.M["k"]; !has || k != "" {
			ok = false
		}
		if !ok {
			return c09Short("STALE-SCRATCH " + c09RenderS(reflect.ValueOf(z)))
		}
		// scalar key and scalar value: an entry that omits its value after an entry that had one, in one message and
		// across two calls
		var s1, s2 struct{ M map[int32]int64 }
		if err := proto.Unmarshal([]byte{0x0a, 0x04, 0x08, 0x01, 0x10, 0x07, 0x0a, 0x02, 0x08, 0x02, 0x0a, 0x02, 0x10, 0x09}, &s1); err != nil || len(s1.M) != 3 || s1.M[1] != 7 || s1.M[2] != 0 || s1.M[0] != 9 {
			return c09Short(fmt.Sprintf("STALE-SCALAR-SCRATCH %v %v", s1.M, err))
		}
		_ = proto.Unmarshal([]byte{0x0a, 0x08, 0x08, 0x64, 0x10, 0x95, 0x9a, 0xef, 0x3a}, &s2)
		s2.M = nil
		if err := proto.Unmarshal([]byte{0x0a, 0x02, 0x08, 0x02}, &s2); err != nil || len(s2.M) != 1 || s2.M[2] != 0 {
			return c09Short(fmt.Sprintf("STALE-SCALAR-SCRATCH-ACROSS-CALLS %v %v", s2.M, err))
		}
		return "ok"
	}})
	// the Tokenizer's pooled scope stack: a tokenizer that stops with containers still open (truncated input, Reset in
	// the middle of a document, a syntax error) gives its stack back; whoever takes it next starts at depth 0 and
	// rejects what a fresh tokenizer rejects. Outcome known by construction.
	ts = append(ts, c09Task{fn: "c.proto.badmap.fixed", desc: "stale tokenizer stack", run: func() string {
		for round := 0; round < 3; round++ {
			t := json.NewTokenizer([]byte(`[[{"k":[1,2`))
			for t.Next() {
			}
			t2 := json.NewTokenizer([]byte(`{"a":[{"b":1`))
			t2.Next()
			t2.Next()
			t2.Reset([]byte(`[7]`))
			var got []string
			for t2.Next() {
				got = append(got, fmt.Sprintf("%s/%d/%d", t2.Value, t2.Depth, t2.Index))
			}
			if fmt.Sprint(got) != "[[/0/0 7/1/0 ]/0/0]" || t2.Err != nil {
				return c09Short(fmt.Sprintf("STALE-STACK after Reset %v %v", got, t2.Err))
			}
			t3 := json.NewTokenizer([]byte(`{"x":[true]}`))
			got = got[:0]
			for t3.Next() {
				got = append(got, fmt.Sprintf("%s/%d/%d", t3.Value, t3.Depth, t3.Index))
			}
			if fmt.Sprint(got) != `[{/0/0 "x"/1/0 :/1/0 [/1/0 true/2/0 ]/1/0 }/0/0]` || t3.Err != nil {
				return c09Short(fmt.Sprintf("STALE-STACK fresh %v %v", got, t3.Err))
			}
			for _, bad := range []string{"]", "}", "1,2"} {
				t4 := json.NewTokenizer([]byte(bad))
				for t4.Next() {
				}
				if t4.Err == nil {
					return "STALE-STACK accepted " + bad
				}
			}
		}
		return "ok"
	}})
	return ts
}

// c09Generate builds the rounds of a scenario from the harness PRNG (single goroutine; no library call on any
// generated type happens here).
func c09Generate(rounds int) []c09Round {
	jg := &jgen{maxDepth: 2}
	pg := &pgen{maxDepth: 2, allowRaw: false, allowMap: true}
	tg := &tgen{maxDepth: 2}
	out := make([]c09Round, rounds)
	for ri := range out {
		rd := &out[ri]
		vr := &vrng{s: rnd()}
		addJson := func(dst *[]c09Task) {
			var rt reflect.Type
			var v reflect.Value
			if rndn(4) == 0 {
				rt = c09Wrap(pick(c09JRecs))
				v = reflect.New(rt).Elem()
				c09FillRec(v, vr, 3)
			} else {
				rt = c09SaltType(jType(jg.structTy(0)))
				v = reflect.New(rt).Elem()
				jFill(v, vr, 0, 0)
			}
			*dst = append(*dst, c09JsonTasks(rt, v)...)
		}
		addProto := func(dst *[]c09Task, typeOf bool) {
			if rndn(4) == 0 {
				rt := c09Wrap(pick(c09PRecs))
				v := reflect.New(rt).Elem()
				c09FillRec(v, vr, 3)
				*dst = append(*dst, c09ProtoTasks(rt, v, typeOf)...)
				return
			}
			t := pg.structType(0)
			rt := c09SaltType(t.goType())
			*dst = append(*dst, c09ProtoTasks(rt, c09Conv(t.toGo(pg.value(t, 0)), rt), typeOf)...)
		}
		addThrift := func(dst *[]c09Task) {
			p := pick(tprotos)
			if rndn(4) == 0 {
				rt := c09Wrap(pick(c09TRecs))
				v := reflect.New(rt).Elem()
				c09FillRec(v, vr, 3)
				*dst = append(*dst, c09ThriftTasks(rt, v, p)...)
				return
			}
			t := tg.structType(0)
			rt := c09SaltType(t.goType())
			*dst = append(*dst, c09ThriftTasks(rt, c09Conv(t.toGo(tg.value(t, true)), rt), p)...)
		}
		for k := 0; k < 3; k++ {
			addJson(&rd.shared)
			addProto(&rd.shared, true)
			addThrift(&rd.shared)
		}
		if ri == 0 {
			// the named recursive types themselves and plain builtins: first-ever use in round 0 only
			for _, rt := range c09JRecs {
				v := reflect.New(rt).Elem()
				c09FillRec(v, vr, 3)
				rd.shared = append(rd.shared, c09JsonTasks(rt, v)...)
			}
			for _, rt := range c09PRecs {
				v := reflect.New(rt).Elem()
				c09FillRec(v, vr, 3)
				rd.shared = append(rd.shared, c09ProtoTasks(rt, v, true)...)
			}
			for _, rt := range c09TRecs {
				v := reflect.New(rt).Elem()
				c09FillRec(v, vr, 3)
				rd.shared = append(rd.shared, c09ThriftTasks(rt, v, pick(tprotos))...)
			}
		}
		rd.shared = append(rd.shared, c09SharedBuiltinTasks(vr)...)
		// failing calls (error paths of the pool users) among the ordinary ones: they must leave every other result alone
		rd.shared = append(rd.shared, c09FailTasks(vr)...)
		rd.shared = append(rd.shared, c09NestedTasks(vr)...)
		rd.shared = append(rd.shared, c09TokResetTasks(vr)...)
		rd.shared = append(rd.shared, c09ProtoBadMapTasks(vr)...)
		// spread the failing calls between the ordinary ones (deterministic shuffle)
		for i := len(rd.shared) - 1; i > 0; i-- {
			j := vr.n(i + 1)
			rd.shared[i], rd.shared[j] = rd.shared[j], rd.shared[i]
		}
		for s := 0; s < c09Slots; s++ {
			addJson(&rd.private[s])
			ft := c09FailTasks(vr)
			rd.private[s] = append(rd.private[s], ft[vr.n(len(ft))], ft[vr.n(len(ft))])
			addProto(&rd.private[s], false)
			rd.private[s] = append(rd.private[s], c09NestedTasks(vr)[:2]...)
			addThrift(&rd.private[s])
		}
	}
	return out
}

// ---------------------------------------------------------------------------------------------------------------
// child: concurrent / sequential execution

func c09Child() {
	a := flag_args()
	if len(a) >= 1 && a[0] == "hist" {
		c09Hist()
		return
	}
	if len(a) >= 3 && a[0] == "pool" {
		G, _ := strconv.Atoi(a[1])
		P, _ := strconv.Atoi(a[2])
		c09Pool(G, P)
		return
	}
	if len(a) >= 1 && a[0] == "selftest" {
		// a deliberate data race on a plain variable, and a deliberate lost result: the pipeline must report both
		var x int
		var wg sync.WaitGroup
		for g := 0; g < 2; g++ {
			wg.Add(1)
			go func() {
				defer wg.Done()
				for i := 0; i < 1000; i++ {
					x++
				}
			}()
		}
		wg.Wait()
		fmt.Fprintf(out, "k\tc.selftest\tx\t%d\n", x/1000000)
		return
	}
	if len(a) < 4 {
		fmt.Fprintln(os.Stderr, "usage: c09child conc|seq G P rounds | hist")
		os.Exit(2)
	}
	mode := a[0]
	G, _ := strconv.Atoi(a[1])
	P, _ := strconv.Atoi(a[2])
	rounds, _ := strconv.Atoi(a[3])
	runtime.GOMAXPROCS(P)
	rs := c09Generate(rounds)
	for ri := range rs {
		rd := &rs[ri]
		nsh := len(rd.shared)
		key := func(kind string, s, k int) string { return fmt.Sprintf("r%d.%s%d.%d", ri, kind, s, k) }
		if mode == "seq" {
			for k, t := range rd.shared {
				fmt.Fprintf(out, "%s\t%s\t%s\t%s\n", key("s", 0, k), t.fn, t.desc, c09Guard(t.run))
			}
			for s := 0; s < c09Slots; s++ {
				for k, t := range rd.private[s] {
					fmt.Fprintf(out, "%s\t%s\t%s\t%s\n", key("p", s, k), t.fn, t.desc, c09Guard(t.run))
				}
			}
			continue
		}
		// results[g][k] for shared tasks; private results by slot
		shared := make([][]string, G)
		ids := make([][]uintptr, G)
		priv := make([][]string, c09Slots)
		for s := range priv {
			priv[s] = make([]string, len(rd.private[s]))
		}
		var ready atomic.Int32
		var wg sync.WaitGroup
		for g := 0; g < G; g++ {
			shared[g] = make([]string, nsh)
			ids[g] = make([]uintptr, nsh)
			wg.Add(1)
			go func(g int) {
				defer wg.Done()
				ready.Add(1)
				for int(ready.Load()) < G {
					runtime.Gosched()
				}
				// the goroutine's own slots, interleaved with the shared tasks taken in an order rotated by g
				var mine [][2]int
				for s := g; s < c09Slots; s += G {
					for k := range rd.private[s] {
						mine = append(mine, [2]int{s, k})
					}
				}
				mi := 0
				for j := 0; j < nsh; j++ {
					k := (j + g*7) % nsh
					shared[g][k] = c09Guard(rd.shared[k].run)
					if f := rd.shared[k].tyof; f != nil {
						ids[g][k] = f()
					}
					for c := 0; c < (len(mine)+nsh-1)/nsh && mi < len(mine); c++ {
						s, pk := mine[mi][0], mine[mi][1]
						priv[s][pk] = c09Guard(rd.private[s][pk].run)
						mi++
					}
				}
				for ; mi < len(mine); mi++ {
					s, pk := mine[mi][0], mine[mi][1]
					priv[s][pk] = c09Guard(rd.private[s][pk].run)
				}
			}(g)
		}
		wg.Wait()
		for k, t := range rd.shared {
			res := shared[0][k]
			for g := 1; g < G; g++ {
				if shared[g][k] != res {
					res = fmt.Sprintf("DIVERGE g0=%s g%d=%s", shared[0][k], g, shared[g][k])
					break
				}
			}
			fmt.Fprintf(out, "%s\t%s\t%s\t%s\n", key("s", 0, k), t.fn, t.desc, res)
			if t.tyof != nil {
				same := "same"
				for g := 1; g < G; g++ {
					if ids[g][k] != ids[0][k] {
						same = "differ"
					}
				}
				fmt.Fprintf(out, "%s\t%s\t%s\t%s\n", key("i", 0, k), "c.proto.typeof.same", t.desc, same)
			}
		}
		for s := 0; s < c09Slots; s++ {
			for k, t := range rd.private[s] {
				fmt.Fprintf(out, "%s\t%s\t%s\t%s\n", key("p", s, k), t.fn, t.desc, priv[s][k])
			}
		}
	}
}

// c09Pool: the encoder buffer pool after FAILED calls, in a cold process.
//
//	phase 1 (one goroutine, GOMAXPROCS 1, deterministic): repeatedly a failed Encoder.Encode / Marshal followed by a
//	         Marshal and an Encode of a value whose MarshalJSON calls json.Marshal (nested use of the pool); the text is
//	         known by construction
//	phase 2: many failures first (one goroutine), then G goroutines under GOMAXPROCS P do Marshal only, on values whose
//	         encoding is known from encoding/json (and from this package on the cold pool, before any failure)
func c09Pool(G, P int) {
	runtime.GOMAXPROCS(1)
	r := &vrng{s: rnd()}
	const K = 48
	type item struct {
		v    any
		want string
	}
	items := make([]item, K)
	for k := range items {
		type rec struct {
			Id   int      `json:"id"`
			Name string   `json:"name"`
			Xs   []int    `json:"xs"`
			Ss   []string `json:"ss"`
		}
		v := rec{Id: k, Name: fmt.Sprintf("item-%d-%s", k, strings.Repeat("n", r.n(50)))}
		for i, n := 0, 20+r.n(400); i < n; i++ {
			v.Xs = append(v.Xs, k*1000+i)
		}
		for i, n := 0, r.n(60); i < n; i++ {
			v.Ss = append(v.Ss, fmt.Sprintf("s%d.%d", k, i))
		}
		sb, _ := stdjson.Marshal(v)
		items[k] = item{v, string(sb)}
	}
	cold := "ok"
	for k, it := range items {
		if b, err := json.Marshal(it.v); err != nil || string(b) != it.want {
			cold = c09Short(fmt.Sprintf("DIFFERS-FROM-STD item %d %s", k, b))
			break
		}
	}
	fmt.Fprintf(out, "k\tc.json.pool.cold\titems=%d\t%s\n", K, cold)

	fails := c09FailValues(r)
	fail := func(i int) {
		defer func() { recover() }()
		if i%3 == 2 {
			json.Marshal(fails[i%len(fails)])
			return
		}
		json.NewEncoder(&bytes.Buffer{}).Encode(fails[i%len(fails)])
	}
	// phase 1
	const N1 = 60
	res := fmt.Sprintf("ok %d", N1)
	for i := 0; i < N1; i++ {
		fail(i)
		v, want := c09OuterValue(i)
		b, err := json.Marshal(v)
		if err != nil || string(b) != want {
			res = c09Short(fmt.Sprintf("CORRUPT iter=%d marshal %s %s", i, b, c09Err(err)))
			break
		}
		var buf bytes.Buffer
		err = json.NewEncoder(&buf).Encode(v)
		if err != nil || buf.String() != want+"\n" {
			res = c09Short(fmt.Sprintf("CORRUPT iter=%d encode %s %s", i, buf.String(), c09Err(err)))
			break
		}
	}
	fmt.Fprintf(out, "k\tc.json.pool.nested\tfailed-call-then-nested-marshal iters=%d\t%s\n", N1, res)

	// phase 2 (GOMAXPROCS is set BEFORE the failures: sync.Pool discards its per-P caches when GOMAXPROCS changes)
	runtime.GOMAXPROCS(P)
	// make the pool adopt the new number of Ps now, leaving nothing behind: failing Marshal calls (Get without Put)
	// from goroutines spread over the Ps
	{
		var wg sync.WaitGroup
		for g := 0; g < 4*P; g++ {
			wg.Add(1)
			go func() {
				defer wg.Done()
				for i := 0; i < 20; i++ {
					json.Marshal(math.NaN())
					runtime.Gosched()
				}
			}()
		}
		wg.Wait()
	}
	// cycles of: many failures first, all on this goroutine (whatever they leave in the pool sits in one P's cache, the
	// other Ps are empty), then G goroutines do Marshal only
	const cycles = 8
	bad := make([]string, G)
	for cyc := 0; cyc < cycles; cyc++ {
		for i := 0; i < 24; i++ {
			fail(cyc*24 + i)
		}
		var ready atomic.Int32
		var wg sync.WaitGroup
		for g := 0; g < G; g++ {
			wg.Add(1)
			go func(g int) {
				defer wg.Done()
				ready.Add(1)
				for int(ready.Load()) < G {
					runtime.Gosched()
				}
				for j := 0; j < K; j++ {
					k := (j + g*5 + cyc) % K
					b, err := json.Marshal(items[k].v)
					if (err != nil || string(b) != items[k].want) && bad[g] == "" {
						bad[g] = c09Short(fmt.Sprintf("CORRUPT cycle=%d g=%d item=%d %s %s", cyc, g, k, b, c09Err(err)))
					}
				}
			}(g)
		}
		wg.Wait()
	}
	res = fmt.Sprintf("ok %d", G*cycles*K)
	for _, b := range bad {
		if b != "" {
			res = b
			break
		}
	}
	fmt.Fprintf(out, "k\tc.json.pool.after-failures\tcycles=%d of failures=24 then marshal-only g=%d p=%d calls=%d\t%s\n", cycles, G, P, G*cycles*K, res)
}

func flag_args() []string {
	a := os.Args
	for i, x := range a {
		if x == "c09child" {
			return a[i+1:]
		}
	}
	return nil
}

// ---------------------------------------------------------------------------------------------------------------
// parent

type c09ChildOut struct {
	lines  [][]string // key fn desc result
	status string     // exit0 | race ... | fatal ... | exit N | timeout
}

func c09RunChild(seed uint64, args ...string) c09ChildOut {
	exe, err := os.Executable()
	if err != nil {
		return c09ChildOut{status: "no-executable"}
	}
	ctx, cancel := context.WithTimeout(context.Background(), 10*time.Minute)
	defer cancel()
	full := append([]string{"-tier", *tier, "-seed", strconv.FormatUint(seed, 10), "c09child"}, args...)
	cmd := exec.CommandContext(ctx, exe, full...)
	cmd.Env = append(os.Environ(), "GORACE=halt_on_error=0 exitcode=66 atexit_sleep_ms=0")
	var so, se bytes.Buffer
	cmd.Stdout, cmd.Stderr = &so, &se
	err = cmd.Run()
	var o c09ChildOut
	sc := bufio.NewScanner(&so)
	sc.Buffer(make([]byte, 1<<20), 1<<28)
	for sc.Scan() {
		f := strings.Split(sc.Text(), "\t")
		if len(f) == 4 {
			o.lines = append(o.lines, f)
		}
	}
	stderr := se.String()
	switch {
	case ctx.Err() != nil:
		o.status = "timeout"
	case strings.Contains(stderr, "DATA RACE"):
		o.status = "race " + c09RaceFrames(stderr)
	case strings.Contains(stderr, "fatal error:"):
		i := strings.Index(stderr, "fatal error:")
		l := stderr[i:]
		if j := strings.IndexByte(l, '\n'); j >= 0 {
			l = l[:j]
		}
		o.status = c09Short("fatal " + l)
	case err != nil:
		o.status = c09Short("exit " + err.Error() + " " + lastLine(stderr))
	default:
		o.status = "exit0"
	}
	return o
}

func c09RaceBuild() bool {
	if bi, ok := debug.ReadBuildInfo(); ok {
		for _, st := range bi.Settings {
			if st.Key == "-race" && st.Value == "true" {
				return true
			}
		}
	}
	return false
}

func lastLine(s string) string {
	s = strings.TrimSpace(s)
	if i := strings.LastIndexByte(s, '\n'); i >= 0 {
		return s[i+1:]
	}
	return s
}

// c09RaceFrames extracts the top frames of the two stacks of the first report.
func c09RaceFrames(stderr string) string {
	lines := strings.Split(stderr, "\n")
	var parts []string
	n := 0
	for i := 0; i < len(lines) && n < 2; i++ {
		l := lines[i]
		if strings.HasPrefix(l, "Write at") || strings.HasPrefix(l, "Read at") || strings.HasPrefix(l, "Previous write at") || strings.HasPrefix(l, "Previous read at") ||
			strings.HasPrefix(l, "Atomic") || strings.HasPrefix(l, "Previous atomic") {
			var fr []string
			for j := i + 1; j < len(lines) && len(fr) < 3; j++ {
				f := strings.TrimSpace(lines[j])
				if f == "" {
					break
				}
				if strings.HasSuffix(f, ")") && !strings.HasPrefix(f, "/") {
					if k := strings.IndexByte(f, '('); k > 0 {
						f = f[:k]
					}
					fr = append(fr, f[strings.LastIndexByte(f, '/')+1:])
				}
			}
			parts = append(parts, strings.Fields(l)[0]+":"+strings.Join(fr, "<"))
			n++
		}
	}
	return c09Short(strings.Join(parts, " | "))
}

var c09Combos = [][2]int{{2, 1}, {2, 2}, {2, 16}, {4, 1}, {4, 2}, {4, 16}, {16, 1}, {16, 2}, {16, 16}}

// one group: the sequential cold-process oracle, then the nine (G, GOMAXPROCS) scenarios on the same tasks
func c09Group(seed uint64, rounds int, combos [][2]int, detailed bool) {
	orc := c09RunChild(seed, "seq", "1", "1", strconv.Itoa(rounds))
	want := map[string]string{}
	for _, l := range orc.lines {
		want[l[0]] = l[3]
	}
	sargs := fmt.Sprintf("seed=%d rounds=%d", seed, rounds)
	c09Emit("c.run", sargs+" seq", orc.status, "exit0")
	detailedGroup := detailed
	for ci, c := range combos {
		// a detailed group prints every task of a third of its scenarios (which third depends on the shard)
		detailed := detailedGroup && (len(combos) < 9 || ci%3 == *shard%3)
		sc := fmt.Sprintf("%s g=%d p=%d", sargs, c[0], c[1])
		trace("c.run", sc)
		r := c09RunChild(seed, "conc", strconv.Itoa(c[0]), strconv.Itoa(c[1]), strconv.Itoa(rounds))
		c09Emit("c.run", sc, r.status, "exit0")
		seen := 0
		agree := map[string]int{}
		for _, l := range r.lines {
			o, ok := want[l[0]]
			if l[1] == "c.proto.typeof.same" {
				o, ok = "same", true
			} else {
				seen++
			}
			if !ok {
				o = "MISSING-IN-SEQUENTIAL-RUN"
			}
			if l[1] == "c.json.nested" || l[1] == "c.proto.badmap.fixed" {
				o = "ok" // known by construction, independent of the state of any pool
			}
			// a summary group prints its agreeing tasks as one count per function; every disagreement is printed in full
			if detailed || l[3] != o {
				c09Emit(l[1], sc+" "+l[0]+" "+l[2], l[3], o)
			} else {
				agree[l[1]]++
			}
		}
		if !detailed {
			var fns []string
			for fn := range agree {
				fns = append(fns, fn)
			}
			sort.Strings(fns)
			for _, fn := range fns {
				c09Emit(fn, sc+" summary", fmt.Sprintf("agree %d", agree[fn]), fmt.Sprintf("agree %d", agree[fn]))
			}
		}
		if seen != len(want) && r.status == "exit0" {
			c09Emit("c.run", sc+" tasks", strconv.Itoa(seen), strconv.Itoa(len(want)))
		}
	}
}

// the parent shards by scenario group, not by case: every case of a group this shard runs is printed
func c09Emit(fn, args, impl, oracle string) {
	fmt.Fprintf(out, "%s\t%s\t%s\t%s\n", fn, args, impl, oracle)
}

func runC09() {
	groups, rounds := 6, 4
	if *tier == "thorough" {
		groups = 60
	}
	for gi := 0; gi < groups; gi++ {
		gs := *seed*1000003 + uint64(*shard)*7919 + uint64(gi)*104729 + 1
		c09Group(gs, rounds, c09Combos, gi == 0)
	}
	// self-test of the detection pipeline: a child with a deliberate race must be reported as race by the race build
	if *shard == 0 {
		st := c09RunChild(1, "selftest")
		got, wantSt := "not-detected", "not-detected"
		if strings.HasPrefix(st.status, "race ") {
			got = "detected"
		}
		if c09RaceBuild() {
			wantSt = "detected"
		}
		c09Emit("c.selftest", "deliberate-race race-build="+strconv.FormatBool(c09RaceBuild()), got, wantSt)
	}
	// the encoder buffer pool after failed calls (cold children; oracle known by construction / from encoding/json)
	nPool := 2
	if *tier == "thorough" {
		nPool = 12
	}
	for k := 0; k < nPool; k++ {
		c := c09Combos[(*shard+k*5)%len(c09Combos)]
		if k == 0 && *shard%2 == 0 {
			c = [2]int{16, 16}
		}
		ps := *seed*77 + uint64(*shard)*13 + uint64(k)
		sc := fmt.Sprintf("seed=%d pool g=%d p=%d", ps, c[0], c[1])
		pr := c09RunChild(ps, "pool", strconv.Itoa(c[0]), strconv.Itoa(c[1]))
		c09Emit("c.run", sc, pr.status, "exit0")
		for _, l := range pr.lines {
			o := "ok"
			if f := strings.Fields(l[3]); len(f) == 2 && f[0] == "ok" {
				// the expected count is part of the case description
				o = l[3]
				if !strings.Contains(l[2], "="+f[1]) {
					o = "ok <count of the description>"
				}
			}
			c09Emit(l[1], sc+" "+l[2], l[3], o)
		}
		if len(pr.lines) != 3 && pr.status == "exit0" {
			c09Emit("c.run", sc+" lines", strconv.Itoa(len(pr.lines)), "3")
		}
	}
	// sequential projection of the Coq model (one cold child per shard)
	h := c09RunChild(*seed*31+uint64(*shard), "hist")
	c09Emit("c.run", fmt.Sprintf("seed=%d hist", *seed*31+uint64(*shard)), h.status, "exit0")
	for _, l := range h.lines {
		c09Emit(l[1], l[2], l[3], "-")
	}
}

// replay: args start with seed=S rounds=R [g=G p=P] ...
func c09Replay(a []string) {
	var seed uint64
	rounds, g, p := 4, 0, 0
	for _, x := range a {
		switch {
		case strings.HasPrefix(x, "seed="):
			seed, _ = strconv.ParseUint(x[5:], 10, 64)
		case strings.HasPrefix(x, "rounds="):
			rounds, _ = strconv.Atoi(x[7:])
		case strings.HasPrefix(x, "g="):
			g, _ = strconv.Atoi(x[2:])
		case strings.HasPrefix(x, "p="):
			p, _ = strconv.Atoi(x[2:])
		}
	}
	if len(a) > 1 && a[1] == "pool" {
		pr := c09RunChild(seed, "pool", strconv.Itoa(g), strconv.Itoa(p))
		c09Emit("c.run", fmt.Sprintf("seed=%d pool g=%d p=%d", seed, g, p), pr.status, "exit0")
		for _, l := range pr.lines {
			c09Emit(l[1], l[2], l[3], "ok")
		}
		return
	}
	if len(a) > 1 && a[1] == "hist" {
		h := c09RunChild(seed, "hist")
		for _, l := range h.lines {
			c09Emit(l[1], l[2], l[3], "-")
		}
		return
	}
	if g == 0 {
		c09Group(seed, rounds, c09Combos, true)
		return
	}
	c09Group(seed, rounds, [][2]int{{g, p}}, true)
}

// ---------------------------------------------------------------------------------------------------------------
// sequential projection: the caches read from outside

type c09codec struct{ encode, decode unsafe.Pointer }

//go:linkname c09JsonCache github.com/segmentio/encoding/json.cache
var c09JsonCache atomic.Pointer[map[unsafe.Pointer]c09codec]

//go:linkname c09ProtoCodecCache github.com/segmentio/encoding/proto.codecCache
var c09ProtoCodecCache atomic.Value

//go:linkname c09ProtoTypesCache github.com/segmentio/encoding/proto.typesCache
var c09ProtoTypesCache atomic.Value

//go:linkname c09ThriftEncCache github.com/segmentio/encoding/thrift.encoderCache
var c09ThriftEncCache atomic.Value

//go:linkname c09ThriftDecCache github.com/segmentio/encoding/thrift.decoderCache
var c09ThriftDecCache atomic.Value

// c09Snapshot returns a function that re-reads the size of the map object the cache designates NOW (a published
// map must never change: the immut theorem)
func c09Snapshot(which string) func() int {
	if which == "json" {
		p := c09JsonCache.Load()
		if p == nil {
			return func() int { return 0 }
		}
		return func() int { return len(*p) }
	}
	var x any
	switch which {
	case "proto":
		x = c09ProtoCodecCache.Load()
	case "typeof":
		x = c09ProtoTypesCache.Load()
	case "thrift.enc":
		x = c09ThriftEncCache.Load()
	case "thrift.dec":
		x = c09ThriftDecCache.Load()
	}
	if x == nil {
		return func() int { return 0 }
	}
	v := reflect.ValueOf(x)
	return func() int { return v.Len() }
}

// identity and size of the map a cache currently designates
func c09Probe(which string) (id uintptr, n int) {
	if which == "json" {
		p := c09JsonCache.Load()
		if p == nil {
			return 0, 0
		}
		return uintptr(unsafe.Pointer(p)), len(*p)
	}
	var x any
	switch which {
	case "proto":
		x = c09ProtoCodecCache.Load()
	case "typeof":
		x = c09ProtoTypesCache.Load()
	case "thrift.enc":
		x = c09ThriftEncCache.Load()
	case "thrift.dec":
		x = c09ThriftDecCache.Load()
	}
	if x == nil {
		return 0, 0
	}
	v := reflect.ValueOf(x)
	return v.Pointer(), v.Len()
}

// a history: calls[i] performs one library call whose cache request is the model type ids[i]; the observable is,
// per call, m (a new map was published) or h (pointer unchanged) followed by the number of entries added since the start
func c09RunHist(which string, ids []int, calls []func()) string {
	_, n0 := c09Probe(which)
	var obs []string
	for _, c := range calls {
		id0, nOld := c09Probe(which)
		old := c09Snapshot(which)
		func() {
			defer func() { recover() }()
			c()
		}()
		id1, n1 := c09Probe(which)
		k := "h"
		if id1 != id0 {
			k = "m"
		}
		if old() != nOld {
			k = "PUBLISHED-MAP-MUTATED-" + k
		}
		obs = append(obs, k+strconv.Itoa(n1-n0))
	}
	return strings.Join(obs, " ")
}

func c09IntList(xs []int) string {
	var s []string
	for _, x := range xs {
		s = append(s, strconv.Itoa(x))
	}
	return strings.Join(s, " ")
}

// c09Graph numbers the types reachable from the given ones the way the package's constructor walks them and
// returns the adjacency in the text form of the driver: id:kid,kid;...
type c09Graph struct {
	ids   map[reflect.Type]int
	order []reflect.Type
	kids  func(reflect.Type) []reflect.Type
	memo  func(reflect.Type) bool
}

func (g *c09Graph) id(t reflect.Type) int {
	if i, ok := g.ids[t]; ok {
		return i
	}
	i := len(g.order)
	g.ids[t] = i
	g.order = append(g.order, t)
	for _, k := range g.kids(t) {
		g.id(k)
	}
	return i
}

func (g *c09Graph) text() (adj string, memo string) {
	var as, ms []string
	for i := 0; i < len(g.order); i++ { // g.order may grow while walking: id() closes it
		t := g.order[i]
		var ks []string
		for _, k := range g.kids(t) {
			ks = append(ks, strconv.Itoa(g.id(k)))
		}
		as = append(as, strconv.Itoa(i)+":"+strings.Join(ks, ","))
		if g.memo(t) {
			ms = append(ms, strconv.Itoa(i))
		}
	}
	return strings.Join(as, ";"), strings.Join(ms, " ")
}

// component types as json/codec.go constructCodec walks them (leaf types with custom methods have none)
func c09JsonKids(t reflect.Type) []reflect.Type {
	switch t.Kind() {
	case reflect.Ptr, reflect.Slice, reflect.Array:
		if t.Kind() == reflect.Slice && t.Elem().Kind() == reflect.Uint8 {
			return nil
		}
		return []reflect.Type{t.Elem()}
	case reflect.Map:
		return []reflect.Type{t.Key(), t.Elem()}
	case reflect.Struct:
		var ks []reflect.Type
		for i := 0; i < t.NumField(); i++ {
			if f := t.Field(i); f.PkgPath == "" {
				ks = append(ks, f.Type)
			}
		}
		return ks
	}
	return nil
}

// component types as proto/reflect.go typeOf walks them: pointers and repeated fields are transparent
func c09TypeOfNorm(t reflect.Type) reflect.Type {
	for t.Kind() == reflect.Ptr {
		t = t.Elem()
	}
	return t
}
func c09TypeOfKids(t reflect.Type) []reflect.Type {
	switch t.Kind() {
	case reflect.Map:
		return []reflect.Type{c09TypeOfNorm(t.Key()), c09TypeOfNorm(t.Elem())}
	case reflect.Struct:
		var ks []reflect.Type
		for i := 0; i < t.NumField(); i++ {
			f := t.Field(i)
			if f.PkgPath != "" {
				continue
			}
			ft := f.Type
			if ft.Kind() == reflect.Slice && ft.Elem().Kind() != reflect.Uint8 {
				ft = ft.Elem()
			}
			ks = append(ks, c09TypeOfNorm(ft))
		}
		return ks
	}
	return nil
}

func c09Hist() {
	isStruct := func(t reflect.Type) bool { return t.Kind() == reflect.Struct }
	nHist := 12
	if *tier == "thorough" {
		nHist = 60
	}
	// a pool of K fresh types per cache; histories draw from it with repetitions
	mkTypes := func(k int, gen func() reflect.Type) []reflect.Type {
		var ts []reflect.Type
		for i := 0; i < k; i++ {
			ts = append(ts, gen())
		}
		return ts
	}
	flat := func() reflect.Type {
		c09Salt++
		fs := []reflect.StructField{{Name: "A", Type: reflect.TypeOf(int64(0)), Tag: reflect.StructTag(`thrift:"1" c09:"` + strconv.Itoa(c09Salt) + `"`)}}
		if rndBool() {
			fs = append(fs, reflect.StructField{Name: "B", Type: reflect.TypeOf(""), Tag: `thrift:"2"`})
		}
		if rndBool() {
			fs = append(fs, reflect.StructField{Name: "C", Type: reflect.PointerTo(pick(c09TRecs)), Tag: `thrift:"3"`})
		}
		return reflect.StructOf(fs)
	}
	// the two scalar types shared by all TypeOf histories are requested once up front; the model is told (PRE)
	proto.TypeOf(reflect.TypeOf(int64(0)))
	proto.TypeOf(reflect.TypeOf(""))
	for _, rt := range c09PRecs {
		proto.TypeOf(rt)
	}
	for h := 0; h < nHist; h++ {
		// ---- json: Marshal(T) requests T, Unmarshal(&T) requests T as well (Parse strips the pointer), Marshal(&T) requests *T
		{
			ts := mkTypes(2+rndn(3), func() reflect.Type {
				if rndn(3) == 0 {
					return c09Wrap(pick(c09JRecs))
				}
				return c09Wrap(jType((&jgen{maxDepth: 1}).structTy(1)))
			})
			g := &c09Graph{ids: map[reflect.Type]int{}, kids: c09JsonKids, memo: isStruct}
			var ids []int
			var calls []func()
			for i, n := 0, 3+rndn(8); i < n; i++ {
				t := pick(ts)
				switch rndn(3) {
				case 0:
					ids = append(ids, g.id(t))
					calls = append(calls, func() { json.Marshal(reflect.New(t).Elem().Interface()) })
				case 1:
					ids = append(ids, g.id(t))
					calls = append(calls, func() { json.Unmarshal([]byte(`{}`), reflect.New(t).Interface()) })
				default:
					ids = append(ids, g.id(reflect.PointerTo(t)))
					calls = append(calls, func() { json.Marshal(reflect.New(t).Interface()) })
				}
			}
			adj, memo := g.text()
			obs := c09RunHist("json", ids, calls)
			fmt.Fprintf(out, "h\tm.hist\tcow one|%s|%s|%s|\t%s\n", adj, memo, c09IntList(ids), obs)
		}
		// ---- thrift encoder and decoder caches
		for _, which := range []string{"thrift.enc", "thrift.dec"} {
			ts := mkTypes(2+rndn(3), flat)
			g := &c09Graph{ids: map[reflect.Type]int{}, kids: c09JsonKids, memo: isStruct}
			var ids []int
			var calls []func()
			for i, n := 0, 3+rndn(8); i < n; i++ {
				t := pick(ts)
				if which == "thrift.enc" {
					if rndBool() {
						ids = append(ids, g.id(t))
						calls = append(calls, func() { thrift.Marshal(tproto("c"), reflect.New(t).Elem().Interface()) })
					} else {
						ids = append(ids, g.id(reflect.PointerTo(t)))
						calls = append(calls, func() { thrift.Marshal(tproto("bs"), reflect.New(t).Interface()) })
					}
				} else {
					ids = append(ids, g.id(t))
					calls = append(calls, func() { thrift.Unmarshal(tproto("c"), []byte{0}, reflect.New(t).Interface()) })
				}
			}
			adj, memo := g.text()
			obs := c09RunHist(which, ids, calls)
			fmt.Fprintf(out, "h\tm.hist\tcow one|%s|%s|%s|\t%s\n", adj, memo, c09IntList(ids), obs)
		}
		// ---- proto codec cache: a miss on T or on *T publishes both; model ids: T = 2k, *T = 2k+1
		{
			ts := mkTypes(2+rndn(3), func() reflect.Type {
				if rndn(3) == 0 {
					return c09Wrap(pick(c09PRecs))
				}
				return c09Wrap((&pgen{maxDepth: 1, allowMap: true}).structType(1).goType())
			})
			var ids []int
			var calls []func()
			for i, n := 0, 3+rndn(8); i < n; i++ {
				k := rndn(len(ts))
				t := ts[k]
				switch rndn(3) {
				case 0:
					ids = append(ids, 2*k+1)
					calls = append(calls, func() { proto.Marshal(reflect.New(t).Interface()) })
				case 1:
					ids = append(ids, 2*k)
					calls = append(calls, func() { proto.Unmarshal([]byte{0}, reflect.New(t).Interface()) })
				default:
					ids = append(ids, 2*k)
					calls = append(calls, func() { proto.Size(reflect.New(t).Elem().Interface()) })
				}
			}
			var as []string
			for k := range ts {
				as = append(as, fmt.Sprintf("%d:;%d:%d", 2*k, 2*k+1, 2*k))
			}
			obs := c09RunHist("proto", ids, calls)
			fmt.Fprintf(out, "h\tm.hist\tcow pair|%s|%s|%s|\t%s\n", strings.Join(as, ";"), c09IntList(c09Range(2*len(ts))), c09IntList(ids), obs)
		}
		// ---- proto.TypeOf: mutex variant; the struct and map types met during construction are published too
		{
			inner := mkTypes(2, func() reflect.Type {
				c09Salt++
				fs := []reflect.StructField{{Name: "X", Type: reflect.TypeOf(uint64(0)), Tag: reflect.StructTag(`c09:"` + strconv.Itoa(c09Salt) + `"`)}}
				for j, n := 0, rndn(3); j < n; j++ {
					fs = append(fs, reflect.StructField{Name: fmt.Sprintf("Y%d", j), Type: pick([]reflect.Type{reflect.TypeOf(""), reflect.TypeOf(false), reflect.TypeOf(float64(0)), reflect.TypeOf([]byte(nil)), reflect.TypeOf([]int64(nil))})})
				}
				return reflect.StructOf(fs)
			})
			ts := mkTypes(2+rndn(3), func() reflect.Type {
				c09Salt++
				fs := []reflect.StructField{{Name: "A", Type: reflect.TypeOf(int32(0)), Tag: reflect.StructTag(`c09:"` + strconv.Itoa(c09Salt) + `"`)}}
				for j, it := range inner {
					switch rndn(5) {
					case 0:
						fs = append(fs, reflect.StructField{Name: fmt.Sprintf("I%d", j), Type: it})
					case 1:
						fs = append(fs, reflect.StructField{Name: fmt.Sprintf("I%d", j), Type: reflect.PointerTo(it)})
					case 2:
						fs = append(fs, reflect.StructField{Name: fmt.Sprintf("I%d", j), Type: reflect.SliceOf(it)})
					case 3:
						fs = append(fs, reflect.StructField{Name: fmt.Sprintf("I%d", j), Type: reflect.MapOf(reflect.TypeOf(""), it)})
					}
				}
				if rndn(3) == 0 {
					fs = append(fs, reflect.StructField{Name: "R", Type: reflect.PointerTo(pick(c09PRecs))})
				}
				return reflect.StructOf(fs)
			})
			all := append(append([]reflect.Type{}, ts...), inner...)
			all = append(all, reflect.TypeOf(int64(0)), reflect.TypeOf(""))
			g := &c09Graph{ids: map[reflect.Type]int{}, kids: c09TypeOfKids,
				memo: func(t reflect.Type) bool { return t.Kind() == reflect.Struct || t.Kind() == reflect.Map }}
			var ids []int
			var calls []func()
			for i, n := 0, 3+rndn(8); i < n; i++ {
				t := pick(all)
				ids = append(ids, g.id(t))
				calls = append(calls, func() { proto.TypeOf(t) })
			}
			pre := []int{g.id(reflect.TypeOf(int64(0))), g.id(reflect.TypeOf(""))}
			for _, rt := range c09PRecs {
				pre = append(pre, g.id(rt))
			}
			adj, memo := g.text()
			obs := c09RunHist("typeof", ids, calls)
			fmt.Fprintf(out, "h\tm.hist\tlk one|%s|%s|%s|%s\t%s\n", adj, memo, c09IntList(ids), c09IntList(pre), obs)
		}
	}
}

func c09Range(n int) []int {
	var xs []int
	for i := 0; i < n; i++ {
		xs = append(xs, i)
	}
	return xs
}
