//go:build verif && c10

package main

import (
	"bytes"
	stdjson "encoding/json"
	"fmt"
	"io"

	"github.com/segmentio/encoding/json"
)

// mReuse: the usual `var rec T; for dec.Decode(&rec) == nil { keep(rec.Field) }` loop. Values handed out by an earlier
// decode ([]byte, strings, RawMessages, slices of them) must keep their contents when the SAME destination is decoded
// into again (no zero-copy flags), by Unmarshal or by a Decoder, and the destination must end up as with encoding/json.
type c10Rec struct {
	Data  []byte
	Text  string
	Raw   json.RawMessage
	Num   json.Number
	Parts [][]byte
	Names []string
}

func (r *c10Rec) keep() []string {
	o := []string{string(r.Data), r.Text, string(r.Raw), string(r.Num)}
	for _, p := range r.Parts {
		o = append(o, string(p))
	}
	return append(o, r.Names...)
}

func (r *c10Rec) views() [][]byte {
	v := [][]byte{r.Data, []byte(r.Raw)}
	return append(v, r.Parts...)
}

func mReuse(seed uint64, viaDecoder bool) {
	if !mine() {
		skip()
		return
	}
	args := fmt.Sprintf("%d %v", seed, viaDecoder)
	trace("m.reuse", args)
	r := &vrng{s: seed}
	n := 2 + r.n(3)
	var docs [][]byte
	for i := 0; i < n; i++ {
		rec := c10Rec{Data: []byte(r.str()), Text: r.str(), Num: json.Number(fmt.Sprint(r.n(100000)))}
		if r.n(3) > 0 {
			rec.Raw = json.RawMessage(fmt.Sprintf(`{"k":%d}`, r.n(1000)))
		}
		for k := r.n(4); k > 0; k-- {
			rec.Parts = append(rec.Parts, []byte(r.str()))
			rec.Names = append(rec.Names, r.str())
		}
		// later documents are often SHORTER than earlier ones, so that a reused backing array has room
		if i > 0 && r.n(2) == 0 {
			rec.Data = rec.Data[:len(rec.Data)/3]
		}
		d, _ := stdjson.Marshal(rec)
		docs = append(docs, d)
	}
	impl := guarded(func() string {
		var rec c10Rec
		var std c10Rec
		var kept [][]string // contents at the time each value was handed out
		var views [][][]byte
		for i, d := range docs {
			if viaDecoder {
				if err := json.NewDecoder(bytes.NewReader(d)).Decode(&rec); err != nil {
					return "err"
				}
			} else if err := json.Unmarshal(d, &rec); err != nil {
				return "err"
			}
			if err := stdjson.Unmarshal(d, &std); err != nil {
				return "std-err"
			}
			if fmt.Sprint(rec.keep()) != fmt.Sprint((&c10Rec{std.Data, std.Text, json.RawMessage(std.Raw), std.Num, std.Parts, std.Names}).keep()) {
				return fmt.Sprintf("DESTINATION-DIFFERS-FROM-STD after doc %d", i)
			}
			kept = append(kept, rec.keep())
			views = append(views, rec.views())
			// everything handed out by EARLIER decodes still reads as it did then
			for j := 0; j < i; j++ {
				now := []string{}
				for _, v := range views[j] {
					now = append(now, string(v))
				}
				want := []string{kept[j][0], kept[j][2]}
				want = append(want, kept[j][4:4+len(views[j])-2]...)
				if fmt.Sprint(now) != fmt.Sprint(want) {
					return fmt.Sprintf("VALUE-HANDED-OUT-BY-DECODE-%d-CHANGED-AFTER-DECODE-%d", j, i)
				}
			}
		}
		return "ok"
	})
	emit("m.reuse", args, impl, "ok")
}

// mDup: documents that REPEAT a key, and documents merged into a destination that already has the key: the value
// decoded without zero-copy flags (keys included) must not share memory with the input: rendering it before and
// after the input is overwritten (Unmarshal, Parse) or the Decoder has moved on to later values gives the same text,
// and every key is still found by lookup.
func mDup(seed uint64, via int) {
	if !mine() {
		skip()
		return
	}
	args := fmt.Sprintf("%d %d", seed, via)
	trace("m.dup", args)
	r := &vrng{s: seed}
	keys := []string{"alpha", "name", "k", "a-long-key-of-more-than-sixteen-bytes", r.str() + "x"}
	obj := func(depth int) string { return "" }
	var gen func(depth int) string
	gen = func(depth int) string {
		switch r.n(5) {
		case 0:
			return fmt.Sprint(r.n(1000))
		case 1:
			q, _ := stdjson.Marshal(r.str())
			return string(q)
		case 2:
			if depth < 2 {
				return "[" + gen(depth+1) + "," + gen(depth+1) + "]"
			}
			return "true"
		default:
			if depth >= 3 {
				return "null"
			}
			o := "{"
			n := 1 + r.n(4)
			for i := 0; i < n; i++ {
				k := keys[r.n(len(keys))]
				if i > 0 {
					o += ","
					if r.n(2) == 0 {
						k = keys[0] // repeated key
					}
				} else {
					k = keys[0]
				}
				kq, _ := stdjson.Marshal(k)
				o += string(kq) + ":" + gen(depth+1)
			}
			return o + "}"
		}
	}
	_ = obj
	doc1 := "{\"alpha\":" + gen(1) + ",\"alpha\":" + gen(1) + ",\"m\":" + gen(0) + "}"
	doc2 := "{\"alpha\":\"new\",\"name\":" + gen(1) + "}"
	filler := "\"" + string(bytes.Repeat([]byte("Z"), 70000)) + "\""
	render := func(v any) string {
		b, _ := stdjson.Marshal(v)
		s := string(b)
		// every key of every map is found by lookup
		var walk func(x any) bool
		walk = func(x any) bool {
			switch t := x.(type) {
			case map[string]any:
				for k, e := range t {
					if _, ok := t[string(append([]byte(nil), k...))]; !ok || !walk(e) {
						return false
					}
				}
			case []any:
				for _, e := range t {
					if !walk(e) {
						return false
					}
				}
			}
			return true
		}
		if !walk(v) {
			s += " KEY-NOT-FOUND-BY-LOOKUP"
		}
		return s
	}
	impl := guarded(func() string {
		in1, in2 := []byte(doc1), []byte(doc2)
		var v any
		var m map[string]any
		var want1, want2 any
		var wantm map[string]any
		stdjson.Unmarshal([]byte(doc1), &want1)
		stdjson.Unmarshal([]byte(doc1), &wantm)
		stdjson.Unmarshal([]byte(doc2), &wantm)
		stdjson.Unmarshal([]byte(doc2), &want2)
		switch via {
		case 0, 1:
			dec := func(b []byte, x any) error {
				if via == 0 {
					return json.Unmarshal(b, x)
				}
				_, err := json.Parse(b, x, json.DontCopyNumber|json.DontCopyRawMessage)
				return err
			}
			if dec(in1, &v) != nil || dec(in1, &m) != nil || dec(in2, &m) != nil {
				return "err"
			}
			b1, bm := render(v), render(m)
			if b1 != render(want1) || bm != render(wantm) {
				return "DIFFERS-FROM-STD " + b1 + " " + bm
			}
			for i := range in1 {
				in1[i] = 'x'
			}
			for i := range in2 {
				in2[i] = 'y'
			}
			if render(v) != b1 || render(m) != bm {
				return "VALUE-CHANGED-WHEN-INPUT-WAS-OVERWRITTEN " + render(v) + " " + render(m)
			}
		default:
			d := json.NewDecoder(iotestChunks([]byte(doc1+" "+doc2+" "+filler+" "+doc2+" "+filler), 1+int(seed%5000)))
			if d.Decode(&v) != nil || d.Decode(&m) != nil {
				return "err"
			}
			b1, bm := render(v), render(m)
			if b1 != render(want1) || bm != render(want2) {
				return "DIFFERS-FROM-STD " + b1 + " " + bm
			}
			var s string
			var m2 map[string]any
			if d.Decode(&s) != nil || d.Decode(&m2) != nil || d.Decode(&s) != nil {
				return "err-later"
			}
			if render(v) != b1 || render(m) != bm {
				return "VALUE-CHANGED-AFTER-LATER-DECODES " + render(v) + " " + render(m)
			}
		}
		return "ok"
	})
	emit("m.dup", args, impl, "ok")
}

// iotestChunks delivers b in reads of at most n bytes
type chunkReader struct {
	b []byte
	n int
}

func (c *chunkReader) Read(p []byte) (int, error) {
	if len(c.b) == 0 {
		return 0, io.EOF
	}
	n := c.n
	if n > len(p) {
		n = len(p)
	}
	if n > len(c.b) {
		n = len(c.b)
	}
	copy(p, c.b[:n])
	c.b = c.b[n:]
	return n, nil
}

func iotestChunks(b []byte, n int) io.Reader { return &chunkReader{b: b, n: n} }

// mMapSlice: map[string][]string decoded by the specialised decoder, whose scratch slice starts at capacity 10 and
// doubles: a list handed to the caller (stored in the map) is the caller's: it keeps its contents while the decoder
// goes on with the next entries, with a later document into the same map, and when the input is overwritten
func mMapSlice(n, via int) {
	if !mine() {
		skip()
		return
	}
	args := fmt.Sprintf("%d %d", n, via)
	trace("m.mapslice", args)
	var el []string
	for i := 0; i < n; i++ {
		el = append(el, fmt.Sprintf(`"e%d"`, i))
	}
	big := "["
	for i, e := range el {
		if i > 0 {
			big += ","
		}
		big += e
	}
	big += "]"
	doc1 := `{"first":` + big + `,"second":["x","y"],"third":` + big + `}`
	doc2 := `{"second":["q"],"fourth":["r","s","t"]}`
	impl := guarded(func() string {
		var m, w map[string][]string
		in1, in2 := []byte(doc1), []byte(doc2)
		dec := func(b []byte) error {
			switch via {
			case 0:
				return json.Unmarshal(b, &m)
			case 1:
				_, err := json.Parse(b, &m, json.DontCopyNumber|json.DontCopyRawMessage)
				return err
			}
			return json.NewDecoder(bytes.NewReader(b)).Decode(&m)
		}
		if dec(in1) != nil || stdjson.Unmarshal([]byte(doc1), &w) != nil {
			return "err"
		}
		if fmt.Sprintf("%q", m) != fmt.Sprintf("%q", w) {
			return fmt.Sprintf("DIFFERS-FROM-STD %q", m)
		}
		first := m["first"]
		want := fmt.Sprintf("%q", first)
		if dec(in2) != nil || stdjson.Unmarshal([]byte(doc2), &w) != nil {
			return "err2"
		}
		for i := range in1 {
			in1[i] = '#'
		}
		for i := range in2 {
			in2[i] = '#'
		}
		if fmt.Sprintf("%q", m) != fmt.Sprintf("%q", w) {
			return fmt.Sprintf("DIFFERS-FROM-STD-AFTER-SECOND %q", m)
		}
		if fmt.Sprintf("%q", first) != want {
			return fmt.Sprintf("LIST-HANDED-OUT-CHANGED %q", first)
		}
		return "ok"
	})
	emit("m.mapslice", args, impl, "ok")
}

// mUnescape: Unescape / AppendUnescape return memory of their own (no zero-copy flag exists for them): the result
// keeps its contents when the input is overwritten, and writing to the result leaves the input alone
func mUnescape(seed uint64) {
	if !mine() {
		skip()
		return
	}
	args := fmt.Sprint(seed)
	trace("m.unescape", args)
	r := &vrng{s: seed}
	impl := guarded(func() string {
		for _, plain := range []string{"value", "x", "", r.str(), "tab\there", "caf\u00e9"} {
			q, _ := stdjson.Marshal(plain)
			_ = stdjson.Unmarshal(q, &plain) // ill-formed UTF-8 of the generated text is sanitised by Marshal
			for k, dst := range [][]byte{nil, {}, make([]byte, 0, 128), []byte("pre")} {
				in := append([]byte(nil), q...)
				var out []byte
				if k == 0 {
					out = json.Unescape(in)
				} else {
					out = json.AppendUnescape(dst, in, 0)
				}
				want := string(dst) + plain
				if k == 0 {
					want = plain
				}
				if string(out) != want {
					return fmt.Sprintf("WRONG %q want %q", out, want)
				}
				for i := range in {
					in[i] = '#'
				}
				if string(out) != want {
					return fmt.Sprintf("RESULT-CHANGED-WHEN-INPUT-WAS-OVERWRITTEN %q (dst kind %d)", out, k)
				}
				in = append(in[:0], q...)
				for i := range out {
					out[i] = '!'
				}
				if string(in) != string(q) {
					return "INPUT-MODIFIED-THROUGH-THE-RESULT"
				}
			}
		}
		return "ok"
	})
	emit("m.unescape", args, impl, "ok")
}

func c10Reuse() {
	for _, n := range []int{9, 10, 11, 19, 20, 21, 40} {
		for via := 0; via < 3; via++ {
			mMapSlice(n, via)
		}
	}
	for i := 0; i < 20; i++ {
		mUnescape(rnd())
	}
	n := 300
	if *tier == "thorough" {
		n = 3000
	}
	for i := 0; i < n; i++ {
		mReuse(rnd(), i%2 == 1)
		mDup(rnd(), i%3)
	}
}
