//go:build verif && c10

package main

import (
	"bytes"
	stdjson "encoding/json"
	"fmt"

	"github.com/segmentio/encoding/json"
)

// mReuse: the usual `var rec T; for dec.Decode(&rec) == nil { keep(rec.Field) }` loop. Values handed out by an earlier
// decode ([]byte, strings, RawMessages, slices of them) must keep their contents when the SAME destination is decoded
// into again (no zero-copy flags), by Unmarshal or by a Decoder, and the destination must end up as with encoding/json.
type c10Rec struct {
	Data  []byte
	Text  string
	Raw   json.RawMessage
	Num   json.Number
	Parts [][]byte
	Names []string
}

func (r *c10Rec) keep() []string {
	o := []string{string(r.Data), r.Text, string(r.Raw), string(r.Num)}
	for _, p := range r.Parts {
		o = append(o, string(p))
	}
	return append(o, r.Names...)
}

func (r *c10Rec) views() [][]byte {
	v := [][]byte{r.Data, []byte(r.Raw)}
	return append(v, r.Parts...)
}

func mReuse(seed uint64, viaDecoder bool) {
	if !mine() {
		skip()
		return
	}
	args := fmt.Sprintf("%d %v", seed, viaDecoder)
	trace("m.reuse", args)
	r := &vrng{s: seed}
	n := 2 + r.n(3)
	var docs [][]byte
	for i := 0; i < n; i++ {
		rec := c10Rec{Data: []byte(r.str()), Text: r.str(), Num: json.Number(fmt.Sprint(r.n(100000)))}
		if r.n(3) > 0 {
			rec.Raw = json.RawMessage(fmt.Sprintf(`{"k":%d}`, r.n(1000)))
		}
		for k := r.n(4); k > 0; k-- {
			rec.Parts = append(rec.Parts, []byte(r.str()))
			rec.Names = append(rec.Names, r.str())
		}
		// later documents are often SHORTER than earlier ones, so that a reused backing array has room
		if i > 0 && r.n(2) == 0 {
			rec.Data = rec.Data[:len(rec.Data)/3]
		}
		d, _ := stdjson.Marshal(rec)
		docs = append(docs, d)
	}
	impl := guarded(func() string {
		var rec c10Rec
		var std c10Rec
		var kept [][]string // contents at the time each value was handed out
		var views [][][]byte
		for i, d := range docs {
			if viaDecoder {
				if err := json.NewDecoder(bytes.NewReader(d)).Decode(&rec); err != nil {
					return "err"
				}
			} else if err := json.Unmarshal(d, &rec); err != nil {
				return "err"
			}
			if err := stdjson.Unmarshal(d, &std); err != nil {
				return "std-err"
			}
			if fmt.Sprint(rec.keep()) != fmt.Sprint((&c10Rec{std.Data, std.Text, json.RawMessage(std.Raw), std.Num, std.Parts, std.Names}).keep()) {
				return fmt.Sprintf("DESTINATION-DIFFERS-FROM-STD after doc %d", i)
			}
			kept = append(kept, rec.keep())
			views = append(views, rec.views())
			// everything handed out by EARLIER decodes still reads as it did then
			for j := 0; j < i; j++ {
				now := []string{}
				for _, v := range views[j] {
					now = append(now, string(v))
				}
				want := []string{kept[j][0], kept[j][2]}
				want = append(want, kept[j][4:4+len(views[j])-2]...)
				if fmt.Sprint(now) != fmt.Sprint(want) {
					return fmt.Sprintf("VALUE-HANDED-OUT-BY-DECODE-%d-CHANGED-AFTER-DECODE-%d", j, i)
				}
			}
		}
		return "ok"
	})
	emit("m.reuse", args, impl, "ok")
}

func c10Reuse() {
	n := 300
	if *tier == "thorough" {
		n = 3000
	}
	for i := 0; i < n; i++ {
		mReuse(rnd(), i%2 == 1)
	}
}
