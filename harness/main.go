// Command harness drives the real segmentio/encoding code (built from /repo's working tree
// with -tags verif) and the oracles named by the properties on generated inputs, and prints one
// case per line for the model side (extracted OCaml) to be run on the same inputs:
//
//	<fn> TAB <args> TAB <implementation observable> TAB <oracle observable or ->
//
// All randomness derives from one splitmix64 state seeded by -seed.
package main

import (
	"bufio"
	"encoding/hex"
	"flag"
	"fmt"
	"os"
	"strings"
)

var (
	out    *bufio.Writer
	tier   = flag.String("tier", "quick", "quick|thorough")
	seed   = flag.Uint64("seed", 1, "PRNG seed")
	shard  = flag.Int("shard", 0, "shard index")
	nshard = flag.Int("nshard", 1, "number of shards")
	caseNo int
)

type cmd struct {
	name string
	run  func()
}

var cmds = map[string]func(){}

func register(name string, f func()) { cmds[name] = f }

// replayers maps a case function name to the code that re-executes it from its argument string.
var replayers = map[string]func(args []string){}

func init() {
	register("replay", func() {
		sc := bufio.NewScanner(os.Stdin)
		sc.Buffer(make([]byte, 1<<20), 1<<28)
		for sc.Scan() {
			f := strings.SplitN(sc.Text(), "\t", 2)
			if len(f) != 2 {
				continue
			}
			if r, ok := replayers[f[0]]; ok {
				r(strings.Split(f[1], " "))
			}
		}
	})
}

func unhex(s string) []byte {
	if s == "-" {
		return nil
	}
	b, err := hex.DecodeString(s)
	if err != nil {
		panic(err)
	}
	return b
}

// emit prints a case if it belongs to this shard.
func emit(fn, args, impl, oracle string) {
	caseNo++
	if (caseNo % *nshard) != *shard {
		return
	}
	// a panic of the library is a failure of every property (none of the exercised entry points is documented to
	// panic): where a case has no oracle for its value, the oracle is at least that
	if oracle == "-" && !strings.HasPrefix(fn, "o.") && (strings.HasPrefix(impl, "PANIC") || strings.HasPrefix(impl, "panic")) { // o.*: cases about the ORACLE's own behaviour
		oracle = "nopanic"
	}
	fmt.Fprintf(out, "%s\t%s\t%s\t%s\n", fn, args, impl, oracle)
}

// mine reports whether the next case index belongs to this shard without emitting, so that
// generators can skip the expensive evaluation for other shards' cases.
func mine() bool {
	return ((caseNo + 1) % *nshard) == *shard
}

func skip() { caseNo++ }

// lastCase remembers the case being executed so that a fatal fault (which no recover can
// intercept) still identifies its input: it is written to the file named by VERIF_LASTCASE.
var lastCaseFile *os.File

func trace(fn, args string) {
	if lastCaseFile == nil {
		name := os.Getenv("VERIF_LASTCASE")
		if name == "" {
			return
		}
		f, err := os.Create(name)
		if err != nil {
			return
		}
		lastCaseFile = f
	}
	lastCaseFile.Truncate(0)
	lastCaseFile.WriteAt([]byte(fn+"\t"+args+"\n"), 0)
}

func main() {
	flag.Parse()
	if flag.NArg() < 1 {
		fmt.Fprintln(os.Stderr, "usage: harness [-tier t] [-seed n] [-shard i -nshard n] <command>")
		os.Exit(2)
	}
	out = bufio.NewWriterSize(os.Stdout, 1<<20)
	defer out.Flush()
	f, ok := cmds[flag.Arg(0)]
	if !ok {
		fmt.Fprintf(os.Stderr, "unknown command %q\n", flag.Arg(0))
		os.Exit(2)
	}
	rngInit(*seed)
	f()
}
