//go:build verif && c14

package main

// C14: json flags change representation or copying, never meaning.
//
//	f.append   type|seed|errMode|flags          Append under one AppendFlags subset against the statement's oracle
//	f.encoder  type|seed|errMode|flags|newline  Encoder with the setter methods against Append with the same flag word
//	f.parse.*  type|seed|aflags|pflags|via      Parse of the package's own output under the behaviour-preserving ParseFlags
//	f.numtyped type|seed|aflags|pflags          the four number flags on a whole document: typed targets untouched, interface numbers keep their value
//	f.num      flags ctx hexliteral             dynamic type and exact value of a number stored in an interface
//
// The default flag word is the one Marshal uses: EscapeHTML|SortMapKeys.

import (
	"bytes"
	"crypto/sha1"
	stdjson "encoding/json"
	"fmt"
	"io"
	"math"
	"math/big"
	"reflect"
	"sort"
	"strconv"
	"strings"

	"github.com/segmentio/encoding/json"
)

func init() {
	register("c14", c14)
	replayers["f.append"] = func(a []string) {
		f := strings.Split(strings.Join(a, " "), "|")
		seed, _ := strconv.ParseUint(f[1], 10, 64)
		em, _ := strconv.Atoi(f[2])
		fl, _ := strconv.Atoi(f[3])
		fAppend(parseSx(f[0]), seed, em, fl)
	}
	replayers["f.append.qs"] = replayers["f.append"]
	replayers["f.append.rawerr"] = replayers["f.append"]
	replayers["f.append.qs.rawerr"] = replayers["f.append"]
	replayers["f.encoder"] = func(a []string) {
		f := strings.Split(strings.Join(a, " "), "|")
		seed, _ := strconv.ParseUint(f[1], 10, 64)
		em, _ := strconv.Atoi(f[2])
		fl, _ := strconv.Atoi(f[3])
		fEncoder(parseSx(f[0]), seed, em, fl, f[4] == "1")
	}
	replayers["f.encoder.rawerr"] = replayers["f.encoder"]
	rp := func(a []string) {
		f := strings.Split(strings.Join(a, " "), "|")
		seed, _ := strconv.ParseUint(f[1], 10, 64)
		af, _ := strconv.Atoi(f[2])
		pf, _ := strconv.Atoi(f[3])
		via, _ := strconv.Atoi(f[4])
		fParse(parseSx(f[0]), seed, af, pf, via)
	}
	replayers["f.parse.rt"] = rp
	replayers["f.parse.std"] = rp
	replayers["f.numtyped"] = func(a []string) {
		f := strings.Split(strings.Join(a, " "), "|")
		seed, _ := strconv.ParseUint(f[1], 10, 64)
		af, _ := strconv.Atoi(f[2])
		fl, _ := strconv.Atoi(f[3])
		fNumTyped(parseSx(f[0]), seed, af, fl)
	}
	replayers["f.num"] = func(a []string) {
		fl, _ := strconv.Atoi(a[0])
		ctx, _ := strconv.Atoi(a[1])
		fNum(fl, ctx, unhex(a[2]))
	}
}

const c14Default = int(json.EscapeHTML | json.SortMapKeys)

// ---- values: the shared generator, then maps enlarged so that every map encoder sees several entries and
// keys that need (HTML) escaping ----

var c14Keys = []string{"<", ">", "&", "a<b>c&d", " ", " x", "é", "", "A", "a", "Z", "key", "k\"q", "back\\", "\x01", "zz", "0", "10", "9", "<script>", "日本", "\xff"}

var c14IfaceNums = []any{int64(math.MaxInt64), int64(math.MinInt64), uint64(math.MaxUint64), uint64(1) << 63, 1e21, 1e300, math.Copysign(0, -1), 0.1, 5e-324,
	9007199254740993.0, stdjson.Number("18446744073709551616"), stdjson.Number("-9223372036854775809"), stdjson.Number("1.5e-7"), stdjson.Number("-0"), int8(-128), uint16(65535), float32(0.1), int64(0), uint64(0), -1.5}

func c14Enrich(v reflect.Value, r *vrng, errMode, depth int) {
	if depth > 6 {
		return
	}
	switch v.Kind() {
	case reflect.Ptr:
		if !v.IsNil() {
			c14Enrich(v.Elem(), r, errMode, depth+1)
		}
	case reflect.Struct:
		if v.Type() == jNamed["Time"] {
			return
		}
		for i := 0; i < v.NumField(); i++ {
			if v.Field(i).CanSet() {
				c14Enrich(v.Field(i), r, errMode, depth+1)
			}
		}
	case reflect.Slice, reflect.Array:
		if v.Type().Elem().Kind() == reflect.Uint8 {
			return
		}
		for i := 0; i < v.Len(); i++ {
			c14Enrich(v.Index(i), r, errMode, depth+1)
		}
	case reflect.Interface:
		if v.IsNil() {
			return
		}
		if _, ok := v.Interface().(float64); ok && r.n(2) == 0 {
			v.Set(reflect.ValueOf(c14IfaceNums[r.n(len(c14IfaceNums))]))
			return
		}
		if m, ok := v.Interface().(map[string]any); ok {
			mv := reflect.ValueOf(&m).Elem()
			c14Enrich(mv, r, errMode, depth+1)
			v.Set(mv)
		} else if s, ok := v.Interface().([]any); ok && r.n(2) == 0 {
			s = append(s, map[string]any{"<": s[0], "b": []any{}, "a": map[string]any{}})
			v.Set(reflect.ValueOf(s))
		}
	case reflect.Map:
		if v.IsNil() {
			return
		}
		t := v.Type()
		// existing values first (they are not addressable: copy, enrich, store back)
		keys := v.MapKeys()
		sort.Slice(keys, func(a, b int) bool { return deepString(keys[a], 0) < deepString(keys[b], 0) })
		for _, k := range keys {
			e := reflect.New(t.Elem()).Elem()
			e.Set(v.MapIndex(k))
			c14Enrich(e, r, errMode, depth+1)
			v.SetMapIndex(k, e)
		}
		extra := r.n(7)
		for i := 0; i < extra; i++ {
			k := reflect.New(t.Key()).Elem()
			if t.Key().Kind() == reflect.String && t.Key() == reflect.TypeOf("") && r.n(3) > 0 {
				k.SetString(c14Keys[r.n(len(c14Keys))])
			} else {
				jFill(k, r, depth+2, 0)
			}
			e := reflect.New(t.Elem()).Elem()
			jFill(e, r, depth+2, errMode)
			v.SetMapIndex(k, e)
		}
	}
}

// c14Value: the value of a case is a function of (type, seed, errMode). jtypes.go's string generator draws some bytes
// from the global PRNG (pick): the global state is set from the seed for the construction and restored afterwards,
// so that neither the value nor the generator's own stream depends on which shard evaluates the case.
func c14Value(t *sx, seed uint64, errMode int) reflect.Value {
	saved := rngState
	rngState = seed*0x9E3779B97F4A7C15 + 77
	defer func() { rngState = saved }()
	v := jValue(t, seed, errMode)
	c14Enrich(v, &vrng{s: seed ^ 0x5a5a5a5a}, errMode, 0)
	return v
}

// hasInvalidRaw: some RawMessage reachable from v is not valid JSON (the precondition of TrustRawMessage fails).
func hasInvalidRaw(v reflect.Value, depth int) bool {
	if depth > 14 {
		return false
	}
	if v.Type() == jNamed["RawMessage"] {
		return !v.IsNil() && !stdjson.Valid(v.Bytes())
	}
	switch v.Kind() {
	case reflect.Ptr, reflect.Interface:
		return !v.IsNil() && hasInvalidRaw(v.Elem(), depth+1)
	case reflect.Struct:
		for i := 0; i < v.NumField(); i++ {
			if hasInvalidRaw(v.Field(i), depth+1) {
				return true
			}
		}
	case reflect.Slice, reflect.Array:
		for i := 0; i < v.Len(); i++ {
			if hasInvalidRaw(v.Index(i), depth+1) {
				return true
			}
		}
	case reflect.Map:
		it := v.MapRange()
		for it.Next() {
			if hasInvalidRaw(it.Value(), depth+1) {
				return true
			}
		}
	}
	return false
}

// rawErrClass: finding F-C14-2 (encodeMapStringRawMessage, unsorted branch, drops the error of an invalid raw
// message): SortMapKeys off and some map[string]RawMessage reachable from v holds an invalid message.
func rawErrClass(v reflect.Value, flags int) bool {
	return flags&int(json.SortMapKeys) == 0 && invalidRawInStringMap(v, 0)
}

var mapStringRawType = reflect.TypeOf(map[string]stdjson.RawMessage(nil))

func invalidRawInStringMap(v reflect.Value, depth int) bool {
	if depth > 14 {
		return false
	}
	if v.Type() == mapStringRawType {
		return hasInvalidRaw(v, depth)
	}
	switch v.Kind() {
	case reflect.Ptr, reflect.Interface:
		return !v.IsNil() && invalidRawInStringMap(v.Elem(), depth+1)
	case reflect.Struct:
		for i := 0; i < v.NumField(); i++ {
			if invalidRawInStringMap(v.Field(i), depth+1) {
				return true
			}
		}
	case reflect.Slice, reflect.Array:
		for i := 0; i < v.Len(); i++ {
			if invalidRawInStringMap(v.Index(i), depth+1) {
				return true
			}
		}
	case reflect.Map:
		it := v.MapRange()
		for it.Next() {
			if invalidRawInStringMap(it.Value(), depth+1) {
				return true
			}
		}
	}
	return false
}

// ---- a raw-token-preserving JSON reader used to canonicalise member order ----

type rawNode struct {
	raw     []byte // scalars
	obj     bool
	arr     bool
	keys    [][]byte
	members []*rawNode
}

type rawParser struct {
	b  []byte
	i  int
	ok bool
}

func (p *rawParser) ws() {
	for p.i < len(p.b) && (p.b[p.i] == ' ' || p.b[p.i] == '\t' || p.b[p.i] == '\n' || p.b[p.i] == '\r') {
		p.i++
	}
}

func (p *rawParser) str() []byte {
	st := p.i
	if p.i >= len(p.b) || p.b[p.i] != '"' {
		p.ok = false
		return nil
	}
	p.i++
	for p.i < len(p.b) {
		switch p.b[p.i] {
		case '\\':
			p.i += 2
		case '"':
			p.i++
			return p.b[st:p.i]
		default:
			p.i++
		}
	}
	p.ok = false
	return nil
}

func (p *rawParser) value(depth int) *rawNode {
	p.ws()
	if p.i >= len(p.b) || depth > 200 {
		p.ok = false
		return nil
	}
	switch c := p.b[p.i]; {
	case c == '{':
		n := &rawNode{obj: true}
		p.i++
		p.ws()
		if p.i < len(p.b) && p.b[p.i] == '}' {
			p.i++
			return n
		}
		for p.ok {
			p.ws()
			k := p.str()
			p.ws()
			if !p.ok || p.i >= len(p.b) || p.b[p.i] != ':' {
				p.ok = false
				return nil
			}
			p.i++
			v := p.value(depth + 1)
			if !p.ok {
				return nil
			}
			n.keys = append(n.keys, k)
			n.members = append(n.members, v)
			p.ws()
			if p.i < len(p.b) && p.b[p.i] == ',' {
				p.i++
				continue
			}
			if p.i < len(p.b) && p.b[p.i] == '}' {
				p.i++
				return n
			}
			p.ok = false
		}
		return nil
	case c == '[':
		n := &rawNode{arr: true}
		p.i++
		p.ws()
		if p.i < len(p.b) && p.b[p.i] == ']' {
			p.i++
			return n
		}
		for p.ok {
			v := p.value(depth + 1)
			if !p.ok {
				return nil
			}
			n.members = append(n.members, v)
			p.ws()
			if p.i < len(p.b) && p.b[p.i] == ',' {
				p.i++
				continue
			}
			if p.i < len(p.b) && p.b[p.i] == ']' {
				p.i++
				return n
			}
			p.ok = false
		}
		return nil
	case c == '"':
		return &rawNode{raw: p.str()}
	default:
		st := p.i
		for p.i < len(p.b) && !strings.ContainsRune(" \t\r\n,]}:", rune(p.b[p.i])) {
			p.i++
		}
		if st == p.i {
			p.ok = false
			return nil
		}
		return &rawNode{raw: p.b[st:p.i]}
	}
}

func (n *rawNode) emit(o *bytes.Buffer, sortMembers bool) {
	switch {
	case n.obj:
		idx := make([]int, len(n.keys))
		for i := range idx {
			idx[i] = i
		}
		if sortMembers {
			// ties (two Go map keys that sanitise to the same JSON key) are ordered by the member's own rendering, so
			// that the canonical form does not depend on the iteration order of the map
			rendered := make([][]byte, len(n.keys))
			for i := range n.keys {
				var mb bytes.Buffer
				n.members[i].emit(&mb, sortMembers)
				rendered[i] = mb.Bytes()
			}
			sort.SliceStable(idx, func(a, b int) bool {
				if c := bytes.Compare(n.keys[idx[a]], n.keys[idx[b]]); c != 0 {
					return c < 0
				}
				return bytes.Compare(rendered[idx[a]], rendered[idx[b]]) < 0
			})
		}
		o.WriteByte('{')
		for j, i := range idx {
			if j > 0 {
				o.WriteByte(',')
			}
			o.Write(n.keys[i])
			o.WriteByte(':')
			n.members[i].emit(o, sortMembers)
		}
		o.WriteByte('}')
	case n.arr:
		o.WriteByte('[')
		for j, m := range n.members {
			if j > 0 {
				o.WriteByte(',')
			}
			m.emit(o, sortMembers)
		}
		o.WriteByte(']')
	default:
		o.Write(n.raw)
	}
}

// canonJSON re-emits a document compactly, byte-exact in its tokens, with the members of every object in
// byte order of their raw keys when sortMembers is set. Invalid input is returned marked.
func canonJSON(b []byte, sortMembers bool) []byte {
	if !stdjson.Valid(b) {
		if sortMembers {
			return []byte("INVALID") // unsorted output: the bytes depend on the iteration order of the run
		}
		return append([]byte("INVALID:"), b...)
	}
	p := &rawParser{b: b, ok: true}
	n := p.value(0)
	p.ws()
	if !p.ok || p.i != len(b) {
		return append([]byte("UNPARSED:"), b...)
	}
	var o bytes.Buffer
	n.emit(&o, sortMembers)
	return o.Bytes()
}

// genericDigest: the value encoding/json decodes the document to (numbers kept as literals, strings decoded), as a
// digest of a canonical rendering in which the members of every object are sorted. Members are kept as a MULTISET:
// two distinct Go map keys may sanitise to the same JSON key (an ill-formed byte and a genuine U+FFFD), and a
// last-member-wins reading of such an object would depend on the iteration order of an unsorted map.
func genericDigest(b []byte) string {
	d := stdjson.NewDecoder(bytes.NewReader(b))
	d.UseNumber()
	c, err := genericCanon(d)
	if err != nil {
		return "INVALID"
	}
	if _, err := d.Token(); err != io.EOF {
		return "TRAILING"
	}
	h := sha1.Sum([]byte(c))
	return fmt.Sprintf("%x", h[:6])
}

func genericCanon(d *stdjson.Decoder) (string, error) {
	t, err := d.Token()
	if err != nil {
		return "", err
	}
	switch v := t.(type) {
	case stdjson.Delim:
		switch v {
		case '{':
			var members []string
			for d.More() {
				k, err := d.Token()
				if err != nil {
					return "", err
				}
				ks, ok := k.(string)
				if !ok {
					return "", fmt.Errorf("key")
				}
				val, err := genericCanon(d)
				if err != nil {
					return "", err
				}
				members = append(members, strconv.Quote(ks)+":"+val)
			}
			if _, err := d.Token(); err != nil {
				return "", err
			}
			sort.Strings(members)
			return "{" + strings.Join(members, ",") + "}", nil
		case '[':
			var elems []string
			for d.More() {
				val, err := genericCanon(d)
				if err != nil {
					return "", err
				}
				elems = append(elems, val)
			}
			if _, err := d.Token(); err != nil {
				return "", err
			}
			return "[" + strings.Join(elems, ",") + "]", nil
		}
		return "", fmt.Errorf("delim")
	case string:
		return strconv.Quote(v), nil
	case stdjson.Number:
		return string(v), nil
	case bool:
		return strconv.FormatBool(v), nil
	case nil:
		return "null", nil
	}
	return "", fmt.Errorf("token")
}

func stdEncode(x any, escapeHTML bool) ([]byte, error) {
	var ob bytes.Buffer
	oe := stdjson.NewEncoder(&ob)
	oe.SetEscapeHTML(escapeHTML)
	if err := oe.Encode(x); err != nil {
		return nil, err
	}
	return bytes.TrimSuffix(ob.Bytes(), []byte("\n")), nil
}

func c14Iface(v reflect.Value, seed uint64) any {
	if seed%2 == 0 {
		return v.Addr().Interface()
	}
	return v.Interface()
}

// canonFor projects an output for comparison under a flag word: member order is erased when SortMapKeys is off,
// insignificant white space (which TrustRawMessage copies from the raw messages) always.
func canonFor(b []byte, flags int) []byte {
	if flags&int(json.SortMapKeys) != 0 && flags&int(json.TrustRawMessage) == 0 {
		return b // byte for byte
	}
	return canonJSON(b, flags&int(json.SortMapKeys) == 0)
}

// quotedStringField: the type has a string-kind field with the ",string" option. encoding/json (and the package,
// byte for byte) HTML-escape the INNER string of such a field before quoting it again, so the generic value of the
// outer string depends on EscapeHTML in encoding/json itself; for these types only the bytes are compared.
func quotedStringField(t reflect.Type, seen map[reflect.Type]bool) bool {
	if seen[t] {
		return false
	}
	seen[t] = true
	switch t.Kind() {
	case reflect.Ptr, reflect.Slice, reflect.Array, reflect.Map:
		return quotedStringField(t.Elem(), seen)
	case reflect.Struct:
		for i := 0; i < t.NumField(); i++ {
			f := t.Field(i)
			_, opts, _ := strings.Cut(f.Tag.Get("json"), ",")
			ft := f.Type
			if ft.Kind() == reflect.Ptr {
				ft = ft.Elem()
			}
			if ft.Kind() == reflect.String && strings.Contains(","+opts+",", ",string,") {
				return true
			}
			if quotedStringField(f.Type, seen) {
				return true
			}
		}
	}
	return false
}

func fAppend(t *sx, seed uint64, errMode, flags int) {
	if !mine() {
		skip()
		return
	}
	args := fmt.Sprintf("%s|%d|%d|%d", sxString(t), seed, errMode, flags)
	trace("f.append", args)
	var orc string
	fn := "f.append"
	qs := quotedStringField(jType(t), map[reflect.Type]bool{})
	if qs {
		fn = "f.append.qs"
	}
	gd := func(b []byte) string {
		if qs {
			return "-"
		}
		return genericDigest(b)
	}
	impl := guarded(func() string {
		v := c14Value(t, seed, errMode)
		if rawErrClass(v, flags) {
			fn += ".rawerr"
		}
		x := c14Iface(v, seed)
		def, derr := json.Append(nil, x, json.AppendFlags(c14Default))
		if derr != nil {
			orc = "err"
		} else {
			exp := def
			if flags&int(json.EscapeHTML) == 0 {
				sb, serr := stdEncode(x, false)
				if serr != nil {
					sb = []byte("STD-ERR")
				}
				exp = sb
			}
			orc = "ok " + hexs(canonFor(exp, flags)) + " g=" + gd(def)
		}
		out, err := json.Append(nil, x, json.AppendFlags(flags))
		if err != nil {
			return "err"
		}
		return "ok " + hexs(canonFor(out, flags)) + " g=" + gd(out)
	})
	emit(fn, args, impl, orc)
}

func fEncoder(t *sx, seed uint64, errMode, flags int, newline bool) {
	if !mine() {
		skip()
		return
	}
	args := fmt.Sprintf("%s|%d|%d|%d|%d", sxString(t), seed, errMode, flags, map[bool]int{false: 0, true: 1}[newline])
	trace("f.encoder", args)
	var orc string
	fn := "f.encoder"
	impl := guarded(func() string {
		v := c14Value(t, seed, errMode)
		if rawErrClass(v, flags) {
			fn += ".rawerr"
		}
		x := c14Iface(v, seed)
		ref, rerr := json.Append(nil, x, json.AppendFlags(flags))
		tail := ""
		if newline {
			tail = " nl"
		}
		if rerr != nil {
			orc = "err"
		} else {
			orc = "ok " + hexs(canonFor(ref, flags)) + tail
		}
		var sb bytes.Buffer
		e := json.NewEncoder(&sb)
		e.SetEscapeHTML(flags&int(json.EscapeHTML) != 0)
		e.SetSortMapKeys(flags&int(json.SortMapKeys) != 0)
		e.SetTrustRawMessage(flags&int(json.TrustRawMessage) != 0)
		e.SetAppendNewline(newline)
		if err := e.Encode(x); err != nil {
			return "err"
		}
		o := sb.Bytes()
		got := ""
		if bytes.HasSuffix(o, []byte("\n")) {
			got = " nl"
			o = o[:len(o)-1]
		}
		return "ok " + hexs(canonFor(o, flags)) + got
	})
	emit(fn, args, impl, orc)
}

// ---- Parse of the package's own output under DontCopyString/DontCopyNumber/DontCopyRawMessage/
// DontMatchCaseInsensitiveStructFields ----

func c14ParseFlags(pf int) json.ParseFlags {
	var f json.ParseFlags
	if pf&1 != 0 {
		f |= json.DontCopyString
	}
	if pf&2 != 0 {
		f |= json.DontCopyNumber
	}
	if pf&4 != 0 {
		f |= json.DontCopyRawMessage
	}
	if pf&8 != 0 {
		f |= json.DontMatchCaseInsensitiveStructFields
	}
	return f
}

// c14Doc is the document a parse case works on: the package's output for the value under aflags (SortMapKeys is
// always part of aflags so that the document is a function of the arguments).
func c14Doc(t *sx, seed uint64, aflags int) (reflect.Value, []byte, error) {
	v := c14Value(t, seed, 0)
	b, err := json.Append(nil, v.Interface(), json.AppendFlags(aflags))
	return v, b, err
}

func fParse(t *sx, seed uint64, aflags, pf, via int) {
	if !mine() {
		skip()
		return
	}
	args := fmt.Sprintf("%s|%d|%d|%d|%d", sxString(t), seed, aflags, pf, via)
	trace("f.parse", args)
	fn := "f.parse.std"
	var orc string
	impl := guarded(func() string {
		rt := jType(t)
		orig, doc, err := c14Doc(t, seed, aflags)
		if err != nil {
			orc = "noenc"
			return "noenc"
		}
		std := reflect.New(rt)
		if serr := stdjson.Unmarshal(doc, std.Interface()); serr != nil {
			orc = "err"
		} else {
			orc = "ok:" + deepString(std.Elem(), 0)
			if orc == "ok:"+deepString(orig, 0) {
				fn = "f.parse.rt" // the statement's case: the document restores the original value
			}
		}
		pristine := append([]byte(nil), doc...)
		work := append([]byte(nil), doc...)
		target := reflect.New(rt)
		flags := c14ParseFlags(pf)
		var perr error
		switch via {
		case 0:
			var rest []byte
			rest, perr = json.Parse(work, target.Interface(), flags)
			if perr == nil && len(rest) != 0 {
				perr = fmt.Errorf("trailing data")
			}
		default:
			dec := json.NewDecoder(bytes.NewReader(work))
			first := pf&8 != 0 && len(work)%2 == 0 // the setters commute: either order
			if first {
				dec.DontMatchCaseInsensitiveStructFields()
			}
			if pf&7 == 7 {
				dec.ZeroCopy()
			} else {
				if pf&1 != 0 {
					dec.DontCopyString()
				}
				if pf&2 != 0 {
					dec.DontCopyNumber()
				}
				if pf&4 != 0 {
					dec.DontCopyRawMessage()
				}
			}
			if pf&8 != 0 && !first {
				dec.DontMatchCaseInsensitiveStructFields()
			}
			perr = dec.Decode(target.Interface())
		}
		if perr != nil {
			return "err"
		}
		s := "ok:" + deepString(target.Elem(), 0)
		if !bytes.Equal(work, pristine) {
			s += " INPUT-MODIFIED"
		}
		return s
	})
	emit(fn, args, impl, orc)
}

// deepStringN is deepString with the numbers held in interfaces rendered by value only (as the float64 nearest to
// their exact value), whatever their dynamic type: what must not depend on UseNumber/UseBigInt/UseInt64/UseUint64.
func deepStringN(v reflect.Value, depth int) string {
	if depth > 12 {
		return "..."
	}
	switch v.Kind() {
	case reflect.Ptr:
		if v.IsNil() {
			return "nil"
		}
		return "&" + deepStringN(v.Elem(), depth+1)
	case reflect.Interface:
		if v.IsNil() {
			return "nil"
		}
		txt := ""
		switch n := v.Interface().(type) {
		case float64:
			return fmt.Sprintf("<num>%016x", math.Float64bits(n+0)) // n+0: minus zero and zero are the same number
		case int64:
			txt = strconv.FormatInt(n, 10)
		case uint64:
			txt = strconv.FormatUint(n, 10)
		case *big.Int:
			if n != nil {
				txt = n.String()
			}
		case json.Number:
			txt = string(n)
		}
		if txt != "" {
			f, err := strconv.ParseFloat(txt, 64)
			if err != nil {
				return "<num>out-of-range:" + txt
			}
			return fmt.Sprintf("<num>%016x", math.Float64bits(f+0))
		}
		return "<" + v.Elem().Type().String() + ">" + deepStringN(v.Elem(), depth+1)
	case reflect.Slice:
		if v.IsNil() {
			return "nil"
		}
		if v.Type().Elem().Kind() == reflect.Uint8 {
			return fmt.Sprintf("x%x", v.Bytes())
		}
		fallthrough
	case reflect.Array:
		var p []string
		for i := 0; i < v.Len(); i++ {
			p = append(p, deepStringN(v.Index(i), depth+1))
		}
		return "[" + strings.Join(p, ",") + "]"
	case reflect.Map:
		if v.IsNil() {
			return "nil"
		}
		var p []string
		it := v.MapRange()
		for it.Next() {
			p = append(p, deepStringN(it.Key(), depth+1)+":"+deepStringN(it.Value(), depth+1))
		}
		sortStrings(p)
		return "{" + strings.Join(p, ",") + "}"
	case reflect.Struct:
		if v.Type() == jNamed["Time"] {
			return fmt.Sprint(v.Interface())
		}
		var p []string
		for i := 0; i < v.NumField(); i++ {
			p = append(p, deepStringN(v.Field(i), depth+1))
		}
		return "(" + strings.Join(p, ",") + ")"
	}
	return deepString(v, depth)
}

// fNumTyped: the four number flags on a whole document of the package decoded into its own type: typed targets are
// not affected at all, numbers in interfaces keep their value (compared as the nearest float64; f.num compares exactly).
func fNumTyped(t *sx, seed uint64, aflags, flags int) {
	if !mine() {
		skip()
		return
	}
	args := fmt.Sprintf("%s|%d|%d|%d", sxString(t), seed, aflags, flags)
	trace("f.numtyped", args)
	var orc string
	impl := guarded(func() string {
		rt := jType(t)
		_, doc, err := c14Doc(t, seed, aflags)
		if err != nil {
			orc = "noenc"
			return "noenc"
		}
		std := reflect.New(rt)
		if serr := stdjson.Unmarshal(doc, std.Interface()); serr != nil {
			orc = "err"
		} else {
			orc = "ok:" + deepStringN(std.Elem(), 0)
		}
		target := reflect.New(rt)
		rest, perr := json.Parse(doc, target.Interface(), json.ParseFlags(flags))
		if perr != nil || len(rest) != 0 {
			return "err"
		}
		return "ok:" + deepStringN(target.Elem(), 0)
	})
	emit("f.numtyped", args, impl, orc)
}

// ---- numbers stored in interfaces under UseNumber / UseBigInt / UseInt64 / UseUint64 ----

var (
	bigMaxU64 = new(big.Int).SetUint64(math.MaxUint64)
	bigMaxI64 = big.NewInt(math.MaxInt64)
	bigMinI64 = big.NewInt(math.MinInt64)
)

// numOracle transcribes the documentation of the four flags (json.go):
//
//	UseUint64: in-range positive integers -> uint64, before UseInt64, UseBigInt, UseNumber
//	UseInt64:  in-range integers -> int64, before UseBigInt, UseNumber
//	UseBigInt: integers -> *big.Int, before UseNumber
//	UseNumber: numbers -> Number instead of float64
//
// with the value computed from the literal by math/big, independently of the package.
func numOracle(flags json.ParseFlags, lit string) string {
	if !stdjson.Valid([]byte(lit)) || len(lit) == 0 || !(lit[0] == '-' || (lit[0] >= '0' && lit[0] <= '9')) {
		return "err"
	}
	isInt := !strings.ContainsAny(lit, ".eE")
	if isInt {
		val, ok := new(big.Int).SetString(lit, 10)
		if !ok {
			return "ORACLE-CANNOT-READ"
		}
		neg := lit[0] == '-'
		switch {
		case flags&json.UseUint64 != 0 && !neg && val.Cmp(bigMaxU64) <= 0:
			return "uint64 " + val.String()
		case flags&json.UseInt64 != 0 && val.Cmp(bigMinI64) >= 0 && val.Cmp(bigMaxI64) <= 0:
			return "int64 " + val.String()
		case flags&json.UseBigInt != 0:
			return "big " + val.String()
		}
	}
	if flags&json.UseNumber != 0 {
		return "Number " + lit
	}
	f, err := strconv.ParseFloat(lit, 64)
	if err != nil {
		return "err"
	}
	return fmt.Sprintf("float64 %016x", math.Float64bits(f))
}

func numObs(x any) string {
	switch n := x.(type) {
	case uint64:
		return "uint64 " + strconv.FormatUint(n, 10)
	case int64:
		return "int64 " + strconv.FormatInt(n, 10)
	case *big.Int:
		if n == nil {
			return "big nil"
		}
		return "big " + n.String()
	case json.Number:
		return "Number " + string(n)
	case float64:
		return fmt.Sprintf("float64 %016x", math.Float64bits(n))
	}
	return fmt.Sprintf("other %T", x)
}

// contexts in which the number reaches decodeInterface
func numDecode(flags json.ParseFlags, ctx int, lit []byte) (any, error) {
	var doc []byte
	var x any
	var get func() any
	switch ctx {
	case 0:
		doc = lit
		get = func() any { return x }
	case 1:
		doc = []byte("[" + string(lit) + "]")
		get = func() any { return x.([]any)[0] }
	case 2:
		doc = []byte(`{"k":` + string(lit) + `}`)
		get = func() any { return x.(map[string]any)["k"] }
	case 3:
		doc = []byte(" \n" + string(lit) + "\t ")
		get = func() any { return x }
	case 8: // a nil value of a DEFINED empty interface type (decodeMaybeEmptyInterface), as a struct field
		var st struct {
			A NamedAny
			B int
		}
		doc = []byte(`{"B":1,"A":` + string(lit) + `}`)
		if _, err := json.Parse(doc, &st, flags); err != nil {
			return nil, err
		}
		return any(st.A), nil
	case 9: // ... as a slice element and a map value
		var sl []NamedAny
		var mp map[string]NamedAny
		if _, err := json.Parse([]byte("[null,"+string(lit)+"]"), &sl, flags); err != nil {
			return nil, err
		}
		if _, err := json.Parse([]byte(`{"k":`+string(lit)+`}`), &mp, flags); err != nil {
			return nil, err
		}
		if numObs(any(sl[1])) != numObs(any(mp["k"])) {
			return fmt.Sprintf("slice element %s, map value %s", numObs(any(sl[1])), numObs(any(mp["k"]))), nil
		}
		return any(sl[1]), nil
	case 4:
		var s []any
		doc = []byte("[true, " + string(lit) + " ]")
		_, err := json.Parse(doc, &s, flags)
		if err != nil {
			return nil, err
		}
		return s[1], nil
	case 5:
		var m map[string]any
		doc = []byte(`{"a<":` + string(lit) + `,"b":null}`)
		_, err := json.Parse(doc, &m, flags)
		if err != nil {
			return nil, err
		}
		return m["a<"], nil
	case 6:
		var st struct {
			A any
			B *any
		}
		doc = []byte(`{"B":` + string(lit) + `}`)
		_, err := json.Parse(doc, &st, flags)
		if err != nil {
			return nil, err
		}
		return *st.B, nil
	default:
		dec := json.NewDecoder(bytes.NewReader(append(append([]byte(nil), lit...), '\n')))
		if flags&json.UseNumber != 0 {
			dec.UseNumber()
		}
		if flags&json.DisallowUnknownFields != 0 {
			dec.DisallowUnknownFields()
		}
		// the copy setters come AFTER the others: a setter must add its flag, not replace the flag word
		if flags&json.ZeroCopy == json.ZeroCopy {
			dec.ZeroCopy()
		} else {
			if flags&json.DontCopyString != 0 {
				dec.DontCopyString()
			}
			if flags&json.DontCopyNumber != 0 {
				dec.DontCopyNumber()
			}
			if flags&json.DontCopyRawMessage != 0 {
				dec.DontCopyRawMessage()
			}
		}
		if flags&^(json.UseNumber|json.DisallowUnknownFields|json.ZeroCopy) != 0 {
			// UseInt64/UseUint64/UseBigInt have no setter: ctx 7 is only generated for flag words without them
			return nil, fmt.Errorf("no setter")
		}
		if err := dec.Decode(&x); err != nil {
			return nil, err
		}
		return x, nil
	}
	rest, err := json.Parse(doc, &x, flags)
	if err != nil {
		return nil, err
	}
	if len(rest) != 0 {
		return nil, fmt.Errorf("trailing")
	}
	return get(), nil
}

func fNum(flags, ctx int, lit []byte) {
	if !mine() {
		skip()
		return
	}
	args := fmt.Sprintf("%d %d %s", flags, ctx, hexs(lit))
	trace("f.num", args)
	impl := guarded(func() string {
		x, err := numDecode(json.ParseFlags(flags), ctx, lit)
		if err != nil {
			return "err"
		}
		return numObs(x)
	})
	emit("f.num", args, impl, numOracle(json.ParseFlags(flags), string(lit)))
}

var c14NumLits = []string{
	"0", "-0", "1", "-1", "9", "10", "-10", "127", "128", "255", "256", "65535", "4294967295", "4294967296",
	"9223372036854775806", "9223372036854775807", "9223372036854775808", "9223372036854775809",
	"-9223372036854775807", "-9223372036854775808", "-9223372036854775809", "-9223372036854775810",
	"18446744073709551614", "18446744073709551615", "18446744073709551616", "18446744073709551617", "18446744073709551620",
	"-18446744073709551615", "-18446744073709551616",
	"10000000000000000000", "20000000000000000000", "25000000000000000000", "30000000000000000000", "50000000000000000000",
	"92233720368547758070", "92233720368547758080", "99999999999999999999", "100000000000000000000", "184467440737095516150", "184467440737095516160",
	"-25000000000000000000", "-92233720368547758080", "-99999999999999999999",
	"340282366920938463463374607431768211456", "-340282366920938463463374607431768211457",
	"1" + strings.Repeat("0", 400), "-1" + strings.Repeat("0", 400), strings.Repeat("9", 64),
	"0.0", "-0.0", "0.5", "1.0", "1.5", "-1.5", "0.1", "123456789.125", "9223372036854775807.0", "18446744073709551615.5",
	"1e0", "1E0", "1e2", "1E+2", "1e-2", "-1e2", "0e0", "-0e0", "0E-0", "1.5e300", "1e308", "1.7976931348623157e308", "1.7976931348623159e308", "1e309", "1e400", "-1e400",
	"5e-324", "2e-324", "2.5e-324", "1e-400", "-1e-400", "1e19", "1e20", "9007199254740993", "9007199254740992.5", "0.30000000000000004", "1e99999999999999999999", "1e-99999999999999999999",
	"123456789012345678901234567890.123456789", "0.000000000000000000000000000001",
}

var c14NumBad = []string{"", "-", "+1", "01", "-01", "00", "1.", ".5", "1e", "1e+", "1.e1", "0x10", "1_0", "--1", "1-", "Infinity", "NaN", "1.5.5", "1e1e1", "0b1", "0o7", "1 2"}

func randDigits(n int) string {
	b := make([]byte, n)
	for i := range b {
		b[i] = byte('0' + rndn(10))
	}
	if n > 1 && b[0] == '0' {
		b[0] = byte('1' + rndn(9))
	}
	return string(b)
}

func randNumLit() string {
	var s string
	switch rndn(6) {
	case 0: // around the 64-bit boundaries: 19/20 digits
		s = randDigits(19 + rndn(2))
	case 1:
		s = randDigits(1 + rndn(30))
	case 2: // a boundary value with the last digits perturbed
		base := pick([]string{"9223372036854775807", "18446744073709551615", "1844674407370955161", "922337203685477580"})
		s = base[:len(base)-1-rndn(2)] + randDigits(1+rndn(3))
		if s[0] == '0' {
			s = "1" + s
		}
	case 3:
		s = randDigits(1+rndn(20)) + "." + func() string { d := randDigits(1 + rndn(8)); return d }()
	case 4:
		s = randDigits(1+rndn(5)) + pick([]string{"e", "E", "e+", "e-", "E-"}) + randDigits(1+rndn(3))
	default:
		s = randDigits(1+rndn(20)) + "." + randDigits(1+rndn(4)) + pick([]string{"e", "E+", "e-"}) + randDigits(1+rndn(2))
	}
	if rndn(3) == 0 {
		s = "-" + s
	}
	return s
}

var c14NumFlagBits = []int{int(json.UseNumber), int(json.UseBigInt), int(json.UseInt64), int(json.UseUint64)}
var c14OtherFlagBits = []int{int(json.DisallowUnknownFields), int(json.DontCopyString), int(json.DontCopyNumber), int(json.DontCopyRawMessage), int(json.DontMatchCaseInsensitiveStructFields)}

func numFlagWord(sub int) int {
	f := 0
	for i, b := range c14NumFlagBits {
		if sub&(1<<i) != 0 {
			f |= b
		}
	}
	return f
}

func otherFlagWord() int {
	f := 0
	for _, b := range c14OtherFlagBits {
		if rndBool() {
			f |= b
		}
	}
	return f
}

// ---- the run ----

var c14MapTypes = []string{
	"(map str any)", "(map str RawMessage)", "(map str str)", "(map str (slice str))", "(map str bool)",
	"(map str int)", "(map str f64)", "(map int str)", "(map i8 bool)", "(map u64 any)", "(map str (map str any))", "(map str (map str str))",
	"(map str (ptr RawMessage))", "(map str (ptr (map str bool)))", "(map str (struct (f A - int) (f B <tag> str)))", "(map str ValMarshaler)", "(map str Number)", "(map str Time)",
	"(slice (map str RawMessage))", "(slice (map str any))", "(arr 2 (map str bool))", "(ptr (map str (slice str)))",
	"(struct (f M - (map str any)) (f R - (map str RawMessage)) (f S <s> (map str str)) (f L a&b (map str (slice str))) (f B ,omitempty (map str bool)) (f G - (map int any)))",
	"(struct (f A <tag> int) (f B a&b str) (f C x>y (map str str)) (f D - RawMessage) (f E é (ptr RawMessage)))",
	"(struct (f A <a> (struct (f B <b> (struct (f C <c> (map str RawMessage)))))))",
	"(struct (f A <,omitempty int) (f B >,string int) (f C &,omitempty,string str))",
	"namedany", "(slice namedany)", "(map str namedany)", "(struct (f A - namedany) (f B - any) (f C - (ptr namedany)))",
	"any", "(slice any)", "(struct (f A - any) (f B <any> any))", "RawMessage", "(ptr RawMessage)", "(slice RawMessage)", "(struct (f R - RawMessage) (f P ,omitempty (ptr RawMessage)))",
}

// fAppendKeys: maps whose keys are written through a text method or as integers, with enough entries for the sorted
// order to matter (integer kinds with MarshalText sort by the TEXT, integers by their decimal text, as encoding/json
// does): with SortMapKeys the bytes are encoding/json's, without it a permutation of them
func fAppendKeys() {
	vals := []any{
		map[IntKey]string{9: "a", 10: "b", 100: "c", -1: "d", 0: "e", 11: "f"},
		map[NameKey]int{0: 10, 1: 11, 2: 12, 3: 13, 4: 14, 5: 15, -7: 16, 100: 17},
		map[NameKeyU]string{0: "a", 1: "b", 2: "c", 3: "d", 255: "e"},
		map[int]string{9: "a", 10: "b", 100: "c", -1: "d", 0: "e", -10: "f"},
		map[uint8]bool{9: true, 10: false, 100: true, 2: false, 200: true},
		map[StructKey]int{{A: 2, B: 1}: 1, {A: 10, B: 1}: 2, {A: 1, B: 9}: 3},
		struct {
			M map[IntKey]map[int8]string
		}{map[IntKey]map[int8]string{10: {-1: "x", 1: "y", 10: "z", 9: "w"}, 9: {}, 100: nil}},
		[]any{map[IntKey]int{3: 1, 20: 2, 100: 3}, map[uint64]any{18446744073709551615: 1, 2: nil, 10: "<&>"}},
	}
	for vi, x := range vals {
		for flags := 0; flags < 8; flags++ {
			if !mine() {
				skip()
				continue
			}
			args := fmt.Sprintf("%d %d", vi, flags)
			var orc string
			impl := guarded(func() string {
				var ob bytes.Buffer
				oe := stdjson.NewEncoder(&ob)
				oe.SetEscapeHTML(flags&int(json.EscapeHTML) != 0)
				if err := oe.Encode(x); err != nil {
					orc = "err"
				} else {
					orc = "ok " + hexs(canonFor(bytes.TrimSuffix(ob.Bytes(), []byte("\n")), flags))
				}
				b, err := json.Append(nil, x, json.AppendFlags(flags))
				if err != nil {
					return "err"
				}
				return "ok " + hexs(canonFor(b, flags))
			})
			emit("f.appendkeys", args, impl, orc)
		}
	}
}

func c14() {
	fAppendKeys()
	jEncSeqAll() // failed encodes followed by other encodes (pooled scratch state)
	g := &jgen{maxDepth: 3}
	nT, nV := 700, 3
	nRand := 10000
	if *tier == "thorough" {
		nT, nV, nRand = 6000, 5, 100000
	}
	var types []*sx
	special := map[*sx]bool{}
	for _, s := range c14MapTypes {
		t := parseSx(s)
		types = append(types, t)
		special[t] = true
	}
	for _, s := range c01Fixed {
		types = append(types, parseSx(s))
	}
	for i := 0; i < nT; i++ {
		if rndn(3) == 0 {
			types = append(types, g.ty(0))
		} else {
			types = append(types, g.structTy(0))
		}
	}
	for _, t := range types {
		rt := jType(t)
		if classSuffix(rt) != "" {
			continue // shapes of the recorded findings F28/F30/F12b (they belong to C01/C02)
		}
		ts := sxString(t)
		nv := nV
		if special[t] {
			nv = 3 * nV
		}
		decodable := !strings.Contains(ts, "(ptr (ptr") && !(strings.Contains(ts, "Number") && strings.Contains(ts, ",string"))
		for j := 0; j < nv; j++ {
			seed := rnd()
			em := 0
			if j%3 == 2 {
				em = 1
			}
			bad := hasInvalidRaw(c14Value(t, seed, em), 0)
			for flags := 0; flags < 8; flags++ {
				if flags&int(json.TrustRawMessage) != 0 && bad {
					continue // precondition of TrustRawMessage
				}
				fAppend(t, seed, em, flags)
			}
			fl := rndn(8)
			if !(fl&int(json.TrustRawMessage) != 0 && bad) {
				fEncoder(t, seed, em, fl, rndBool())
			}
			if em != 0 || !decodable {
				continue
			}
			aflags := pick([]int{2, 3, 6, 7})
			for pf := 0; pf < 16; pf++ {
				fParse(t, seed, aflags, pf, (pf+j)%2)
			}
			if strings.Contains(ts, "any") || j == 0 {
				for sub := 0; sub < 16; sub++ {
					fNumTyped(t, seed, aflags, numFlagWord(sub)|otherFlagWord()&^int(json.DisallowUnknownFields))
				}
			}
		}
	}
	// numbers: every literal of the table under all 16 flag subsets in a rotating context; random literals
	for li, lit := range c14NumLits {
		for sub := 0; sub < 16; sub++ {
			fNum(numFlagWord(sub), (li+sub)%7, []byte(lit))
			fNum(numFlagWord(sub), 8+(li+sub)%2, []byte(lit))
			fNum(numFlagWord(sub)|otherFlagWord(), rndn(7), []byte(lit))
		}
		fNum(0, 7, []byte(lit))
		fNum(int(json.UseNumber), 7, []byte(lit))
		fNum(int(json.UseNumber|json.ZeroCopy), 7, []byte(lit))
		fNum(int(json.UseNumber|json.DontCopyNumber|json.DisallowUnknownFields), 7, []byte(lit))
	}
	for _, lit := range c14NumBad {
		for sub := 0; sub < 16; sub++ {
			fNum(numFlagWord(sub), 0, []byte(lit))
		}
	}
	for i := 0; i < nRand; i++ {
		lit := randNumLit()
		sub := rndn(16)
		fNum(numFlagWord(sub)|otherFlagWord(), rndn(7), []byte(lit))
		if i%8 == 1 {
			fNum(numFlagWord(sub)|otherFlagWord(), 8+rndn(2), []byte(lit))
		}
		if i%4 == 0 {
			for sub := 0; sub < 16; sub++ {
				fNum(numFlagWord(sub), 0, []byte(lit))
			}
		}
	}
}
