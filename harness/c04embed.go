//go:build verif

package main

import (
	"fmt"
	"reflect"

	"github.com/segmentio/encoding/thrift"
)

// Embedded structs (anonymous fields) are flattened by the thrift package: the promoted fields of an embedded struct
// type, exported or not, are fields of the enclosing struct. reflect.StructOf cannot build unexported embedded types,
// so these shapes are declared here; the oracle is the encoding of the equivalent flat struct.
type tEmbHeader struct {
	ID      int64  `thrift:"1"`
	Version int32  `thrift:"2,required"`
	Origin  string `thrift:"3"`
}
type TEmbHeaderX struct {
	ID      int64  `thrift:"1"`
	Version int32  `thrift:"2,required"`
	Origin  string `thrift:"3"`
}
type tEmbTail struct {
	Flag bool    `thrift:"7"`
	List []int16 `thrift:"9"`
}
type tEmbOuterA struct {
	tEmbHeader
	Name  string  `thrift:"4"`
	Score float64 `thrift:"5"`
}
type tEmbOuterB struct {
	TEmbHeaderX
	Name  string  `thrift:"4"`
	Score float64 `thrift:"5"`
}
type tEmbOuterC struct {
	Name string `thrift:"4"`
	tEmbHeader
	Score float64 `thrift:"5"`
	tEmbTail
}
type tEmbFlat struct {
	ID      int64   `thrift:"1"`
	Version int32   `thrift:"2,required"`
	Origin  string  `thrift:"3"`
	Name    string  `thrift:"4"`
	Score   float64 `thrift:"5"`
	Flag    bool    `thrift:"7"`
	List    []int16 `thrift:"9"`
}

func tEmbed(kind int, seed uint64, p string) {
	if !mine() {
		skip()
		return
	}
	args := fmt.Sprintf("%d %d %s", kind, seed, p)
	trace("t.embed", args)
	r := &vrng{s: seed}
	flat := tEmbFlat{ID: int64(r.next()) >> uint(r.n(64)), Version: int32(r.next()), Origin: r.str(), Name: r.str(), Score: float64(int64(r.next())>>40) / 8}
	h := tEmbHeader{flat.ID, flat.Version, flat.Origin}
	var outer any
	var back func() any
	switch kind {
	case 0:
		outer = &tEmbOuterA{h, flat.Name, flat.Score}
		back = func() any { return &tEmbOuterA{} }
	case 1:
		outer = &tEmbOuterB{TEmbHeaderX(h), flat.Name, flat.Score}
		back = func() any { return &tEmbOuterB{} }
	default:
		flat.Flag = r.n(2) == 0
		for i := r.n(4); i > 0; i-- {
			flat.List = append(flat.List, int16(r.next()))
		}
		outer = &tEmbOuterC{flat.Name, h, flat.Score, tEmbTail{flat.Flag, flat.List}}
		back = func() any { return &tEmbOuterC{} }
	}
	want, werr := thrift.Marshal(tproto(p), &flat)
	impl := guarded(func() string {
		b, err := thrift.Marshal(tproto(p), outer)
		if err != nil {
			return "err:marshal"
		}
		y := back()
		if err := thrift.Unmarshal(tproto(p), b, y); err != nil {
			return hexs(b) + " rt=err"
		}
		if !reflect.DeepEqual(normNilSlices(y), normNilSlices(outer)) {
			return hexs(b) + " rt=DIFFERENT"
		}
		// the flat struct's bytes decode into the embedding struct too
		z := back()
		if err := thrift.Unmarshal(tproto(p), want, z); err != nil || !reflect.DeepEqual(normNilSlices(z), normNilSlices(outer)) {
			return hexs(b) + " rt=ok flat-bytes-decode-differently"
		}
		return hexs(b) + " rt=ok"
	})
	orc := "err:marshal"
	if werr == nil {
		orc = hexs(want) + " rt=ok"
	}
	emit("t.embed", args, impl, orc)
}

// normNilSlices renders the value with nil and empty slices identified
func normNilSlices(x any) string {
	v := reflect.ValueOf(x).Elem()
	return fmt.Sprintf("%+v", flattenForCompare(v))
}

func flattenForCompare(v reflect.Value) []string {
	var out []string
	for i := 0; i < v.NumField(); i++ {
		f := v.Field(i)
		switch f.Kind() {
		case reflect.Struct:
			out = append(out, flattenForCompare(f)...)
		case reflect.Slice:
			out = append(out, fmt.Sprintf("%s=%v/%d", v.Type().Field(i).Name, f.Interface(), f.Len()))
		default:
			out = append(out, fmt.Sprintf("%s=%v", v.Type().Field(i).Name, f.Interface()))
		}
	}
	return out
}

func c04Embedded() {
	n := 40
	if *tier == "thorough" {
		n = 400
	}
	for i := 0; i < n; i++ {
		seed := rnd()
		for kind := 0; kind < 3; kind++ {
			for _, p := range tprotos {
				tEmbed(kind, seed, p)
			}
		}
	}
}

// long lists: the decoders allocate at most maxPreallocatedElems (1024) elements up front and grow while decoding
func c04LongLists() {
	t := ttyFromSx(parseSx("(struct (f 1 0 (list i64)) (f 2 0 (list str)) (f 3 0 i32))"))
	sizes := []int{1023, 1024, 1025, 2048, 2049, 5000}
	if *tier != "thorough" {
		sizes = []int{1024, 1025, 2049}
	}
	for _, n := range sizes {
		l1 := &tval{k: tList}
		l2 := &tval{k: tList}
		for i := 0; i < n; i++ {
			l1.elems = append(l1.elems, &tval{k: tI64, i: int64(i+1) * 7919})
			if i < n/3+2 {
				l2.elems = append(l2.elems, &tval{k: tStr, s: []byte(fmt.Sprintf("s%d", i))})
			}
		}
		v := &tval{k: tStruct, elems: []*tval{l1, l2, {k: tI32, i: int64(n)}}}
		for _, p := range tprotos {
			tRoundTrip(t, v, p)
		}
	}
}
