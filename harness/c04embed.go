//go:build verif

package main

import (
	"bytes"
	"flag"
	"fmt"
	"os"
	"os/exec"
	"reflect"
	"strconv"
	"strings"

	"github.com/segmentio/encoding/thrift"
)

// Embedded structs (anonymous fields) are flattened by the thrift package: the promoted fields of an embedded struct
// type, exported or not, are fields of the enclosing struct. reflect.StructOf cannot build unexported embedded types,
// so these shapes are declared here; the oracle is the encoding of the equivalent flat struct.
type tEmbHeader struct {
	ID      int64  `thrift:"1"`
	Version int32  `thrift:"2,required"`
	Origin  string `thrift:"3"`
}
type TEmbHeaderX struct {
	ID      int64  `thrift:"1"`
	Version int32  `thrift:"2,required"`
	Origin  string `thrift:"3"`
}
type tEmbTail struct {
	Flag bool    `thrift:"7"`
	List []int16 `thrift:"9"`
}
type tEmbOuterA struct {
	tEmbHeader
	Name  string  `thrift:"4"`
	Score float64 `thrift:"5"`
}
type tEmbOuterB struct {
	TEmbHeaderX
	Name  string  `thrift:"4"`
	Score float64 `thrift:"5"`
}
type tEmbOuterC struct {
	Name string `thrift:"4"`
	tEmbHeader
	Score float64 `thrift:"5"`
	tEmbTail
}

// deeper embedding: the promoted fields sit two and three anonymous levels below the outer struct
type tEmbMid1 struct{ TEmbHeaderX }
type TEmbMid2 struct{ tEmbMid1 }
type tEmbMid3 struct{ *TEmbMid2 }
type tEmbOuterD struct {
	TEmbMid2
	Name  string  `thrift:"4"`
	Score float64 `thrift:"5"`
}
type tEmbOuterE struct {
	Name string `thrift:"4"`
	tEmbMid3
	Score float64 `thrift:"5"`
}
type tEmbFlat struct {
	ID      int64   `thrift:"1"`
	Version int32   `thrift:"2,required"`
	Origin  string  `thrift:"3"`
	Name    string  `thrift:"4"`
	Score   float64 `thrift:"5"`
	Flag    bool    `thrift:"7"`
	List    []int16 `thrift:"9"`
}

func tEmbed(kind int, seed uint64, p string) {
	if !mine() {
		skip()
		return
	}
	args := fmt.Sprintf("%d %d %s", kind, seed, p)
	trace("t.embed", args)
	r := &vrng{s: seed}
	flat := tEmbFlat{ID: int64(r.next()) >> uint(r.n(64)), Version: int32(r.next()), Origin: r.str(), Name: r.str(), Score: float64(int64(r.next())>>40) / 8}
	h := tEmbHeader{flat.ID, flat.Version, flat.Origin}
	var outer any
	var back func() any
	switch kind {
	case 0:
		outer = &tEmbOuterA{h, flat.Name, flat.Score}
		back = func() any { return &tEmbOuterA{} }
	case 1:
		outer = &tEmbOuterB{TEmbHeaderX(h), flat.Name, flat.Score}
		back = func() any { return &tEmbOuterB{} }
	case 3:
		outer = &tEmbOuterD{TEmbMid2{tEmbMid1{TEmbHeaderX(h)}}, flat.Name, flat.Score}
		back = func() any { return &tEmbOuterD{} }
	case 4:
		outer = &tEmbOuterE{flat.Name, tEmbMid3{&TEmbMid2{tEmbMid1{TEmbHeaderX(h)}}}, flat.Score}
		back = func() any { return &tEmbOuterE{} }
	default:
		flat.Flag = r.n(2) == 0
		for i := r.n(4); i > 0; i-- {
			flat.List = append(flat.List, int16(r.next()))
		}
		outer = &tEmbOuterC{flat.Name, h, flat.Score, tEmbTail{flat.Flag, flat.List}}
		back = func() any { return &tEmbOuterC{} }
	}
	want, werr := thrift.Marshal(tproto(p), &flat)
	impl := guarded(func() string {
		b, err := thrift.Marshal(tproto(p), outer)
		if err != nil {
			return "err:marshal"
		}
		y := back()
		if err := thrift.Unmarshal(tproto(p), b, y); err != nil {
			return hexs(b) + " rt=err"
		}
		if !reflect.DeepEqual(normNilSlices(y), normNilSlices(outer)) {
			return hexs(b) + " rt=DIFFERENT"
		}
		// the flat struct's bytes decode into the embedding struct too
		z := back()
		if err := thrift.Unmarshal(tproto(p), want, z); err != nil || !reflect.DeepEqual(normNilSlices(z), normNilSlices(outer)) {
			return hexs(b) + " rt=ok flat-bytes-decode-differently"
		}
		return hexs(b) + " rt=ok"
	})
	orc := "err:marshal"
	if werr == nil {
		orc = hexs(want) + " rt=ok"
	}
	emit("t.embed", args, impl, orc)
}

// normNilSlices renders the value with nil and empty slices identified
func normNilSlices(x any) string {
	v := reflect.ValueOf(x).Elem()
	return fmt.Sprintf("%+v", flattenForCompare(v))
}

func flattenForCompare(v reflect.Value) []string {
	var out []string
	for i := 0; i < v.NumField(); i++ {
		f := v.Field(i)
		if f.Kind() == reflect.Ptr && !f.IsNil() && f.Elem().Kind() == reflect.Struct {
			f = f.Elem()
		}
		switch f.Kind() {
		case reflect.Struct:
			out = append(out, flattenForCompare(f)...)
		case reflect.Slice:
			out = append(out, fmt.Sprintf("%s=%v/%d", v.Type().Field(i).Name, f.Interface(), f.Len()))
		default:
			out = append(out, fmt.Sprintf("%s=%v", v.Type().Field(i).Name, f.Interface()))
		}
	}
	return out
}

func c04Embedded() {
	n := 40
	if *tier == "thorough" {
		n = 400
	}
	for i := 0; i < n; i++ {
		seed := rnd()
		for kind := 0; kind < 6; kind++ {
			for _, p := range tprotos {
				tEmbed(kind, seed, p)
			}
		}
	}
}

// long lists: the decoders allocate at most maxPreallocatedElems (1024) elements up front and grow while decoding
// long strings (the readers switch to a chunked path above 4096 bytes) and enum-tagged integers of every width
func c04LongStringsAndEnums() {
	t := ttyFromSx(parseSx("(struct (f 1 0 i64) (f 2 0 str) (f 3 0 (list str)) (f 4 0 bytes) (f 5 0 i32))"))
	for _, n := range []int{4095, 4096, 4097, 5000, 70000} {
		big := bytes.Repeat([]byte("abcdefghij"), n/10+1)[:n]
		v := &tval{k: tStruct, elems: []*tval{{k: tI64, i: int64(n)}, {k: tStr, s: big}, {k: tList, elems: []*tval{{k: tStr, s: []byte("hello")}, {k: tStr, s: big}, {k: tStr, s: []byte("end")}}}, {k: tBytes, s: big[:n/2+1]}, {k: tI32, i: 7}}}
		for _, p := range tprotos {
			tRoundTrip(t, v, p)
		}
	}
	// flag 1 = enum, 4 = required; enum on other widths than i32 is outside the universe of the Coq model
	c04Enums(false)
}

// c04Enums: enum-tagged integer fields of every width (round trips under C04, encodings against the specification
// under C13)
func c04Enums(encode bool) {
	tFnSuffix = ".x"
	defer func() { tFnSuffix = "" }()
	te := ttyFromSx(parseSx("(struct (f 1 5 i64) (f 2 1 int) (f 3 5 i32) (f 4 1 i16) (f 5 1 i8) (f 6 0 i64))"))
	for _, x := range []int64{0, 1, -1, 3, 127, -128, 1000, -30000, 2147483647, -2147483648} {
		clip := func(lo, hi int64) int64 {
			if x < lo {
				return lo
			}
			if x > hi {
				return hi
			}
			return x
		}
		v := &tval{k: tStruct, elems: []*tval{{k: tI64, i: x}, {k: tInt, i: x}, {k: tI32, i: x}, {k: tI16, i: clip(-32768, 32767)}, {k: tI8, i: clip(-128, 127)}, {k: tI64, i: x * 3}}}
		for _, p := range tprotos {
			if encode {
				tEncode(te, v, p)
			} else {
				tRoundTrip(te, v, p)
			}
		}
	}
}

// c08LongTruncated: top-level strings, byte slices, lists and maps of strings longer than the 4096-byte chunk of the
// readers, cut anywhere inside the payload: unexpected EOF, never a shortened value
func c08LongTruncated() {
	for _, n := range []int{4097, 4800, 9000} {
		big := string(bytes.Repeat([]byte("abcdefghij"), n/10+1)[:n])
		vals := []any{big, []byte(big), []string{"x", big}, map[string]string{"k": big}}
		for vi, v := range vals {
			for _, p := range tprotos {
				full, err := thrift.Marshal(tproto(p), v)
				if err != nil {
					continue
				}
				for _, cut := range []int{len(full) - 1, len(full) - 2, len(full) - n/2, len(full) - n + 1, len(full) - n + 4096, len(full) - n + 4097} {
					if cut <= 0 || cut >= len(full) || !mine() {
						skip()
						continue
					}
					args := fmt.Sprintf("%d %d %s %d", n, vi, p, cut)
					impl := guarded(func() string {
						y := reflect.New(reflect.TypeOf(v))
						err := thrift.Unmarshal(tproto(p), full[:cut], y.Interface())
						if err == nil {
							return fmt.Sprintf("ACCEPTED a truncated input (%d of %d bytes)", cut, len(full))
						}
						return "err:" + tErrClass(err)
					})
					emit("t.longcut", args, impl, "err:ueof")
				}
			}
		}
	}
}

// c13Messages: message headers against the specifications. Binary, strict: the version word 0x8001 and the message
// type in one big-endian int32, the name as a string, the sequence id; binary, non-strict writer: name, type byte,
// sequence id (a reader accepts both forms whatever its own setting). Compact: protocol id 0x82, one byte holding the
// version (1) in the low five bits and the type in the high three, the sequence id as a varint of the 32-bit value,
// the name. Message types are Call=1, Reply=2, Exception=3, Oneway=4 on the wire. Writers and readers round trip.
// Recorded deviations are reproduced (msghdr: types numbered from 0, version bits absent in both protocols, compact
// type in the low bits), so that any OTHER difference is reported.
func c13Messages() {
	names := []string{"", "ping", "a-method-name-of-more-than-sixteen-bytes", string(bytes.Repeat([]byte("n"), 300))}
	uvar := func(b []byte, u uint64) []byte {
		for u >= 0x80 {
			b = append(b, byte(u)|0x80)
			u >>= 7
		}
		return append(b, byte(u))
	}
	be32 := func(b []byte, u uint32) []byte { return append(b, byte(u>>24), byte(u>>16), byte(u>>8), byte(u)) }
	header := func(p, name string, typ int, seq int32, dev bool) []byte {
		wire := typ + 1 // the specification's numbering
		if dev {
			wire = typ
		}
		var b []byte
		switch p {
		case "bs":
			v := uint32(0x80010000)
			if dev {
				v = 0x80000000
			}
			b = be32(b, v|uint32(wire&7))
			b = append(be32(b, uint32(len(name))), name...)
			b = be32(b, uint32(seq))
		case "bn":
			b = append(be32(b, uint32(len(name))), name...)
			b = append(b, byte(wire))
			b = be32(b, uint32(seq))
		default:
			if dev {
				b = append(b, 0x82, byte(wire))
				b = uvar(b, uint64(uint32(seq)))
			} else {
				b = append(b, 0x82, byte(1|wire<<5))
				b = uvar(b, uint64(uint32(seq)))
			}
			b = append(uvar(b, uint64(len(name))), name...)
		}
		return b
	}
	for _, name := range names {
		for typ := 0; typ < 4; typ++ {
			for _, seq := range []int32{0, 1, 42, 127, 128, -1, 2147483647, -2147483648} {
				for _, p := range tprotos {
					if !mine() {
						skip()
						continue
					}
					args := fmt.Sprintf("%s %d %d %s", hexs([]byte(name)), typ, seq, p)
					m := thrift.Message{Type: thrift.MessageType(typ), Name: name, SeqID: seq}
					impl := guarded(func() string {
						var buf bytes.Buffer
						if err := tproto(p).NewWriter(&buf).WriteMessage(m); err != nil {
							return "err:write"
						}
						out := hexs(buf.Bytes())
						readers := []string{p}
						if p == "bs" {
							readers = append(readers, "bn")
						} else if p == "bn" {
							readers = append(readers, "bs")
						}
						for _, rp := range readers {
							got, err := tproto(rp).NewReader(bytes.NewReader(buf.Bytes())).ReadMessage()
							switch {
							case err != nil:
								out += " " + rp + ":err"
							case got != m:
								out += fmt.Sprintf(" %s:%+v", rp, got)
							default:
								out += " " + rp + ":same"
							}
						}
						return out
					})
					tail := " " + p + ":same"
					if p == "bs" {
						tail += " bn:same"
					} else if p == "bn" {
						tail += " bs:same"
					}
					spec := hexs(header(p, name, typ, seq, false)) + tail
					orc := spec
					if impl != spec {
						devs := "msghdr"
						if impl == hexs(header(p, name, typ, seq, true))+tail {
							orc = "spec=" + spec + " known-deviations=" + devs
						}
					}
					if len(impl) > 300 {
						impl, orc = fmt.Sprintf("len=%d h=%x", len(impl), fnv(impl)), strings.Replace(orc, spec, fmt.Sprintf("len=%d h=%x", len(spec), fnv(spec)), 1)
					}
					emit("t.msg", args, impl, orc)
				}
			}
		}
	}
}

// sets spelled with a NAMED empty struct or another zero-size value type: map[K]Void and map[K][0]T are thrift sets
// exactly like map[K]struct{} for the encoder, the decoder and TypeOf alike
type tVoid struct{}
type tVoidHolder struct {
	S map[string]tVoid   `thrift:"1"`
	A map[int32][0]int64 `thrift:"2"`
	N int32              `thrift:"3"`
}
type tPlainHolder struct {
	S map[string]struct{} `thrift:"1"`
	A map[int32]struct{}  `thrift:"2"`
	N int32               `thrift:"3"`
}

// sets whose members are structs with optional fields: each member is decoded on its own (what one member sets does
// not show in the next)
type tSetMember struct {
	A int32  `thrift:"1"`
	B int64  `thrift:"2"`
	S string `thrift:"3"`
}
type tSetHolder struct {
	M map[tSetMember]struct{} `thrift:"1"`
	N int32                   `thrift:"2"`
}

func c04StructSets() {
	for _, p := range tprotos {
		if !mine() {
			skip()
			continue
		}
		impl := guarded(func() string {
			v := &tSetHolder{M: map[tSetMember]struct{}{{A: 1}: {}, {B: 2}: {}, {S: "x"}: {}, {A: 4, B: 5, S: "y"}: {}, {}: {}}, N: 9}
			b, err := thrift.Marshal(tproto(p), v)
			if err != nil {
				return "err:marshal"
			}
			var back tSetHolder
			if err := thrift.Unmarshal(tproto(p), b, &back); err != nil {
				return "rt=err " + tErrClass(err)
			}
			if !reflect.DeepEqual(back.M, v.M) || back.N != 9 {
				return fmt.Sprintf("rt=DIFFERENT %v", back.M)
			}
			return "ok"
		})
		emit("t.void", "structset "+p, impl, "ok")
	}
}

func c04Void() {
	c04StructSets()
	for k := 0; k < 3; k++ {
		for _, p := range tprotos {
			if !mine() {
				skip()
				continue
			}
			args := fmt.Sprintf("%d %s", k, p)
			impl := guarded(func() string {
				v := &tVoidHolder{N: 7}
				w := &tPlainHolder{N: 7}
				if k > 0 {
					v.S, w.S = map[string]tVoid{"a": {}}, map[string]struct{}{"a": {}}
				}
				if k > 1 {
					v.A, w.A = map[int32][0]int64{5: {}}, map[int32]struct{}{5: {}}
				}
				b, err := thrift.Marshal(tproto(p), v)
				wb, werr := thrift.Marshal(tproto(p), w)
				if err != nil || werr != nil {
					return "err:marshal"
				}
				if !bytes.Equal(b, wb) {
					return "bytes differ from the struct{} spelling: " + hexs(b) + " / " + hexs(wb)
				}
				var back tVoidHolder
				if err := thrift.Unmarshal(tproto(p), b, &back); err != nil {
					return "rt=err " + tErrClass(err)
				}
				if back.N != 7 || len(back.S) != len(v.S) || len(back.A) != len(v.A) {
					return fmt.Sprintf("rt=DIFFERENT %+v", back)
				}
				var top map[string]tVoid
				tb, _ := thrift.Marshal(tproto(p), map[string]tVoid{"x": {}, "y": {}})
				if err := thrift.Unmarshal(tproto(p), tb, &top); err != nil || len(top) != 2 {
					return fmt.Sprintf("top-level set: %v %v", top, err)
				}
				return "ok"
			})
			emit("t.void", args, impl, "ok")
		}
	}
}

// deeply nested structs the reader does not declare (an unknown field holding a struct holding a struct ...): the skip
// path recurses once per level. Run in a child process: a stack overflow is a fatal error no recover can intercept.
// The package has no depth limit (recorded finding F47): moderate depths must work, the deepest one is the finding.
func init() {
	register("tdeepchild", func() {
		n, _ := strconv.Atoi(flag.Arg(1))
		p := flag.Arg(2)
		var b []byte
		if p == "c" {
			b = append([]byte{0x2c}, bytes.Repeat([]byte{0x1c}, n)...) // field 2: struct; then field 1: struct, n times
			b = append(b, bytes.Repeat([]byte{0x00}, n+2)...)
		} else {
			b = []byte{12, 0, 2}
			b = append(b, bytes.Repeat([]byte{12, 0, 1}, n)...)
			b = append(b, bytes.Repeat([]byte{0, 0, 0}, n+2)...) // the package's three-byte stop field
		}
		var t struct {
			A int32 `thrift:"1"`
		}
		err := thrift.Unmarshal(tproto(p), b, &t)
		fmt.Println("result:" + tErrClass(err))
	})
}

func c08DeepUnknown() {
	for _, p := range []string{"c", "bs"} {
		for _, n := range []int{1000, 100000, 5000000} {
			if !mine() {
				skip()
				continue
			}
			fn := "t.deep"
			if n > 1000000 {
				fn = "t.deep.deepnest"
			}
			args := fmt.Sprintf("%d %s", n, p)
			trace(fn, args)
			cmd := exec.Command(os.Args[0], "tdeepchild", strconv.Itoa(n), p)
			var se bytes.Buffer
			cmd.Stderr = &se
			o, err := cmd.Output()
			impl := strings.TrimSpace(string(o))
			if err != nil {
				impl = "fatal " + err.Error()
				if strings.Contains(se.String(), "stack overflow") {
					impl = "fatal stack overflow"
				}
			}
			emit(fn, args, impl, "result:nil")
		}
	}
}

func c04LongLists() {
	t := ttyFromSx(parseSx("(struct (f 1 0 (list i64)) (f 2 0 (list str)) (f 3 0 i32))"))
	sizes := []int{1023, 1024, 1025, 2048, 2049, 5000}
	if *tier != "thorough" {
		sizes = []int{1024, 1025, 2049}
	}
	for _, n := range sizes {
		l1 := &tval{k: tList}
		l2 := &tval{k: tList}
		for i := 0; i < n; i++ {
			l1.elems = append(l1.elems, &tval{k: tI64, i: int64(i+1) * 7919})
			if i < n/3+2 {
				l2.elems = append(l2.elems, &tval{k: tStr, s: []byte(fmt.Sprintf("s%d", i))})
			}
		}
		v := &tval{k: tStruct, elems: []*tval{l1, l2, {k: tI32, i: int64(n)}}}
		for _, p := range tprotos {
			tRoundTrip(t, v, p)
		}
	}
}
