package main

import (
	"fmt"
	"regexp"
	"strconv"
	"strings"
	"time"

	"github.com/segmentio/encoding/iso8601"
)

func init() {
	register("c18", c18)
	replayers["parse"] = func(a []string) { c18parse(string(unhex(a[0]))) }
	replayers["valid"] = func(a []string) { f, _ := strconv.Atoi(a[1]); c18valid(string(unhex(a[0])), f) }
}

func timeObs(t time.Time, err error) string {
	if err != nil {
		return "err"
	}
	_, off := t.Zone()
	return fmt.Sprintf("ok %d %d %d", t.Unix(), t.Nanosecond(), off)
}

func c18parse(s string) {
	if !mine() {
		skip()
		return
	}
	impl := guarded(func() string { return timeObs(iso8601.Parse(s)) })
	orc := timeObs(time.Parse(time.RFC3339Nano, s))
	emit("parse", hexs([]byte(s)), impl, orc)
}

// the grammar of the property statement, as an independent regular expression per flag set
var validRe [64]*regexp.Regexp

func validOracle(s string, flags iso8601.ValidFlags) bool {
	f := int(flags) & 63
	if validRe[f] == nil {
		sep := "T"
		if flags&iso8601.AllowSpaceSeparator != 0 {
			sep = "[T ]"
		}
		frac := `\.[0-9]{1,9}`
		if flags&iso8601.AllowMissingSubsecond != 0 {
			frac = `(\.[0-9]{1,9})?`
		}
		sp := ""
		if flags&iso8601.AllowSpaceSeparator != 0 {
			sp = " ?"
		}
		colon := ":"
		if flags&iso8601.AllowNumericTimezone != 0 {
			colon = ":?"
		}
		tz := `(Z|` + sp + `[+-][0-9]{2}` + colon + `[0-9]{2})`
		if flags&iso8601.AllowMissingTimezone != 0 {
			tz += "?"
		}
		tm := sep + `[0-9]{2}:[0-9]{2}:[0-9]{2}` + frac + tz
		if flags&iso8601.AllowMissingTime != 0 {
			tm = "(" + tm + ")?"
		}
		validRe[f] = regexp.MustCompile(`^(?s:[0-9]{4}-[0-9]{2}-[0-9]{2}` + tm + `)$`)
	}
	return validRe[f].MatchString(s)
}

func c18valid(s string, flags int) {
	if !mine() {
		skip()
		return
	}
	impl := guarded(func() string { return fmt.Sprint(iso8601.Valid(s, iso8601.ValidFlags(flags))) })
	orc := validOracle(s, iso8601.ValidFlags(flags))
	emit("valid", fmt.Sprintf("%s %d", hexs([]byte(s)), flags), impl, fmt.Sprint(orc))
}

var c18bases = []string{
	"2021-03-25T21:36:12Z",
	"2021-03-25T21:36:12.5Z",
	"1999-12-31T23:59:59.123Z",
	"2000-02-29T00:00:00.123456Z",
	"9999-12-31T23:59:59.999999999Z",
	"2021-03-25T21:36:12+07:00",
	"2021-03-25T21:36:12.25-00:30",
}

func daysIn(y, m int) int {
	switch m {
	case 2:
		if y%4 == 0 && (y%100 != 0 || y%400 == 0) {
			return 29
		}
		return 28
	case 4, 6, 9, 11:
		return 30
	}
	return 31
}

func c18() {
	thorough := *tier == "thorough"
	// (1) every byte value at every position of the base timestamps
	for _, base := range c18bases {
		for pos := 0; pos < len(base); pos++ {
			for v := 0; v < 256; v++ {
				b := []byte(base)
				b[pos] = byte(v)
				c18parse(string(b))
			}
		}
		// deletions and insertions of one character
		for pos := 0; pos <= len(base); pos++ {
			if pos < len(base) {
				c18parse(base[:pos] + base[pos+1:])
			}
			for _, ins := range []string{"0", "9", ":", "-", ".", ",", "Z", "T", " ", "+"} {
				c18parse(base[:pos] + ins + base[pos:])
			}
		}
	}
	// (2) calendar dates, including every invalid day number 00..32, at one time of day
	boundary := map[int]bool{}
	for _, y := range []int{0, 1, 3, 4, 99, 100, 101, 399, 400, 401, 1599, 1600, 1699, 1700, 1899, 1900, 1901, 1969, 1970, 1971, 1972, 1999, 2000, 2001, 2004, 2038, 2099, 2100, 2101, 2399, 2400, 4000, 7999, 8000, 9599, 9600, 9900, 9996, 9998, 9999} {
		boundary[y] = true
	}
	n := 0
	for y := 0; y <= 9999; y++ {
		for m := 0; m <= 13; m++ {
			for d := 0; d <= 32; d++ {
				n++
				valid := m >= 1 && m <= 12 && d >= 1 && d <= daysIn(y, m)
				take := thorough || boundary[y] || (valid && n%97 == 0) || (!valid && n%389 == 0) || (m == 2 && d >= 28 && d <= 30 && y%4 == 0 && y%25 == 0)
				if !take {
					continue
				}
				c18parse(fmt.Sprintf("%04d-%02d-%02dT12:34:56Z", y, m, d))
				if n%5 == 0 {
					c18parse(fmt.Sprintf("%04d-%02d-%02dT23:59:59.999999999Z", y, m, d))
				}
			}
		}
	}
	// (3) every second of a day (and the out-of-range values just beyond)
	for h := 0; h <= 25; h++ {
		for mi := 0; mi <= 61; mi++ {
			for s := 0; s <= 61; s++ {
				if !thorough && !(h < 2 || h > 22 || mi < 2 || mi > 58 || s < 2 || s > 58 || (h*3721+mi*61+s)%13 == 0) {
					continue
				}
				c18parse(fmt.Sprintf("2021-03-25T%02d:%02d:%02dZ", h, mi, s))
			}
		}
	}
	// (4) fractions: every length 0..12, '.' and ',', all-9 / leading zeros / random digits
	for l := 0; l <= 12; l++ {
		for _, sep := range []string{".", ","} {
			for k := 0; k < 8; k++ {
				var ds strings.Builder
				for i := 0; i < l; i++ {
					switch k {
					case 0:
						ds.WriteByte('9')
					case 1:
						ds.WriteByte('0')
					case 2:
						if i == l-1 {
							ds.WriteByte('1')
						} else {
							ds.WriteByte('0')
						}
					default:
						ds.WriteByte(byte('0' + rndn(10)))
					}
				}
				for _, tz := range []string{"Z", "+01:00", "-23:59", "z", ""} {
					c18parse("2021-03-25T21:36:12" + sep + ds.String() + tz)
					c18parse("2021-03-25T1:36:12" + sep + ds.String() + tz)
				}
			}
		}
	}
	// (5) zone offsets
	for h := 0; h <= 25; h++ {
		for _, mi := range []int{0, 1, 30, 59, 60, 61, 99} {
			for _, sg := range []string{"+", "-", " ", "Z"} {
				c18parse(fmt.Sprintf("2021-03-25T21:36:12%s%02d:%02d", sg, h, mi))
				c18parse(fmt.Sprintf("2021-03-25T21:36:12.123%s%02d%02d", sg, h, mi))
			}
		}
	}
	// (6) random structured timestamps with random single/double corruption
	nr := 20000
	if thorough {
		nr = 400000
	}
	alphabet := []byte("0123456789-:.,TZ+ /;<>?UVW\\]tz\x00\x7f\x80\xff")
	for i := 0; i < nr; i++ {
		y, m := rndn(10000), 1+rndn(12)
		d := 1 + rndn(daysIn(y, m)+1)
		s := fmt.Sprintf("%04d-%02d-%02dT%02d:%02d:%02d", y, m, d, rndn(25), rndn(61), rndn(61))
		if rndn(3) > 0 {
			l := 1 + rndn(10)
			s += "."
			for j := 0; j < l; j++ {
				s += string(rune('0' + rndn(10)))
			}
		}
		switch rndn(4) {
		case 0:
			s += fmt.Sprintf("%c%02d:%02d", "+-"[rndn(2)], rndn(25), rndn(61))
		default:
			s += "Z"
		}
		b := []byte(s)
		for k := rndn(3); k > 0; k-- {
			b[rndn(len(b))] = pick(alphabet)
		}
		c18parse(string(b))
	}
	// (7) Valid: all 64 flag words (32 subsets of the five flags, with and without the unused bit 0)
	// x structured strings with each part present / absent / malformed
	dates := []string{"2021-03-25", "0000-00-00", "2021-3-25", "20210-03-25", "2021/03/25", "2021-03-2", "", "2021-03-251", "202a-03-25"}
	seps := []string{"T", " ", "t", "", "_"}
	times := []string{"21:36:12", "21:36:1", "21-36-12", "2:36:12", "21:36:123", ""}
	fracs := []string{"", ".1", ".123456789", ".1234567890", ".", ",5", ".a"}
	zones := []string{"", "Z", "z", "+07:00", "-0700", " +07:00", " -0700", "+7:00", "+07:0", "+07:000", "Z0", " Z", "  +07:00", "+07;00", "07:00"}
	cnt := 0
	for _, d := range dates {
		for _, sp := range seps {
			for _, tm := range times {
				for _, fr := range fracs {
					for _, z := range zones {
						cnt++
						s := d + sp + tm + fr + z
						if thorough || d == dates[0] || cnt%7 == 0 {
							if thorough || (d == dates[0] && tm == times[0]) {
								for f := 0; f < 64; f++ {
									c18valid(s, f)
								}
							} else {
								c18valid(s, rndn(64))
								c18valid(s, 62)
							}
						}
					}
				}
			}
		}
	}
	for _, base := range []string{"2021-03-25T21:36:12.123456Z", "2021-03-25 21:36:12 +0700", "2021-03-25"} {
		for pos := 0; pos < len(base); pos++ {
			for v := 0; v < 256; v++ {
				b := []byte(base)
				b[pos] = byte(v)
				c18valid(string(b), 62)
				if v%16 == 0 {
					c18valid(string(b), rndn(64))
				}
			}
		}
	}
}
