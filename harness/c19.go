//go:build verif && c19

package main

// C19: proto rewriters (proto/rewrite.go) replace exactly the templated fields.
//
// Two kinds of cases:
//
//	rw.run[.class]  <rewriter sx>|<out prefix hex>|<input hex>
//	    the Rewriter actually built by the library (ParseRewriteTemplate, MessageRewriter literals,
//	    MultiRewriter, BitOrRewriter), rendered by reflection, applied to the input; observable
//	    "ok <hex of returned slice>" / "err <class>" / "panic". The extracted Coq model runs the same
//	    rewriter on the same bytes (corr). The oracle column carries the structural checks made with an
//	    independent wire parser: output parses, untouched fields carried over in order (byte-for-byte
//	    for canonical input), prefix/input/rewriter not modified, second application gives the same.
//	rw.val[.class]  <type sx>|<template json hex>|<rules>|<input hex>
//	    value level: Unmarshal(rewrite(in)) compared with Unmarshal(in) in which the templated fields
//	    are replaced (or or-ed) according to the template.
//
// The class suffix names a feature of the INPUT (not of the outcome) so that a recorded finding can
// be matched narrowly: see c19Classes.

import (
	"bytes"
	"encoding/binary"
	"encoding/hex"
	stdjson "encoding/json"
	"errors"
	"fmt"
	"io"
	"math"
	"reflect"
	"sort"
	"strconv"
	"strings"
	"unsafe"

	"github.com/segmentio/encoding/proto"
)

func init() {
	register("c19", runC19)
	replayers["rw.run"] = func(a []string) { replayRun("rw.run", a) }
	replayers["rw.val"] = func(a []string) { replayVal("rw.val", a) }
	for _, c := range c19Classes {
		c := c
		replayers["rw.run."+c] = func(a []string) { replayRun("rw.run."+c, a) }
		replayers["rw.val."+c] = func(a []string) { replayVal("rw.val."+c, a) }
	}
}

// input features that select a recorded deviation of the library (one per case stream)
var c19Classes = []string{
	"split",   // a templated sub-message field occurs more than once in the input
	"dup",     // a field under a BitOr rule occurs more than once in the input
	"repz",    // zero element inside the template of a repeated scalar field
	"repmsg",  // partial template for the elements of a repeated message field / message-valued map
	"mapzero", // map template entry with empty key and zero value
	"tmix",    // BitOr[T] with T different from the field's Go type (no value oracle)
	"mal",     // malformed input or irregular rewriter (no property oracle, correspondence only)
}

// ---------------------------------------------------------------------------------------------
// independent wire-format reader

type wfield struct {
	num uint64
	wt  int
	val []byte // raw value (payload for wire type 2, varint bytes for 0)
	raw []byte // the whole field as it stands in the message
}

func wireParse(b []byte) ([]wfield, bool) {
	var fs []wfield
	for len(b) > 0 {
		tag, n := binary.Uvarint(b)
		if n <= 0 {
			return nil, false
		}
		f := wfield{num: tag >> 3, wt: int(tag & 7)}
		rest := b[n:]
		var vl int
		switch f.wt {
		case 0:
			_, k := binary.Uvarint(rest)
			if k <= 0 {
				return nil, false
			}
			f.val, vl = rest[:k], k
		case 1:
			if len(rest) < 8 {
				return nil, false
			}
			f.val, vl = rest[:8], 8
		case 5:
			if len(rest) < 4 {
				return nil, false
			}
			f.val, vl = rest[:4], 4
		case 2:
			l, k := binary.Uvarint(rest)
			if k <= 0 || l > uint64(len(rest)-k) {
				return nil, false
			}
			f.val, vl = rest[k:k+int(l)], k+int(l)
		default:
			return nil, false
		}
		f.raw = b[:n+vl]
		fs = append(fs, f)
		b = b[n+vl:]
	}
	return fs, true
}

func uvarintLen(x uint64) int {
	n := 1
	for x >= 0x80 {
		x >>= 7
		n++
	}
	return n
}

// canonicalWire: every tag and length is minimally encoded
func canonicalWire(fs []wfield) bool {
	for _, f := range fs {
		want := uvarintLen(f.num<<3|uint64(f.wt)) + len(f.val)
		if f.wt == 2 {
			want += uvarintLen(uint64(len(f.val)))
		}
		if want != len(f.raw) {
			return false
		}
	}
	return true
}

func putUvarint(b []byte, x uint64, extra int) []byte {
	// extra > 0: over-long encoding with that many additional continuation bytes (at most 10 bytes in all)
	if uvarintLen(x)+extra > 10 {
		extra = 0
	}
	for x >= 0x80 || extra > 0 {
		if x < 0x80 {
			extra--
		}
		b = append(b, byte(x)|0x80)
		x >>= 7
	}
	return append(b, byte(x))
}

func putField(b []byte, num uint64, wt int, val []byte, overlong int) []byte {
	if uvarintLen(num<<3|uint64(wt))+overlong > 10 {
		overlong = 0
	}
	b = putUvarint(b, num<<3|uint64(wt), overlong)
	if wt == 2 {
		b = putUvarint(b, uint64(len(val)), overlong)
	}
	return append(b, val...)
}

// ---------------------------------------------------------------------------------------------
// the library's rewriters seen through reflection

func unexported(v reflect.Value, i int) reflect.Value {
	f := v.Field(i)
	return reflect.NewAt(f.Type(), unsafe.Pointer(f.UnsafeAddr())).Elem()
}

var goKindNames = map[reflect.Kind]string{reflect.Int: "int", reflect.Int32: "i32", reflect.Int64: "i64", reflect.Uint: "uint", reflect.Uint32: "u32", reflect.Uint64: "u64"}
var pbKindNames = map[proto.Kind]string{proto.Int32: "int32", proto.Int64: "int64", proto.Sint32: "sint32", proto.Sint64: "sint64", proto.Uint32: "uint32", proto.Uint64: "uint64",
	proto.Fix32: "fix32", proto.Fix64: "fix64", proto.Sfix32: "sfix32", proto.Sfix64: "sfix64"}

func rwSx(rw proto.Rewriter) string {
	switch x := rw.(type) {
	case nil:
		return "nil"
	case proto.MessageRewriter:
		return "(msg " + strconv.Itoa(len(x)) + entriesSx(x) + ")"
	case proto.RawMessage:
		return "(raw " + hexs(x) + ")"
	}
	rv := reflect.ValueOf(rw)
	name := rv.Type().String()
	switch {
	case name == "*proto.multiRewriter":
		rs := unexported(rv.Elem(), 0).Interface().([]proto.Rewriter)
		var sb strings.Builder
		sb.WriteString("(multi")
		for _, r := range rs {
			sb.WriteString(" " + rwSx(r))
		}
		sb.WriteString(")")
		return sb.String()
	case name == "*proto.embddedRewriter":
		num := unexported(rv.Elem(), 0).Uint()
		msg := unexported(rv.Elem(), 1).Interface().(proto.MessageRewriter)
		return fmt.Sprintf("(emb %d %d%s)", num, len(msg), entriesSx(msg))
	case strings.HasPrefix(name, "proto.bitOrRW["):
		c := reflect.New(rv.Type()).Elem()
		c.Set(rv)
		mask := unexported(c, 0)
		t := unexported(c, 1).Interface().(proto.Type)
		f := unexported(c, 2).Uint()
		var ms string
		switch mask.Kind() {
		case reflect.Int, reflect.Int32, reflect.Int64:
			ms = strconv.FormatInt(mask.Int(), 10)
		default:
			ms = strconv.FormatUint(mask.Uint(), 10)
		}
		return fmt.Sprintf("(bitor %s %s %s %d)", goKindNames[mask.Kind()], pbKindNames[t.Kind()], ms, f)
	}
	return "(unknown " + name + ")"
}

func entriesSx(m proto.MessageRewriter) string {
	var sb strings.Builder
	for i, r := range m {
		if r != nil {
			sb.WriteString(" (" + strconv.Itoa(i) + " " + rwSx(r) + ")")
		}
	}
	return sb.String()
}

// building rewriters from the text form (replay, and hand-assembled embedded rewriters)
var embType reflect.Type

func init() {
	type sub struct{ A int }
	type top struct{ S sub }
	rw, err := proto.ParseRewriteTemplate(proto.TypeOf(reflect.TypeOf(top{})), []byte(`{"S":{}}`))
	if err != nil {
		panic(err)
	}
	embType = reflect.TypeOf(rw.(proto.MessageRewriter)[1])
}

func mkEmbedded(number uint64, msg proto.MessageRewriter) proto.Rewriter {
	p := reflect.New(embType.Elem())
	unexported(p.Elem(), 0).SetUint(number)
	unexported(p.Elem(), 1).Set(reflect.ValueOf(msg))
	return p.Interface().(proto.Rewriter)
}

func pbType(kind string) proto.Type {
	i32 := proto.TypeOf(reflect.TypeOf(int32(0)))
	i64 := proto.TypeOf(reflect.TypeOf(int64(0)))
	switch kind {
	case "int32":
		return i32
	case "int64":
		return i64
	case "sint32":
		return i32.ZigZag()
	case "sint64":
		return i64.ZigZag()
	case "uint32":
		return proto.TypeOf(reflect.TypeOf(uint32(0)))
	case "uint64":
		return proto.TypeOf(reflect.TypeOf(uint64(0)))
	case "fix32", "sfix32", "fix64", "sfix64":
		type fx struct {
			A uint32 `protobuf:"fixed32,1,opt,name=a"`
			B uint64 `protobuf:"fixed64,2,opt,name=b"`
		}
		t := proto.TypeOf(reflect.TypeOf(fx{}))
		switch kind {
		case "fix32":
			return t.Field(0).Type
		case "sfix32":
			return t.Field(0).Type.ZigZag()
		case "fix64":
			return t.Field(1).Type
		}
		return t.Field(1).Type.ZigZag()
	}
	panic("pbType " + kind)
}

func mkBitOr(gk, kind string, mask string, f uint64) proto.Rewriter {
	t := pbType(kind)
	fn := proto.FieldNumber(f)
	var rw proto.Rewriter
	var err error
	si, _ := strconv.ParseInt(mask, 10, 64)
	ui, _ := strconv.ParseUint(mask, 10, 64)
	switch gk {
	case "int":
		rw, err = proto.BitOrRewriter(t, fn, int(si))
	case "i32":
		rw, err = proto.BitOrRewriter(t, fn, int32(si))
	case "i64":
		rw, err = proto.BitOrRewriter(t, fn, int64(si))
	case "uint":
		rw, err = proto.BitOrRewriter(t, fn, uint(ui))
	case "u32":
		rw, err = proto.BitOrRewriter(t, fn, uint32(ui))
	case "u64":
		rw, err = proto.BitOrRewriter(t, fn, uint64(ui))
	}
	if err != nil || rw == nil {
		panic(fmt.Sprint("mkBitOr ", gk, kind, err))
	}
	return rw
}

func rwFromSx(x *sx) proto.Rewriter {
	entries := func(n int, es []*sx) proto.MessageRewriter {
		m := make(proto.MessageRewriter, n)
		for _, e := range es {
			i, _ := strconv.Atoi(e.list[0].atom)
			m[i] = rwFromSx(e.list[1])
		}
		return m
	}
	switch x.list[0].atom {
	case "raw":
		return proto.RawMessage(unhex(x.list[1].atom))
	case "multi":
		var rs []proto.Rewriter
		for _, e := range x.list[1:] {
			rs = append(rs, rwFromSx(e))
		}
		if len(rs) == 1 {
			// MultiRewriter would unwrap a single rewriter: build the wrapper the same way the library does for 0 or >= 2
			return mkMulti(rs)
		}
		return proto.MultiRewriter(rs...)
	case "msg":
		n, _ := strconv.Atoi(x.list[1].atom)
		return entries(n, x.list[2:])
	case "emb":
		f, _ := strconv.ParseUint(x.list[1].atom, 10, 64)
		n, _ := strconv.Atoi(x.list[2].atom)
		return mkEmbedded(f, entries(n, x.list[3:]))
	case "bitor":
		f, _ := strconv.ParseUint(x.list[4].atom, 10, 64)
		return mkBitOr(x.list[1].atom, x.list[2].atom, x.list[3].atom, f)
	}
	panic("bad rewriter sx")
}

func mkMulti(rs []proto.Rewriter) proto.Rewriter {
	m := proto.MultiRewriter() // *multiRewriter with no element
	rv := reflect.ValueOf(m).Elem()
	unexported(rv, 0).Set(reflect.ValueOf(append([]proto.Rewriter(nil), rs...)))
	return m
}

func rwErrClass(err error) string {
	msg := err.Error()
	switch {
	case errors.Is(err, io.ErrUnexpectedEOF):
		return "eof"
	case strings.Contains(msg, "varint overflowed"):
		return "varint-overflow"
	case strings.Contains(msg, "invalid wire type"):
		return "wiretype"
	case strings.Contains(msg, "integer overflow"):
		return "int-overflow"
	case strings.Contains(msg, "read="):
		return "trailing"
	}
	return "other"
}

// apply runs rw.Rewrite(prefix, in) on private copies with sentinel-filled spare capacity.
func applyRw(rw proto.Rewriter, prefix, in []byte, spare int) (obs string, out []byte) {
	inbuf := make([]byte, len(in), len(in)+8)
	copy(inbuf, in)
	for i := len(in); i < cap(inbuf); i++ {
		inbuf[:cap(inbuf)][i] = 0xA5
	}
	outbuf := make([]byte, len(prefix), len(prefix)+spare)
	copy(outbuf, prefix)
	var inArg []byte
	if in != nil {
		inArg = inbuf
	}
	func() {
		defer func() {
			if r := recover(); r != nil {
				obs = "panic"
			}
		}()
		if len(prefix) == 0 && spare == 0 {
			outbuf = nil // the usual call: Rewrite(nil, in)
		}
		res, err := rw.Rewrite(outbuf, inArg)
		if err != nil {
			obs = "err " + rwErrClass(err)
			return
		}
		out = res
		obs = "ok " + hexs(res)
		// a rewriter is reusable and its results are independent: the same call again gives the same bytes, and
		// neither that call nor appending to the first result changes the other (no result aliases the template)
		res2, err2 := rw.Rewrite(nil, inArg)
		if len(prefix) == 0 {
			if err2 != nil || !bytes.Equal(res2, res) {
				obs += " SECOND-CALL-DIFFERS"
			}
		}
		if err2 == nil && len(res2) > 0 {
			want := append([]byte(nil), res...)
			for i := range res2 {
				res2[i] ^= 0xFF
			}
			_ = append(res2, 0xEE, 0xEE, 0xEE, 0xEE)
			if !bytes.Equal(res, want) {
				obs += " RESULTS-SHARE-MEMORY"
			}
			res3, err3 := rw.Rewrite(nil, inArg)
			if len(prefix) == 0 && (err3 != nil || !bytes.Equal(res3, want)) {
				obs += " TEMPLATE-MODIFIED-THROUGH-A-RESULT"
			}
		}
	}()
	if !bytes.Equal(inbuf, in) {
		obs += " INPUT-MODIFIED"
	}
	for i := len(in); i < cap(inbuf); i++ {
		if inbuf[:cap(inbuf)][i] != 0xA5 {
			obs += " INPUT-CAPACITY-WRITTEN"
			break
		}
	}
	return
}

// templated numbers of the top-level rewriter (nil: not a message rewriter)
func topNumbers(rw proto.Rewriter) map[uint64]bool {
	m, ok := rw.(proto.MessageRewriter)
	if !ok {
		return nil
	}
	s := map[uint64]bool{}
	for i, r := range m {
		if r != nil {
			s[uint64(i)] = true
		}
	}
	return s
}

// rwRun emits one rw.run case. wellFormed: the generator knows that the input is a valid message at
// every level the rewriter descends into and that the rewriter is regular (every slot produces fields
// of its own number): the property then demands success and the structural checks.
func rwRun(fn string, rw proto.Rewriter, prefix, in []byte, wellFormed bool) {
	if !mine() {
		skip()
		return
	}
	before := rwSx(rw)
	args := before + "|" + hexs(prefix) + "|" + hexs(in)
	trace(fn, args)
	impl, out := applyRw(rw, prefix, in, []int{0, 0, 1, 7, 64, 1024}[(len(in)+len(prefix))%6])
	orc := "-"
	fail := func(s string) {
		if orc == "-" || orc == impl {
			orc = "FAIL:" + s
		}
	}
	if strings.Contains(impl, "INPUT-") {
		fail("input modified")
	}
	if after := rwSx(rw); after != before {
		fail("rewriter modified")
	}
	if strings.HasPrefix(impl, "ok") {
		impl2, _ := applyRw(rw, prefix, in, 0)
		if impl2 != impl {
			fail("second application differs: " + impl2)
		}
		if !bytes.HasPrefix(out, prefix) {
			fail("prefix not preserved")
		}
	}
	if wellFormed {
		if orc == "-" {
			orc = impl
		}
		if !strings.HasPrefix(impl, "ok") {
			fail("must succeed")
		} else if bytes.HasPrefix(out, prefix) {
			body := out[len(prefix):]
			ofs, ok := wireParse(body)
			ifs, iok := wireParse(in)
			nums := topNumbers(rw)
			switch {
			case !iok:
				fail("generator: input does not parse")
			case !ok:
				fail("output does not parse")
			case nums != nil:
				keep := func(fs []wfield) (trip []string, raw []byte) {
					for _, f := range fs {
						if !nums[f.num] {
							trip = append(trip, fmt.Sprintf("%d/%d/%x", f.num, f.wt, f.val))
							raw = append(raw, f.raw...)
						}
					}
					return
				}
				it, iraw := keep(ifs)
				ot, oraw := keep(ofs)
				if strings.Join(it, " ") != strings.Join(ot, " ") {
					fail("untouched fields not carried over in order")
				} else if canonicalWire(ifs) && !bytes.Equal(iraw, oraw) {
					fail("untouched fields of a canonical input not byte-identical")
				}
			}
		}
	}
	emit(fn, args, impl, orc)
}

func replayRun(fn string, a []string) {
	f := strings.Split(strings.Join(a, " "), "|")
	rw := rwFromSx(parseSx(f[0]))
	wf := !strings.HasSuffix(fn, ".mal")
	var in []byte
	if f[2] != "-" {
		in = unhex(f[2])
	}
	rwRun(fn, rw, unhex(f[1]), in, wf)
}

// ---------------------------------------------------------------------------------------------
// type universe for the value-level cases: struct types whose every field is tagged with a distinct
// name and number (or none is), built with reflect.StructOf

type fdesc struct {
	name     string
	number   int
	base     *pty // pointers removed, slice element for repeated fields
	repeated bool
	isMap    bool
	zigzag   bool
	fixed    bool // uint32/uint64 carried as fixed32/fixed64
}

func describe(t *pty) []fdesc {
	var ds []fdesc
	for i, f := range t.fields {
		d := fdesc{name: fmt.Sprintf("F%d", i), number: i + 1}
		if f.tag != nil {
			d.name = fmt.Sprintf("f%d", f.tag.number)
			d.number = f.tag.number
			d.zigzag = f.tag.zigzag
		}
		b := f.t
		if b.k == kSlice {
			d.repeated = true
			b = b.elem
		}
		for b.k == kPtr {
			b = b.elem
		}
		d.isMap = b.k == kMap
		d.base = b
		if f.tag != nil && (f.tag.wire == 5 && b.k == kUint32 || f.tag.wire == 1 && b.k == kUint64) {
			d.fixed = true
		}
		ds = append(ds, d)
	}
	return ds
}

// bind builds the Go type of a struct descriptor with field names in the protobuf tags
func bind(t *pty) reflect.Type {
	switch t.k {
	case kPtr, kSlice:
		bind(t.elem)
	case kMap:
		bind(t.key)
		bind(t.elem)
	case kStruct:
		if t.rt != nil {
			return t.rt
		}
		var fs []reflect.StructField
		for i, f := range t.fields {
			bind(f.t)
			sf := reflect.StructField{Name: fmt.Sprintf("F%d", i), Type: f.t.goType()}
			if f.tag != nil {
				s := strings.Replace(f.tag.tagString(), "name=x", fmt.Sprintf("name=f%d", f.tag.number), 1)
				sf.Tag = reflect.StructTag(`protobuf:"` + s + `"`)
			}
			fs = append(fs, sf)
		}
		t.rt = reflect.StructOf(fs)
	}
	return t.goType()
}

type c19tgen struct {
	big    bool // numbers >= 256
	fixed  bool // uint32/uint64 as fixed32/fixed64
	zigzag bool
}

var c19Scalars = []pkind{kBool, kInt, kInt32, kInt64, kUint, kUint32, kUint64, kFloat32, kFloat64, kString, kBytes}

func (g *c19tgen) structType(depth int) *pty {
	nf := 1 + rndn(6)
	tagged := rndn(10) < 7
	t := &pty{k: kStruct}
	used := map[int]bool{}
	for i := 0; i < nf; i++ {
		var ft *pty
		r := rndn(100)
		switch {
		case r < 50:
			ft = &pty{k: pick(c19Scalars)}
		case r < 65 && depth < 2:
			ft = g.structType(depth + 1)
			if rndBool() {
				ft = &pty{k: kPtr, elem: ft}
			}
		case r < 78:
			ft = &pty{k: kSlice, elem: &pty{k: pick([]pkind{kBool, kInt32, kInt64, kUint32, kUint64, kFloat64, kString, kInt})}}
		case r < 86 && depth < 2:
			ft = &pty{k: kSlice, elem: g.structType(depth + 1)}
		case r < 95:
			var e *pty
			if rndn(3) == 0 && depth < 2 {
				e = g.structType(depth + 1)
			} else {
				e = &pty{k: pick([]pkind{kBool, kInt32, kInt64, kUint32, kUint64, kFloat32, kFloat64, kString, kBytes})}
			}
			ft = &pty{k: kMap, key: &pty{k: kString}, elem: e}
		default:
			ft = &pty{k: pick(c19Scalars)}
		}
		f := pfield{t: ft}
		if tagged {
			tg := &ptag{number: 1 + rndn(15)}
			switch rndn(6) {
			case 0, 1:
				tg.number = 16 + rndn(240)
			case 2:
				if g.big {
					tg.number = pick([]int{256, 257, 300, 319, 320, 511, 512, 1000, 2047, 2048, 4095, 16383, 16384, 40000, 65535})
				}
			}
			if g.big && i == 0 {
				tg.number = pick([]int{256, 257, 300, 319, 383, 384, 1000, 2048, 16384, 65535})
			}
			for used[tg.number] {
				tg.number++
			}
			// the struct codec keeps field numbers in 16 bits (recorded under C03): stay below
			for tg.number > 65535 || used[tg.number] {
				tg.number = 60000 + rndn(5000)
			}
			used[tg.number] = true
			base := ft
			rep := false
			if base.k == kSlice {
				rep = true
				base = base.elem
			}
			for base.k == kPtr {
				base = base.elem
			}
			tg.repeated = rep
			if base.k == kMap && rndBool() {
				tg.repeated = true // protoc-gen-go declares map fields `rep` (repeated entries on the wire); still a map field
			}
			switch base.k {
			case kFloat32:
				tg.wire = 5
			case kFloat64:
				tg.wire = 1
			case kUint32:
				if g.fixed && !rep {
					tg.wire = 5
				}
			case kUint64:
				if g.fixed && !rep {
					tg.wire = 1
				}
			case kInt, kInt32, kInt64:
				if g.zigzag && !rep && rndBool() {
					tg.zigzag = true
					tg.zz32 = base.k == kInt32
				}
			case kString, kBytes, kStruct, kMap:
				tg.wire = 2
			}
			f.tag = tg
		}
		t.fields = append(t.fields, f)
	}
	return t
}

// ---------------------------------------------------------------------------------------------
// templates

type tnode struct {
	null   bool
	val    *pval // scalar / string / bytes
	str    string
	order  []int // struct: field indexes mentioned, with sub
	sub    []*tnode
	elems  []*tnode // repeated
	keys   []string // map
	vals   []*tnode
	bitor  string // Go type name of the BitOr rule (i32, u64, ...) or ""
	f32txt string
}

type tplOpts struct {
	bitor    bool
	bitorMix bool
	repZero  bool
	partial  bool // partial element templates for repeated messages / message-valued maps
	mapZero  bool
	outRange bool
	must     func(d fdesc) bool // fields that must be mentioned
	avoid    func(d fdesc) bool // fields that must not be mentioned
}

var niceF64 = []float64{1, -1, 0.5, 0.25, 3.14, -2.5e-3, 1e300, 123456789.125, -7}
var niceF32 = []float32{1, -1, 0.5, 0.25, 3.5, -2.5e-3, 1e30, 1234.5, -7}
var niceStr = []string{"a", "hello", "Hello World!", "x y", "q\"uote", "line\nfeed", "été", "0", "{}", strings.Repeat("z", 130)}

func goKindOf(k pkind) string {
	return map[pkind]string{kInt: "int", kInt32: "i32", kInt64: "i64", kUint: "uint", kUint32: "u32", kUint64: "u64"}[k]
}

func isIntKind(k pkind) bool {
	switch k {
	case kInt, kInt32, kInt64, kUint, kUint32, kUint64:
		return true
	}
	return false
}

// scalarTpl: a template for one scalar of kind k; zeroOK allows zero / null
func scalarTpl(k pkind, zeroOK bool, o *tplOpts) *tnode {
	n := &tnode{val: &pval{k: k}}
	if zeroOK && rndn(10) == 0 {
		n.null = true
		return n
	}
	zero := zeroOK && rndn(8) == 0
	switch k {
	case kBool:
		n.val.b = !zero
	case kInt, kInt64:
		for n.val.i == 0 && !zero {
			n.val.i = pick(int64Edges)
			if rndBool() {
				n.val.i = int64(rnd()) >> uint(rndn(64))
			}
		}
	case kInt32:
		for n.val.i == 0 && !zero {
			n.val.i = int64(int32(pick(int64Edges)))
			if rndBool() {
				n.val.i = int64(int32(rnd()))
			}
		}
	case kUint, kUint64:
		for n.val.u == 0 && !zero {
			n.val.u = pick(uint64Edges)
			if rndBool() {
				n.val.u = rnd() >> uint(rndn(64))
			}
		}
	case kUint32:
		for n.val.u == 0 && !zero {
			n.val.u = uint64(uint32(pick(uint64Edges)))
			if rndBool() {
				n.val.u = uint64(uint32(rnd()))
			}
		}
		if o.outRange {
			n.val.u = pick([]uint64{1 << 32, 1<<32 + 5, 1 << 63})
		}
	case kFloat32:
		if !zero {
			f := pick(niceF32)
			n.val.u = uint64(math.Float32bits(f))
		}
	case kFloat64:
		if !zero {
			n.val.u = math.Float64bits(pick(niceF64))
		}
	case kString, kBytes:
		if !zero {
			n.str = pick(niceStr)
		}
		n.val.s = []byte(n.str)
	}
	return n
}

func fullMust(fdesc) bool { return true }

func genTpl(t *pty, depth int, o *tplOpts) *tnode {
	n := &tnode{}
	for i, d := range describe(t) {
		if o.avoid != nil && o.avoid(d) {
			continue
		}
		must := o.must != nil && o.must(d)
		if !must && rndn(100) >= 45 {
			continue
		}
		var c *tnode
		switch {
		case d.isMap:
			c = &tnode{}
			ne := pick([]int{0, 1, 1, 2, 3})
			seen := map[string]bool{}
			for j := 0; j < ne; j++ {
				k := pick([]string{"a", "b", "key", "k 1", "ü", "long-key-" + strings.Repeat("k", 20), "a\x01b", "bell\a", "del\x7f", "q\"uote\\", "\U000E0001", "<&>"})
				if o.mapZero {
					k = ""
				}
				if seen[k] {
					continue
				}
				seen[k] = true
				c.keys = append(c.keys, k)
				if d.base.elem.k == kStruct {
					so := *o
					so.bitor, so.bitorMix = false, false
					if !o.partial {
						so.must = fullMust
					}
					c.vals = append(c.vals, genTpl(d.base.elem, depth+1, &so))
				} else {
					v := scalarTpl(d.base.elem.k, true, o)
					if o.mapZero {
						v = &tnode{null: true, val: &pval{k: d.base.elem.k}}
					}
					c.vals = append(c.vals, v)
				}
			}
		case d.repeated:
			c = &tnode{}
			if rndn(12) == 0 {
				c.null = true
				break
			}
			ne := pick([]int{0, 1, 2, 3})
			for j := 0; j < ne; j++ {
				if d.base.k == kStruct {
					so := *o
					so.bitor, so.bitorMix = false, false
					if !o.partial {
						so.must = fullMust
					}
					e := genTpl(d.base, depth+1, &so)
					if o.repZero && rndBool() {
						e = zeroTpl(d.base)
					}
					for try := 0; try < 8 && !o.repZero && tplZeroish(d.base, e); try++ {
						e = genTpl(d.base, depth+1, &so)
					}
					if !o.repZero && tplZeroish(d.base, e) {
						continue
					}
					c.elems = append(c.elems, e)
				} else {
					e := scalarTpl(d.base.k, false, o)
					if o.repZero && rndBool() {
						e = &tnode{val: &pval{k: d.base.k}}
					}
					c.elems = append(c.elems, e)
				}
			}
		case d.base.k == kStruct:
			c = genTpl(d.base, depth+1, o)
		default:
			c = scalarTpl(d.base.k, true, o)
			if (o.bitor || o.bitorMix) && isIntKind(d.base.k) && !c.null && (must || rndn(3) == 0) {
				c.bitor = goKindOf(d.base.k)
				if o.bitorMix {
					c.bitor = pick([]string{"int", "i32", "i64", "uint", "u32", "u64"})
					// the JSON number must be in the range of T for the template to parse
					c.val = &pval{k: d.base.k, i: int64(rndn(1 << 20)), u: uint64(rndn(1 << 20))}
				}
			}
		}
		n.order = append(n.order, i)
		n.sub = append(n.sub, c)
	}
	// the JSON object is written in a random order
	for i := len(n.order) - 1; i > 0; i-- {
		j := rndn(i + 1)
		n.order[i], n.order[j] = n.order[j], n.order[i]
		n.sub[i], n.sub[j] = n.sub[j], n.sub[i]
	}
	return n
}

// zeroTpl: a template that mentions every field of t with a zero value
func zeroTpl(t *pty) *tnode {
	n := &tnode{}
	for i, d := range describe(t) {
		var c *tnode
		switch {
		case d.isMap, d.repeated:
			c = &tnode{}
		case d.base.k == kStruct:
			c = zeroTpl(d.base)
		default:
			c = &tnode{null: true, val: &pval{k: d.base.k}}
		}
		n.order = append(n.order, i)
		n.sub = append(n.sub, c)
	}
	return n
}

// tplZeroish: the message value described by a template applied to the zero message is zero
func tplZeroish(t *pty, n *tnode) bool {
	return zeroish(applyTpl(t, n, zeroValue(t)))
}

func jsonStr(s string) string {
	b, _ := stdjson.Marshal(s)
	return string(b)
}

func scalarJSON(n *tnode) string {
	if n.null {
		return "null"
	}
	v := n.val
	switch v.k {
	case kBool:
		return strconv.FormatBool(v.b)
	case kInt, kInt32, kInt64:
		return strconv.FormatInt(v.i, 10)
	case kUint, kUint32, kUint64:
		return strconv.FormatUint(v.u, 10)
	case kFloat32:
		return strconv.FormatFloat(float64(math.Float32frombits(uint32(v.u))), 'g', -1, 32)
	case kFloat64:
		return strconv.FormatFloat(math.Float64frombits(v.u), 'g', -1, 64)
	}
	return jsonStr(n.str)
}

// structJSON renders the template of a message of type t
func structJSON(t *pty, n *tnode) string {
	ds := describe(t)
	var parts []string
	for j, i := range n.order {
		d, c := ds[i], n.sub[j]
		var s string
		switch {
		case d.isMap:
			var es []string
			for x, k := range c.keys {
				if d.base.elem.k == kStruct {
					es = append(es, jsonStr(k)+":"+structJSON(d.base.elem, c.vals[x]))
				} else {
					es = append(es, jsonStr(k)+":"+scalarJSON(c.vals[x]))
				}
			}
			s = "{" + strings.Join(es, ",") + "}"
		case d.repeated:
			if c.null {
				s = "null"
				break
			}
			var es []string
			for _, e := range c.elems {
				if d.base.k == kStruct {
					es = append(es, structJSON(d.base, e))
				} else {
					es = append(es, scalarJSON(e))
				}
			}
			s = "[" + strings.Join(es, ", ") + "]"
		case d.base.k == kStruct:
			s = structJSON(d.base, c)
		default:
			s = scalarJSON(c)
		}
		parts = append(parts, jsonStr(d.name)+": "+s)
	}
	return "{" + strings.Join(parts, ", ") + "}"
}

func bitOrRule(g string) any {
	switch g {
	case "int":
		return proto.BitOr[int]{}
	case "i32":
		return proto.BitOr[int32]{}
	case "i64":
		return proto.BitOr[int64]{}
	case "uint":
		return proto.BitOr[uint]{}
	case "u32":
		return proto.BitOr[uint32]{}
	case "u64":
		return proto.BitOr[uint64]{}
	}
	panic("bitOrRule " + g)
}

// rulesOf: the RewriterRules of a template and their text form (path=type, ...)
func rulesOf(t *pty, n *tnode, path string, text *[]string) proto.RewriterRules {
	ds := describe(t)
	rules := proto.RewriterRules{}
	for j, i := range n.order {
		d, c := ds[i], n.sub[j]
		switch {
		case d.isMap || d.repeated:
		case d.base.k == kStruct:
			if sub := rulesOf(d.base, c, path+d.name+"/", text); len(sub) > 0 {
				rules[d.name] = sub
			}
		case c.bitor != "":
			rules[d.name] = bitOrRule(c.bitor)
			*text = append(*text, path+d.name+"="+c.bitor)
		}
	}
	return rules
}

// ---- expected value ----

func cloneVal(v *pval) *pval {
	if v == nil {
		return nil
	}
	c := *v
	c.s = append([]byte(nil), v.s...)
	c.elem = cloneVal(v.elem)
	c.elems = nil
	for _, e := range v.elems {
		c.elems = append(c.elems, cloneVal(e))
	}
	c.keys = nil
	for _, e := range v.keys {
		c.keys = append(c.keys, cloneVal(e))
	}
	return &c
}

func scalarVal(k pkind, n *tnode) *pval {
	v := &pval{k: k}
	if n.null {
		if k == kBytes {
			v.isnil = true
		}
		return v
	}
	*v = *n.val
	v.k = k
	if k == kBytes {
		v.isnil = len(v.s) == 0
	}
	return v
}

// wrapPtrs re-creates the pointer chain of field type ft around a base value
func wrapPtrs(ft *pty, base *pval) *pval {
	if ft.k == kPtr {
		return &pval{k: kPtr, elem: wrapPtrs(ft.elem, base)}
	}
	return base
}

func unwrapPtrs(ft *pty, v *pval) *pval {
	for ft.k == kPtr {
		if v.isnil {
			return zeroValue(baseOf(ft))
		}
		ft, v = ft.elem, v.elem
	}
	return v
}

func baseOf(t *pty) *pty {
	for t.k == kPtr {
		t = t.elem
	}
	return t
}

func orInt(k pkind, cur *pval, mask *pval) *pval {
	v := &pval{k: k}
	switch k {
	case kInt, kInt64:
		v.i = cur.i | mask.i
	case kInt32:
		v.i = int64(int32(cur.i) | int32(mask.i))
	case kUint, kUint64:
		v.u = cur.u | mask.u
	case kUint32:
		v.u = uint64(uint32(cur.u) | uint32(mask.u))
	}
	return v
}

// applyTpl: the message value orig (of struct type t) with the templated fields replaced
func applyTpl(t *pty, n *tnode, orig *pval) *pval {
	res := cloneVal(orig)
	ds := describe(t)
	for j, i := range n.order {
		d, c := ds[i], n.sub[j]
		ft := t.fields[i].t
		switch {
		case d.isMap:
			m := &pval{k: kMap}
			for x, k := range c.keys {
				m.keys = append(m.keys, &pval{k: kString, s: []byte(k)})
				if d.base.elem.k == kStruct {
					m.elems = append(m.elems, applyTpl(d.base.elem, c.vals[x], zeroValue(d.base.elem)))
				} else {
					m.elems = append(m.elems, scalarVal(d.base.elem.k, c.vals[x]))
				}
			}
			m.isnil = len(m.keys) == 0
			res.elems[i] = wrapPtrs(ft, m)
		case d.repeated:
			s := &pval{k: kSlice}
			for _, e := range c.elems {
				if d.base.k == kStruct {
					s.elems = append(s.elems, wrapPtrs(ft.elem, applyTpl(d.base, e, zeroValue(d.base))))
				} else {
					s.elems = append(s.elems, wrapPtrs(ft.elem, scalarVal(d.base.k, e)))
				}
			}
			s.isnil = len(s.elems) == 0
			res.elems[i] = s
		case d.base.k == kStruct:
			cur := unwrapPtrs(ft, orig.elems[i])
			res.elems[i] = wrapPtrs(ft, applyTpl(d.base, c, cur))
		case c.bitor != "":
			cur := unwrapPtrs(ft, orig.elems[i])
			res.elems[i] = wrapPtrs(ft, orInt(d.base.k, cur, c.val))
		default:
			res.elems[i] = wrapPtrs(ft, scalarVal(d.base.k, c))
		}
	}
	return res
}

// zeroish: a value that protobuf cannot tell from an absent field
func zeroish(v *pval) bool {
	switch v.k {
	case kBool:
		return !v.b
	case kInt, kInt32, kInt64:
		return v.i == 0
	case kUint, kUint32, kUint64, kFloat32, kFloat64:
		return v.u == 0
	case kString, kBytes:
		return len(v.s) == 0
	case kPtr:
		return v.isnil || zeroish(v.elem)
	case kStruct:
		for _, e := range v.elems {
			if !zeroish(e) {
				return false
			}
		}
		return true
	case kSlice, kMap:
		return len(v.elems) == 0
	}
	return false
}

// canon19: canon() with pointers to zero values identified with nil pointers
func canon19(v *pval) string {
	switch v.k {
	case kPtr:
		if zeroish(v) {
			return "nil"
		}
		return "(p " + canon19(v.elem) + ")"
	case kStruct, kSlice:
		h := "(s"
		if v.k == kSlice {
			h = "(l"
		}
		var sb strings.Builder
		sb.WriteString(h)
		for _, e := range v.elems {
			sb.WriteString(" " + canon19(e))
		}
		sb.WriteString(")")
		return sb.String()
	case kMap:
		var es []string
		for i := range v.elems {
			es = append(es, "("+canon19(v.keys[i])+" "+canon19(v.elems[i])+")")
		}
		sort.Strings(es)
		return "(m " + strings.Join(es, " ") + ")"
	}
	return v.canon()
}

// ---- re-encoding of inputs ----

func fieldOf(ds []fdesc, num uint64) *fdesc {
	for i := range ds {
		if uint64(ds[i].number) == num {
			return &ds[i]
		}
	}
	return nil
}

func unknownField(ds []fdesc) []byte {
	num := uint64(0)
	for num == 0 || fieldOf(ds, num) != nil {
		num = pick([]uint64{uint64(1 + rndn(40)), uint64(200 + rndn(200)), 70000, 1<<29 - 1, uint64(1 + rndn(3000))})
	}
	switch rndn(4) {
	case 0:
		return putField(nil, num, 0, putUvarint(nil, rnd()>>uint(rndn(64)), 0), 0)
	case 1:
		b := make([]byte, 8)
		binary.LittleEndian.PutUint64(b, rnd())
		return putField(nil, num, 1, b, 0)
	case 2:
		return putField(nil, num, 2, rndBytes(12), 0)
	}
	b := make([]byte, 4)
	binary.LittleEndian.PutUint32(b, uint32(rnd()))
	return putField(nil, num, 5, b, 0)
}

// reencode: the same message value written differently: unknown fields interleaved, earlier
// occurrences of singular scalar fields (the last one wins), over-long tags and lengths, recursively
func reencode(t *pty, n *tnode, b []byte, depth int) []byte {
	fs, ok := wireParse(b)
	if !ok {
		return b
	}
	ds := describe(t)
	subTpl := func(num int) *tnode {
		if n == nil {
			return nil
		}
		for j, i := range n.order {
			if ds[i].number == num {
				return n.sub[j]
			}
		}
		return nil
	}
	var out []byte
	for _, f := range fs {
		if rndn(4) == 0 {
			if u := unknownField(ds); len(u) > 0 {
				out = append(out, u...)
			}
		}
		d := fieldOf(ds, f.num)
		val := f.val
		if d != nil && f.wt == 2 && rndBool() {
			if d.base.k == kStruct {
				var sn *tnode
				if !d.repeated {
					sn = subTpl(d.number)
				}
				val = reencode(d.base, sn, val, depth+1)
			} else if d.isMap && d.base.elem.k == kStruct {
				// entry: key = 1, value = 2
				if efs, ok := wireParse(val); ok {
					var e []byte
					for _, ef := range efs {
						if ef.num == 2 && ef.wt == 2 {
							e = putField(e, 2, 2, reencode(d.base.elem, nil, ef.val, depth+1), 0)
						} else {
							e = append(e, ef.raw...)
						}
					}
					val = e
				}
			}
		}
		dupOK := true
		if d != nil {
			if c := subTpl(d.number); c != nil && c.bitor != "" {
				dupOK = false // own stream (dup): the or-ed value is the one of the first occurrence
			}
		}
		if d != nil && dupOK && !d.repeated && !d.isMap && d.base.k != kStruct && rndn(6) == 0 {
			// an earlier occurrence with another value
			var v2 []byte
			switch f.wt {
			case 0:
				v2 = putUvarint(nil, uint64(rndn(100)), 0)
			case 2:
				v2 = []byte("old")
			default:
				v2 = make([]byte, len(f.val))
			}
			out = putField(out, f.num, f.wt, v2, 0)
		}
		over := 0
		if rndn(8) == 0 {
			over = 1 + rndn(2)
		}
		out = putField(out, f.num, f.wt, val, over)
	}
	if rndn(3) == 0 {
		out = append(out, unknownField(ds)...)
	}
	return out
}

// splitSub: the first templated singular sub-message field is written as two occurrences
func splitSub(t *pty, n *tnode, b []byte) ([]byte, bool) {
	fs, ok := wireParse(b)
	if !ok {
		return b, false
	}
	ds := describe(t)
	for _, f := range fs {
		d := fieldOf(ds, f.num)
		if d == nil || d.repeated || d.isMap || d.base.k != kStruct || f.wt != 2 {
			continue
		}
		templated := false
		for _, i := range n.order {
			if ds[i].number == d.number {
				templated = true
			}
		}
		sub, ok := wireParse(f.val)
		if !templated || !ok || len(sub) < 2 {
			continue
		}
		cut := 1 + rndn(len(sub)-1)
		var p1, p2, out []byte
		for i, sf := range sub {
			if i < cut {
				p1 = append(p1, sf.raw...)
			} else {
				p2 = append(p2, sf.raw...)
			}
		}
		for _, g := range fs {
			if &g.raw[0] == &f.raw[0] {
				out = putField(out, f.num, 2, p1, 0)
				out = putField(out, f.num, 2, p2, 0)
			} else {
				out = append(out, g.raw...)
			}
		}
		return out, true
	}
	return b, false
}

// ---- the value-level case ----

func decodeAs(t *pty, b []byte) (v *pval, obs string) {
	defer func() {
		if r := recover(); r != nil {
			v, obs = nil, "panic:unmarshal"
		}
	}()
	y := reflect.New(t.goType())
	if err := proto.Unmarshal(b, y.Interface()); err != nil {
		return nil, "err:unmarshal"
	}
	return t.fromGo(y.Elem()), ""
}

func parseTemplate(t *pty, tpl string, rules proto.RewriterRules) (rw proto.Rewriter, obs string) {
	defer func() {
		if r := recover(); r != nil {
			rw, obs = nil, "panic:template"
		}
	}()
	var err error
	if len(rules) > 0 {
		rw, err = proto.ParseRewriteTemplate(proto.TypeOf(t.goType()), []byte(tpl), rules)
	} else {
		rw, err = proto.ParseRewriteTemplate(proto.TypeOf(t.goType()), []byte(tpl))
	}
	if err != nil {
		return nil, "err:template"
	}
	return rw, ""
}

// rwVal emits the value-level case and the byte-level case of one (type, template, input).
func rwVal(class string, t *pty, n *tnode, in []byte, valueOracle bool, outRange bool) {
	sfx := ""
	if class != "" {
		sfx = "." + class
	}
	tpl := structJSON(t, n)
	var rtext []string
	rules := rulesOf(t, n, "", &rtext)
	rw, tobs := parseTemplate(t, tpl, rules)
	// byte level (also for other shards' bookkeeping: two emits per call)
	if rw != nil {
		rwRun("rw.run"+sfx, rw, pick([][]byte{nil, nil, {0xee}, []byte("prefix")}), in, class != "mal" && class != "tmix")
	} else {
		skip()
	}
	if !mine() {
		skip()
		return
	}
	rs := strings.Join(rtext, ",")
	if rs == "" {
		rs = "-"
	}
	args := t.String() + "|" + hex.EncodeToString([]byte(tpl)) + "|" + rs + "|" + hexs(in)
	trace("rw.val"+sfx, args)
	tplCopy := []byte(tpl)
	impl := tobs
	orig, oobs := decodeAs(t, in)
	if rw != nil {
		obs, out := applyRw(rw, nil, in, 0)
		switch {
		case !strings.HasPrefix(obs, "ok"):
			impl = obs
		default:
			got, gobs := decodeAs(t, out)
			if got == nil {
				impl = gobs
			} else {
				impl = canon19(got)
			}
		}
	}
	if string(tplCopy) != tpl {
		impl += " TEMPLATE-MODIFIED"
	}
	orc := "-"
	if class == "mal" {
		orc = "-"
	} else if orig == nil {
		orc = "generator: input does not decode " + oobs
	} else if outRange {
		orc = "err:template" // a number outside the range of the field's type cannot be a template value
	} else if valueOracle {
		orc = canon19(applyTpl(t, n, orig))
	}
	emit("rw.val"+sfx, args, impl, orc)
}

// ---- replay of rw.val from its arguments ----

func tnodeFromJSON(t *pty, raw []byte, rules map[string]string, path string) *tnode {
	n := &tnode{}
	var obj map[string]stdjson.RawMessage
	if err := stdjson.Unmarshal(raw, &obj); err != nil {
		panic(err)
	}
	// keep the order of the text
	dec := stdjson.NewDecoder(bytes.NewReader(raw))
	dec.Token()
	ds := describe(t)
	for dec.More() {
		tok, _ := dec.Token()
		name := tok.(string)
		var v stdjson.RawMessage
		dec.Decode(&v)
		for i, d := range ds {
			if d.name != name {
				continue
			}
			var c *tnode
			switch {
			case d.isMap:
				c = &tnode{}
				md := stdjson.NewDecoder(bytes.NewReader(v))
				md.Token()
				for md.More() {
					kt, _ := md.Token()
					var ev stdjson.RawMessage
					md.Decode(&ev)
					c.keys = append(c.keys, kt.(string))
					if d.base.elem.k == kStruct {
						c.vals = append(c.vals, tnodeFromJSON(d.base.elem, ev, nil, ""))
					} else {
						c.vals = append(c.vals, scalarFromJSON(d.base.elem.k, ev))
					}
				}
			case d.repeated:
				c = &tnode{}
				if string(v) == "null" {
					c.null = true
					break
				}
				var es []stdjson.RawMessage
				stdjson.Unmarshal(v, &es)
				for _, ev := range es {
					if d.base.k == kStruct {
						c.elems = append(c.elems, tnodeFromJSON(d.base, ev, nil, ""))
					} else {
						c.elems = append(c.elems, scalarFromJSON(d.base.k, ev))
					}
				}
			case d.base.k == kStruct:
				c = tnodeFromJSON(d.base, v, rules, path+name+"/")
			default:
				c = scalarFromJSON(d.base.k, v)
				c.bitor = rules[path+name]
			}
			n.order = append(n.order, i)
			n.sub = append(n.sub, c)
		}
	}
	return n
}

func scalarFromJSON(k pkind, raw []byte) *tnode {
	n := &tnode{val: &pval{k: k}}
	s := strings.TrimSpace(string(raw))
	if s == "null" {
		n.null = true
		return n
	}
	switch k {
	case kBool:
		n.val.b = s == "true"
	case kInt, kInt32, kInt64:
		n.val.i, _ = strconv.ParseInt(s, 10, 64)
	case kUint, kUint32, kUint64:
		n.val.u, _ = strconv.ParseUint(s, 10, 64)
	case kFloat32:
		f, _ := strconv.ParseFloat(s, 32)
		n.val.u = uint64(math.Float32bits(float32(f)))
	case kFloat64:
		f, _ := strconv.ParseFloat(s, 64)
		n.val.u = math.Float64bits(f)
	default:
		stdjson.Unmarshal(raw, &n.str)
		n.val.s = []byte(n.str)
	}
	return n
}

// tplOutOfRange: the template holds a number above MaxUint32 for a uint32 field
func tplOutOfRange(t *pty, n *tnode) bool {
	ds := describe(t)
	for j, i := range n.order {
		d, c := ds[i], n.sub[j]
		var leaves []*tnode
		switch {
		case d.isMap:
			if d.base.elem.k == kStruct {
				for _, v := range c.vals {
					if tplOutOfRange(d.base.elem, v) {
						return true
					}
				}
			} else if d.base.elem.k == kUint32 {
				leaves = c.vals
			}
		case d.base.k == kStruct && d.repeated:
			for _, e := range c.elems {
				if tplOutOfRange(d.base, e) {
					return true
				}
			}
		case d.base.k == kStruct:
			if tplOutOfRange(d.base, c) {
				return true
			}
		case d.base.k == kUint32 && d.repeated:
			leaves = c.elems
		case d.base.k == kUint32:
			leaves = []*tnode{c}
		}
		for _, l := range leaves {
			if l.val != nil && !l.null && l.val.u > math.MaxUint32 {
				return true
			}
		}
	}
	return false
}

func replayVal(fn string, a []string) {
	f := strings.Split(strings.Join(a, " "), "|")
	t := tyFromSx(parseSx(f[0]))
	bind(t)
	tpl, _ := hex.DecodeString(f[1])
	rules := map[string]string{}
	if f[2] != "-" {
		for _, r := range strings.Split(f[2], ",") {
			kv := strings.SplitN(r, "=", 2)
			rules[kv[0]] = kv[1]
		}
	}
	n := tnodeFromJSON(t, tpl, rules, "")
	class := strings.TrimPrefix(strings.TrimPrefix(fn, "rw.val"), ".")
	// rwVal emits the byte-level twin first: keep the case numbering of the generator
	rwVal(class, t, n, unhex(f[3]), class != "tmix" && class != "mal", tplOutOfRange(t, n))
}

// ---------------------------------------------------------------------------------------------
// hand-assembled rewriters and raw field lists (no Go type involved)

type hgen struct {
	big bool
}

func (g *hgen) number(n int) int { return rndn(n) }

func rawFieldOf(num uint64) proto.RawMessage {
	f := proto.FieldNumber(num)
	switch rndn(12) {
	case 0:
		return f.Bool(rndBool())
	case 1:
		return f.Int32(int32(rnd()))
	case 2:
		return f.Int64(int64(rnd()) >> uint(rndn(64)))
	case 3:
		return f.Uint32(uint32(rnd()))
	case 4:
		return f.Uint64(rnd() >> uint(rndn(64)))
	case 5:
		return f.Fixed32(uint32(rnd()))
	case 6:
		return f.Fixed64(rnd())
	case 7:
		return f.Float32(pick(niceF32))
	case 8:
		return f.Float64(pick(niceF64))
	case 9:
		return f.String(pick(niceStr))
	case 10:
		return f.Value(rndBytes(9))
	}
	// two fields of the same number
	return append(f.Int(rndn(1000)), f.String("two")...)
}

var bitorCombos = [][2]string{{"i32", "int32"}, {"i64", "int64"}, {"int", "int64"}, {"u32", "uint32"}, {"u64", "uint64"}, {"uint", "uint64"}, {"i32", "sint32"}, {"i64", "sint64"},
	{"u32", "fix32"}, {"u64", "fix64"}, {"i32", "sfix32"}, {"i64", "sfix64"}, {"u64", "sint32"}, {"i32", "uint64"}, {"u32", "int64"}, {"int", "fix32"}}

// slot builds the rewriter of slot number i. The returned shape describes what a well-formed input
// field for that slot looks like: "any", "msg" (with sub), "i32" ... (a varint in the range of T)
type hslot struct {
	rw    proto.Rewriter
	shape string
	sub   *hmsg
}
type hmsg struct {
	n     int
	slots map[int]*hslot
	order []int
}

func (g *hgen) slot(i int, depth int) *hslot {
	r := rndn(100)
	switch {
	case r < 45:
		return &hslot{rw: rawFieldOf(uint64(i)), shape: "any"}
	case r < 55:
		var rs []proto.Rewriter
		for k := pick([]int{0, 2, 3}); k > 0; k-- {
			rs = append(rs, rawFieldOf(uint64(i)))
		}
		return &hslot{rw: proto.MultiRewriter(rs...), shape: "any"}
	case r < 80 && depth < 3:
		sub := g.message(depth + 1)
		return &hslot{rw: mkEmbedded(uint64(i), sub.rewriter()), shape: "msg", sub: sub}
	case r < 95:
		c := pick(bitorCombos)
		mask := strconv.FormatUint(rnd()>>uint(rndn(64)), 10)
		switch c[0] {
		case "i32":
			mask = strconv.FormatInt(int64(int32(rnd())), 10)
		case "i64", "int":
			mask = strconv.FormatInt(int64(rnd())>>uint(rndn(64)), 10)
		case "u32":
			mask = strconv.FormatUint(uint64(uint32(rnd())), 10)
		}
		shape := "varint"
		if strings.HasSuffix(c[1], "fix32") {
			shape = "fixed32"
		} else if strings.HasSuffix(c[1], "fix64") {
			shape = "fixed64"
		}
		return &hslot{rw: mkBitOr(c[0], c[1], mask, uint64(i)), shape: shape}
	}
	return &hslot{rw: rawFieldOf(uint64(i)), shape: "any"}
}

func (g *hgen) message(depth int) *hmsg {
	m := &hmsg{slots: map[int]*hslot{}}
	m.n = pick([]int{0, 1, 2, 3, 5, 8, 17, 40, 64, 65, 128, 200, 255, 256})
	if g.big {
		m.n = pick([]int{257, 258, 300, 319, 320, 321, 383, 384, 385, 447, 448, 512, 513, 1000, 1024, 4096, 70000})
	}
	if m.n > 1 {
		k := 1 + rndn(5)
		for ; k > 0; k-- {
			i := 1 + rndn(m.n-1)
			if rndn(3) == 0 {
				i = m.n - 1
			}
			if g.big && rndBool() {
				i = 256 + rndn(m.n-256)
			}
			if m.slots[i] == nil {
				m.slots[i] = g.slot(i, depth)
				m.order = append(m.order, i)
			}
		}
		sort.Ints(m.order)
	}
	return m
}

func (m *hmsg) rewriter() proto.MessageRewriter {
	r := make(proto.MessageRewriter, m.n)
	for i, s := range m.slots {
		r[i] = s.rw
	}
	return r
}

// input: a well-formed message for m: templated fields absent / once / repeatedly, others interleaved
func (m *hmsg) input(depth int) []byte {
	var out []byte
	nf := rndn(7)
	for k := 0; k < nf; k++ {
		if len(m.order) > 0 && rndn(100) < 55 {
			i := pick(m.order)
			s := m.slots[i]
			switch s.shape {
			case "msg":
				out = putField(out, uint64(i), 2, s.sub.input(depth+1), 0)
			case "any":
				out = append(out, rawFieldOf(uint64(i))...)
			case "fixed32":
				b := make([]byte, 4)
				binary.LittleEndian.PutUint32(b, uint32(rnd()))
				out = putField(out, uint64(i), 5, b, 0)
			case "fixed64":
				b := make([]byte, 8)
				binary.LittleEndian.PutUint64(b, rnd())
				out = putField(out, uint64(i), 1, b, 0)
			default:
				out = putField(out, uint64(i), 0, putUvarint(nil, rnd()>>uint(rndn(64)), rndn(2)*rndn(2)), 0)
			}
		} else {
			num := uint64(0)
			for num == 0 || m.slots[int(num)] != nil {
				num = pick([]uint64{uint64(rndn(m.n + 3)), uint64(1 + rndn(20)), uint64(250 + rndn(20)), 1<<29 - 1, 1<<61 - 1, uint64(1 + rndn(100000))})
			}
			raw := rawFieldOf(1)
			fs, _ := wireParse(raw)
			over := 0
			if rndn(6) == 0 {
				over = 1
			}
			for _, f := range fs {
				out = putField(out, num, f.wt, f.val, over)
			}
		}
	}
	return out
}

func mutate(b []byte) []byte {
	m := append([]byte(nil), b...)
	if len(m) == 0 {
		return rndBytes(6)
	}
	switch rndn(6) {
	case 0:
		return m[:rndn(len(m))]
	case 1:
		m[rndn(len(m))] = byte(rnd())
	case 2:
		m[rndn(len(m))] ^= 0x80
	case 3:
		p := rndn(len(m))
		m = append(m[:p], append([]byte{byte(rnd()), byte(rnd())}, m[p:]...)...)
	case 4:
		m[rndn(len(m))] = pick([]byte{0xff, 0x7f, 0x80, 0x00, 0x03, 0x04, 0x0b, 0x0c})
	case 5:
		return append(m, pick([][]byte{{0x80}, {0x08}, {0x0a, 0x05, 1}, {0x0d, 1, 2}, {0x09, 1, 2, 3}, {0xff, 0xff, 0xff, 0xff, 0xff, 0xff, 0xff, 0xff, 0xff, 0x7f, 0}, {0x0b}})...)
	}
	return m
}

// ---------------------------------------------------------------------------------------------

// declared Go shapes: untagged structs with unexported fields before, between and after the exported ones, at the
// top level and nested (reflect.StructOf cannot build them): the field numbers of the type description handed to
// ParseRewriteTemplate are those the codecs use, so a template that names a field replaces THAT field
type rwUnexp struct {
	hits int
	A    int
	skip bool
	B    string
	C    float64
	tail int
}
type rwUnexpOuter struct {
	x   string
	N   rwUnexp
	Ptr *rwUnexp
	Z   int32
}

func rwDeclared() {
	cases := []struct{ tpl, want string }{
		{`{"A":42}`, "A"}, {`{"B":"tpl"}`, "B"}, {`{"C":1.5}`, "C"}, {`{"A":7,"C":2.5}`, "AC"}, {`{"N":{"B":"in"}}`, "NB"}, {`{"Ptr":{"C":9.25},"Z":5}`, "PCZ"},
	}
	for i, c := range cases {
		if !mine() {
			skip()
			continue
		}
		args := fmt.Sprintf("%d %s", i, c.tpl)
		impl := guarded(func() string {
			in := rwUnexpOuter{N: rwUnexp{A: 1, B: "x", C: 0.5}, Ptr: &rwUnexp{A: 2, B: "y", C: 0.25}, Z: 3}
			want := rwUnexpOuter{N: rwUnexp{A: 1, B: "x", C: 0.5}, Ptr: &rwUnexp{A: 2, B: "y", C: 0.25}, Z: 3}
			var typ reflect.Type
			var inB, wantB []byte
			if strings.ContainsAny(c.want, "NPZ") {
				typ = reflect.TypeOf(in)
				switch c.want {
				case "NB":
					want.N.B = "in"
				default:
					want.Ptr.C, want.Z = 9.25, 5
				}
				inB, _ = proto.Marshal(&in)
				wantB, _ = proto.Marshal(&want)
			} else {
				typ = reflect.TypeOf(in.N)
				w := in.N
				if strings.Contains(c.want, "A") {
					w.A = 42
					if c.want == "AC" {
						w.A = 7
					}
				}
				if c.want == "B" {
					w.B = "tpl"
				}
				if strings.Contains(c.want, "C") {
					w.C = 1.5
					if c.want == "AC" {
						w.C = 2.5
					}
				}
				inB, _ = proto.Marshal(&in.N)
				wantB, _ = proto.Marshal(&w)
			}
			rw, err := proto.ParseRewriteTemplate(proto.TypeOf(typ), []byte(c.tpl))
			if err != nil {
				return "err:template"
			}
			out, err := rw.Rewrite(nil, inB)
			if err != nil {
				return "err:rewrite"
			}
			if !bytes.Equal(out, wantB) {
				return "got " + hexs(out) + " want " + hexs(wantB)
			}
			return "ok"
		})
		emit("rw.decl", args, impl, "ok")
	}
}

func runC19() {
	rwDeclared()
	scale := 1
	if *tier == "thorough" {
		scale = 12
	}
	prefixes := [][]byte{nil, nil, {}, {0xee}, []byte("0123456789abcdef")}

	// 1. hand-assembled rewriters on raw field lists
	for _, big := range []bool{false, true} {
		g := &hgen{big: big}
		class := "" // entries at index >= 256 included: same stream
		nr := 500 * scale
		if big {
			nr = 120 * scale
		}
		for i := 0; i < nr; i++ {
			m := g.message(0)
			var rw proto.Rewriter = m.rewriter()
			if rndn(25) == 0 {
				rw = proto.MessageRewriter(nil)
			}
			rwRun("rw.run"+class, rw, pick(prefixes), nil, true)
			for k := 0; k < 4; k++ {
				in := m.input(0)
				rwRun("rw.run"+class, rw, pick(prefixes), in, true)
				if k < 2 && !big {
					rwRun("rw.run.mal", rw, pick(prefixes), mutate(in), false)
				}
			}
			if !big && rndn(4) == 0 {
				// irregular rewriters: a message rewriter or a foreign-number constant inside a slot, multi at top level
				irr := m.rewriter()
				if len(irr) > 1 {
					irr[1+rndn(len(irr)-1)] = pick([]proto.Rewriter{g.message(1).rewriter(), rawFieldOf(77), proto.RawMessage{0xff}, proto.MultiRewriter(g.message(1).rewriter(), rawFieldOf(3))})
				}
				rwRun("rw.run.mal", irr, pick(prefixes), m.input(0), false)
				rwRun("rw.run.mal", proto.MultiRewriter(irr, m.rewriter()), pick(prefixes), m.input(0), false)
			}
		}
	}
	// every length prefix boundary of the embedded splice
	for _, l := range []int{0, 1, 126, 127, 128, 129, 16383, 16384, 16385} {
		sub := proto.MessageRewriter{1: proto.FieldNumber(1).Int32(7)}
		rw := proto.MessageRewriter{2: mkEmbedded(2, sub), 3: mkEmbedded(3, proto.MessageRewriter{})}
		payload := putField(nil, 5, 2, make([]byte, l), 0)
		in := putField(putField(nil, 2, 2, payload, 0), 3, 2, payload, 0)
		rwRun("rw.run", rw, []byte("pfx"), in, true)
		rwRun("rw.run", rw, nil, in, true)
	}

	// 2. templates over generated message types
	type stream struct {
		class string
		gen   c19tgen
		opts  tplOpts
		n     int
		value bool
	}
	isFixed := func(d fdesc) bool { return d.fixed }
	isZZ := func(d fdesc) bool { return d.zigzag }
	streams := []stream{
		{"", c19tgen{zigzag: true, fixed: true}, tplOpts{bitor: true}, 700, true},
		{"", c19tgen{big: true, zigzag: true, fixed: true}, tplOpts{bitor: true}, 150, true},
		{"", c19tgen{fixed: true}, tplOpts{bitor: true, must: isFixed}, 100, true},
		{"", c19tgen{zigzag: true}, tplOpts{bitor: true, must: isZZ}, 100, true},
		{"split", c19tgen{}, tplOpts{must: func(d fdesc) bool { return d.base.k == kStruct && !d.repeated }}, 100, true},
		{"dup", c19tgen{}, tplOpts{bitor: true, must: func(d fdesc) bool { return !d.repeated && !d.isMap && isIntKind(d.base.k) }}, 60, true},
		{"repz", c19tgen{}, tplOpts{repZero: true, must: func(d fdesc) bool { return d.repeated }}, 80, true},
		{"repmsg", c19tgen{}, tplOpts{partial: true, must: func(d fdesc) bool { return d.repeated && d.base.k == kStruct || d.isMap && d.base.elem.k == kStruct }}, 100, true},
		{"mapzero", c19tgen{}, tplOpts{mapZero: true, must: func(d fdesc) bool { return d.isMap }}, 50, true},
		{"", c19tgen{}, tplOpts{outRange: true, must: func(d fdesc) bool { return !d.repeated && !d.isMap && d.base.k == kUint32 }}, 50, true},
		{"tmix", c19tgen{zigzag: true}, tplOpts{bitorMix: true}, 100, false},
	}
	vg := protoGen()
	for _, s := range streams {
		for i := 0; i < s.n*scale; i++ {
			t := s.gen.structType(0)
			bind(t)
			ds := describe(t)
			// the stream's feature must be present in the type
			hasMust := s.opts.must == nil
			for _, d := range ds {
				if s.opts.must != nil && s.opts.must(d) {
					hasMust = true
				}
			}
			if !hasMust {
				continue
			}
			opts := s.opts
			for j := 0; j < 3; j++ {
				n := genTpl(t, 0, &opts)
				for k := 0; k < 3; k++ {
					v := vg.value(t, 0)
					if k == 0 && rndn(3) == 0 {
						v = zeroValue(t)
					}
					in, err := safeMarshal(t, v)
					if err != nil {
						continue
					}
					switch {
					case s.class == "dup":
						var pre []byte
						for jj, ii := range n.order {
							if n.sub[jj].bitor != "" {
								pre = putField(pre, uint64(ds[ii].number), 0, putUvarint(nil, uint64(1+rndn(1000)), 0), 0)
							}
						}
						in = append(pre, in...)
					case s.class == "split":
						in2, ok := splitSub(t, n, in)
						if !ok {
							continue
						}
						in = in2
					case k > 0 || rndn(3) == 0:
						in = reencode(t, n, in, 0)
					}
					rwVal(s.class, t, n, in, s.value, tplOutOfRange(t, n))
					if s.class == "" && k == 0 && rndn(4) == 0 {
						rwVal("mal", t, n, mutate(in), false, false)
					}
				}
			}
		}
	}
}

// dropDeviations removes from a template of the clean streams the sub-templates that select a
// recorded deviation: BitOr on zig-zag fields
func dropDeviations(t *pty, n *tnode) {
	ds := describe(t)
	for j, i := range n.order {
		d, c := ds[i], n.sub[j]
		if c.bitor != "" && d.zigzag {
			c.bitor = ""
		}
		if d.base.k == kStruct && !d.repeated && !d.isMap {
			dropDeviations(d.base, c)
		}
	}
}

func safeMarshal(t *pty, v *pval) (b []byte, err error) {
	defer func() {
		if r := recover(); r != nil {
			err = fmt.Errorf("panic")
		}
	}()
	b, err = proto.Marshal(t.toGo(v).Addr().Interface())
	if err == nil {
		b = sortMaps(t, b)
	}
	return
}

// sortMaps puts the entries of every map field (written in Go's random iteration order) in a fixed
// order, recursively, so that the generated inputs depend on the seed only.
func sortMaps(t *pty, b []byte) []byte {
	fs, ok := wireParse(b)
	if !ok {
		return b
	}
	ds := describe(t)
	var out []byte
	for i := 0; i < len(fs); {
		f := fs[i]
		d := fieldOf(ds, f.num)
		switch {
		case d != nil && d.isMap && f.wt == 2:
			var run [][]byte
			j := i
			for ; j < len(fs) && fs[j].num == f.num && fs[j].wt == 2; j++ {
				val := fs[j].val
				if d.base.elem.k == kStruct {
					if efs, ok := wireParse(val); ok {
						var e []byte
						for _, ef := range efs {
							if ef.num == 2 && ef.wt == 2 {
								e = putField(e, 2, 2, sortMaps(d.base.elem, ef.val), 0)
							} else {
								e = append(e, ef.raw...)
							}
						}
						val = e
					}
				}
				run = append(run, putField(nil, f.num, 2, val, 0))
			}
			sort.Slice(run, func(x, y int) bool { return bytes.Compare(run[x], run[y]) < 0 })
			for _, r := range run {
				out = append(out, r...)
			}
			i = j
		case d != nil && d.base.k == kStruct && f.wt == 2:
			out = putField(out, f.num, 2, sortMaps(d.base, f.val), 0)
			i++
		default:
			out = append(out, f.raw...)
			i++
		}
	}
	return out
}
