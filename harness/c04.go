package main

import (
	"bytes"
	"encoding/binary"
	"errors"
	"fmt"
	"io"
	"reflect"
	"sort"
	"strings"

	"github.com/segmentio/encoding/thrift"
)

func init() {
	register("c04", c04)
	register("c13", c13)
	register("c08", c08)
	replayers["t.rt"] = func(a []string) { t, v, p := ttvArgs(a); tRoundTrip(t, v, p) }
	replayers["t.enc"] = func(a []string) { t, v, p := ttvArgs(a); tEncode(t, v, p) }
	replayers["t.enc.x"] = replayers["t.enc"]
	replayers["t.reset"] = func(a []string) { t, v, p := ttvArgs(a); tReset(t, v, p) }
	replayers["t.dec"] = func(a []string) {
		f := strings.Split(strings.Join(a, " "), "|")
		tDecode(ttyFromSx(parseSx(f[0])), unhex(f[1]), f[2])
	}
}

func ttvArgs(a []string) (*tty, *tval, string) {
	f := strings.Split(strings.Join(a, " "), "|")
	t := ttyFromSx(parseSx(f[0]))
	return t, tvalFromSx(t, parseSx(f[1])), f[2]
}

var tprotos = []string{"bs", "bn", "c"} // binary strict, binary non-strict, compact

func tproto(name string) thrift.Protocol {
	switch name {
	case "bs":
		return &thrift.BinaryProtocol{}
	case "bn":
		return &thrift.BinaryProtocol{NonStrict: true}
	}
	return &thrift.CompactProtocol{}
}

// tFnSuffix marks cases whose type shape is outside the universe of the Coq model (no model verdict): ".x"
var tFnSuffix string

func tRoundTrip(t *tty, v *tval, p string) {
	if !mine() {
		skip()
		return
	}
	trace("t.rt", t.String()+"|"+v.String()+"|"+p)
	impl := guarded(func() string {
		x := t.toGo(v).Addr().Interface()
		b, err := thrift.Marshal(tproto(p), x)
		if err != nil {
			return "err:marshal"
		}
		y := reflect.New(t.goType())
		if err := thrift.Unmarshal(tproto(p), b, y.Interface()); err != nil {
			return "err:unmarshal"
		}
		return t.fromGo(y.Elem()).canon()
	})
	emit("t.rt"+tFnSuffix, t.String()+"|"+v.String()+"|"+p, impl, v.canon())
}

// a reused Encoder / Decoder (Reset) behaves like a fresh one
func tReset(t *tty, v *tval, p string) {
	if !mine() {
		skip()
		return
	}
	trace("t.reset", t.String()+"|"+v.String()+"|"+p)
	impl := guarded(func() string {
		x := t.toGo(v).Addr().Interface()
		fresh, err := thrift.Marshal(tproto(p), x)
		if err != nil {
			return "err:marshal"
		}
		// encoder first used with ANOTHER protocol and value, then Reset
		other := "c"
		if p == "c" {
			other = "bs"
		}
		var junk, buf bytes.Buffer
		enc := thrift.NewEncoder(tproto(other).NewWriter(&junk))
		_ = enc.Encode(x)
		enc.Reset(tproto(p).NewWriter(&buf))
		if err := enc.Encode(x); err != nil {
			return "err:encode-after-reset"
		}
		if !bytes.Equal(buf.Bytes(), fresh) && !v.multiEntry() {
			return "reset-encoder-differs"
		}
		dec := thrift.NewDecoder(tproto(other).NewReader(bytes.NewReader(junk.Bytes())))
		y0 := reflect.New(t.goType())
		_ = dec.Decode(y0.Interface())
		dec.Reset(tproto(p).NewReader(bytes.NewReader(fresh)))
		y := reflect.New(t.goType())
		if err := dec.Decode(y.Interface()); err != nil {
			return "err:decode-after-reset"
		}
		return t.fromGo(y.Elem()).canon()
	})
	emit("t.reset", t.String()+"|"+v.String()+"|"+p, impl, v.canon())
}

// ---- the Apache Thrift specifications, transcribed (binary and compact protocol) ----

type specEnc struct {
	compact bool
	buf     bytes.Buffer
	// known deviations of the package from the specifications (recorded findings): when set the
	// encoder reproduces them, so that any OTHER deviation is still detected
	devTypeCodes bool // binary protocol written with the compact protocol's type codes
	devStop3     bool // binary protocol stop field written as type byte + 16-bit id
	devDoubleBE  bool // compact protocol doubles written big-endian
	devEnumWidth bool // an enum-tagged integer field announces the type code of its Go width (I8/I16/I64) although the value is written as the i32 an enum is
	// alternative conformant encodings (compact protocol): 1 = every field and list/set header in its long form,
	// >1 = long or short form chosen per header from this xorshift state
	alt uint64
}

// long reports whether the next header that has a short form must be written in its long form
func (e *specEnc) long() bool {
	switch e.alt {
	case 0:
		return false
	case 1:
		return true
	}
	e.alt ^= e.alt << 13
	e.alt ^= e.alt >> 7
	e.alt ^= e.alt << 17
	if e.alt < 2 {
		e.alt = 2
	}
	return e.alt&4 != 0
}

// specification type codes
var binCode = map[tkind]byte{tBool: 2, tI8: 3, tF64: 4, tI16: 6, tI32: 8, tI64: 10, tInt: 10, tStr: 11, tBytes: 11, tStruct: 12, tMap: 13, tSet: 14, tList: 15}
var cmpCode = map[tkind]byte{tBool: 2, tI8: 3, tI16: 4, tI32: 5, tI64: 6, tInt: 6, tF64: 7, tStr: 8, tBytes: 8, tList: 9, tSet: 10, tMap: 11, tStruct: 12}

func baseT(t *tty) *tty {
	for t.k == tPtr {
		t = t.elem
	}
	return t
}

func (e *specEnc) code(t *tty) byte {
	if e.compact || e.devTypeCodes {
		return cmpCode[baseT(t).k]
	}
	return binCode[baseT(t).k]
}

func (e *specEnc) uvarint(u uint64) {
	var b [10]byte
	n := binary.PutUvarint(b[:], u)
	e.buf.Write(b[:n])
}
func (e *specEnc) zigzag(i int64) { e.uvarint(uint64(i<<1) ^ uint64(i>>63)) }

func (e *specEnc) value(t *tty, v *tval, enum bool) {
	for t.k == tPtr {
		if v.isnil {
			v = tzero(t.elem)
		} else {
			v = v.elem
		}
		t = t.elem
	}
	switch t.k {
	case tBool:
		if v.b {
			e.buf.WriteByte(1)
		} else {
			e.buf.WriteByte(0)
		}
	case tI8:
		if enum {
			e.i32(int32(v.i))
		} else {
			e.buf.WriteByte(byte(v.i))
		}
	case tI16:
		if enum {
			e.i32(int32(v.i))
		} else if e.compact {
			e.zigzag(v.i)
		} else {
			binary.Write(&e.buf, binary.BigEndian, int16(v.i))
		}
	case tI32:
		e.i32(int32(v.i))
	case tI64, tInt:
		if enum {
			e.i32(int32(v.i))
		} else if e.compact {
			e.zigzag(v.i)
		} else {
			binary.Write(&e.buf, binary.BigEndian, v.i)
		}
	case tF64:
		if e.compact && !e.devDoubleBE {
			binary.Write(&e.buf, binary.LittleEndian, v.f)
		} else {
			binary.Write(&e.buf, binary.BigEndian, v.f)
		}
	case tStr, tBytes:
		if e.compact {
			e.uvarint(uint64(len(v.s)))
		} else {
			binary.Write(&e.buf, binary.BigEndian, int32(len(v.s)))
		}
		e.buf.Write(v.s)
	case tList:
		e.listHeader(e.code(t.elem), len(v.elems))
		for _, x := range v.elems {
			e.value(t.elem, x, false)
		}
	case tSet:
		e.listHeader(e.code(t.key), len(v.keys))
		for _, x := range v.keys {
			e.value(t.key, x, false)
		}
	case tMap:
		if e.compact {
			e.uvarint(uint64(len(v.keys)))
			if len(v.keys) > 0 {
				e.buf.WriteByte(e.code(t.key)<<4 | e.code(t.elem))
			}
		} else {
			e.buf.WriteByte(e.code(t.key))
			e.buf.WriteByte(e.code(t.elem))
			binary.Write(&e.buf, binary.BigEndian, int32(len(v.keys)))
		}
		for i := range v.keys {
			e.value(t.key, v.keys[i], false)
			e.value(t.elem, v.elems[i], false)
		}
	case tStruct:
		e.structValue(t, v)
	}
}

func (e *specEnc) i32(i int32) {
	if e.compact {
		e.zigzag(int64(i))
	} else {
		binary.Write(&e.buf, binary.BigEndian, i)
	}
}

func (e *specEnc) listHeader(code byte, n int) {
	if e.compact {
		if code == 2 && e.alt != 0 && e.long() {
			code = 1 // a list or set of bools may announce element type 1 (TRUE) as well as 2: both are conformant
		}
		if n < 15 && !e.long() {
			e.buf.WriteByte(byte(n)<<4 | code)
		} else {
			e.buf.WriteByte(0xF0 | code)
			e.uvarint(uint64(n))
		}
	} else {
		e.buf.WriteByte(code)
		binary.Write(&e.buf, binary.BigEndian, int32(n))
	}
}

func tIsZero(t *tty, v *tval) bool {
	switch t.k {
	case tBool:
		return !v.b
	case tI8, tI16, tI32, tI64, tInt:
		return v.i == 0
	case tF64:
		return v.f == 0 || v.f == 1<<63 // IsZero compares with ==: -0 is zero
	case tStr:
		return len(v.s) == 0
	case tBytes, tList, tSet, tMap, tPtr:
		return v.isnil
	case tStruct:
		for i, f := range t.fields {
			if !tIsZero(f.t, v.elems[i]) {
				return false
			}
		}
		return true
	}
	return false
}

func (e *specEnc) structValue(t *tty, v *tval) {
	idx := make([]int, len(t.fields))
	for i := range idx {
		idx[i] = i
	}
	sort.SliceStable(idx, func(a, b int) bool { return t.fields[idx[a]].id < t.fields[idx[b]].id })
	last := 0
	for _, i := range idx {
		f, fv := t.fields[i], v.elems[i]
		// same selection of fields as the package documents: nil pointers and zero-valued non-required fields are not written
		if f.t.k == tPtr && fv.isnil {
			continue
		}
		if !f.required && tIsZero(f.t, fv) {
			continue
		}
		code := e.code(f.t)
		bt := baseT(f.t)
		if f.enum && !e.devEnumWidth && (bt.k == tI8 || bt.k == tI16 || bt.k == tI64 || bt.k == tInt) {
			code = e.code(&tty{k: tI32}) // thrift enums are i32 on the wire, header included
		}
		if e.compact {
			isBool := bt.k == tBool
			if isBool {
				bv := fv
				for tt := f.t; tt.k == tPtr; tt = tt.elem {
					bv = bv.elem
				}
				if bv.b {
					code = 1
				} else {
					code = 2
				}
			}
			if d := f.id - last; d > 0 && d <= 15 && !e.long() {
				e.buf.WriteByte(byte(d)<<4 | code)
			} else {
				e.buf.WriteByte(code)
				e.zigzag(int64(f.id))
			}
			if !isBool {
				e.value(f.t, fv, f.enum)
			}
		} else {
			e.buf.WriteByte(code)
			binary.Write(&e.buf, binary.BigEndian, int16(f.id))
			e.value(f.t, fv, f.enum)
		}
		last = f.id
	}
	e.buf.WriteByte(0)
	if !e.compact && e.devStop3 {
		e.buf.Write([]byte{0, 0})
	}
}

func tEncode(t *tty, v *tval, p string) {
	if !mine() {
		skip()
		return
	}
	trace("t.enc", t.String()+"|"+v.String()+"|"+p)
	impl := guarded(func() string {
		x := t.toGo(v).Addr().Interface()
		b, err := thrift.Marshal(tproto(p), x)
		if err != nil {
			return "err"
		}
		return hexs(b)
	})
	e := &specEnc{compact: p == "c"}
	e.value(t, v, false)
	spec := hexs(e.buf.Bytes())
	orc := spec
	if impl != spec {
		// does it differ from the specification only by the recorded deviations?
		d := &specEnc{compact: p == "c", devTypeCodes: true, devStop3: true, devDoubleBE: true, devEnumWidth: true}
		d.value(t, v, false)
		if dev := hexs(d.buf.Bytes()); dev == impl {
			var names []string
			for _, k := range []string{"typecodes", "stop3", "doublebe", "enumwidth"} {
				x := &specEnc{compact: p == "c", devTypeCodes: k == "typecodes", devStop3: k == "stop3", devDoubleBE: k == "doublebe", devEnumWidth: k == "enumwidth"}
				x.value(t, v, false)
				if hexs(x.buf.Bytes()) != spec {
					names = append(names, k)
				}
			}
			orc = "spec=" + spec + " known-deviations=" + strings.Join(names, ",")
		}
	}
	emit("t.enc"+tFnSuffix, t.String()+"|"+v.String()+"|"+p, impl, orc)
}

func tErrClass(err error) string {
	var mf *thrift.MissingField
	var tm *thrift.TypeMismatch
	switch {
	case err == nil:
		return "nil"
	case err == io.EOF:
		return "eof"
	case errors.Is(err, io.ErrUnexpectedEOF):
		return "ueof"
	case errors.As(err, &mf):
		return "missing"
	case errors.As(err, &tm):
		return "mismatch"
	}
	return "other"
}

func tDecode(t *tty, b []byte, p string) { tDecodeExpect(t, b, p, "-") }

// plainReader implements io.Reader only (the protocol readers fall back to their slow paths) and delivers short reads
type plainReader struct {
	b     []byte
	chunk int
}

func (r *plainReader) Read(p []byte) (int, error) {
	if len(r.b) == 0 {
		return 0, io.EOF
	}
	n := r.chunk
	if n > len(p) {
		n = len(p)
	}
	if n > len(r.b) {
		n = len(r.b)
	}
	copy(p, r.b[:n])
	r.b = r.b[n:]
	return n, nil
}

func tDecodeExpect(t *tty, b []byte, p string, expect string) {
	if !mine() {
		skip()
		return
	}
	trace("t.dec", t.String()+"|"+hexs(b)+"|"+p)
	impl := guarded(func() string {
		y := reflect.New(t.goType())
		res := ""
		if err := thrift.Unmarshal(tproto(p), b, y.Interface()); err != nil {
			res = "err:" + tErrClass(err)
		} else {
			res = t.fromGo(y.Elem()).canon()
		}
		// the same bytes through a Decoder whose source is a plain io.Reader (no ReadByte, short reads): same outcome
		// (the trailing-bytes check belongs to Unmarshal only)
		if res != "err:other" {
			z := reflect.New(t.goType())
			res2 := ""
			if err := thrift.NewDecoder(tproto(p).NewReader(&plainReader{b: b, chunk: 1 + len(b)%3})).Decode(z.Interface()); err != nil {
				res2 = "err:" + tErrClass(err)
			} else {
				res2 = t.fromGo(z.Elem()).canon()
			}
			if res2 != res {
				return "READER-DIFFERS unmarshal=" + res + " decoder-over-plain-reader=" + res2
			}
		}
		return res
	})
	if expect == "-" && strings.HasPrefix(impl, "READER-DIFFERS") {
		expect = "the same outcome whatever io.Reader delivers the bytes"
	}
	emit("t.dec", t.String()+"|"+hexs(b)+"|"+p, impl, expect)
}

// tMissingID: the MissingField error names the required field that is absent (not an optional field or a gap in the
// ids below it)
func tMissingID(t *tty, b []byte, p string, want int) {
	if !mine() {
		skip()
		return
	}
	args := t.String() + "|" + hexs(b) + "|" + p
	trace("t.missid", args)
	impl := guarded(func() string {
		y := reflect.New(t.goType())
		err := thrift.Unmarshal(tproto(p), b, y.Interface())
		var mf *thrift.MissingField
		if errors.As(err, &mf) {
			return fmt.Sprintf("missing %d", mf.Field.ID)
		}
		return "err:" + tErrClass(err)
	})
	emit("t.missid", args, impl, fmt.Sprintf("missing %d", want))
}

// tStrict: Decoder.Decode after SetStrict(true)
func tStrict(t *tty, b []byte, p string, expect string) {
	if !mine() {
		skip()
		return
	}
	args := t.String() + "|" + hexs(b) + "|" + p
	trace("t.strict", args)
	impl := guarded(func() string {
		y := reflect.New(t.goType())
		d := thrift.NewDecoder(tproto(p).NewReader(bytes.NewReader(b)))
		d.SetStrict(true)
		res := ""
		if err := d.Decode(y.Interface()); err != nil {
			res = "err:" + tErrClass(err)
		} else {
			res = t.fromGo(y.Elem()).canon()
		}
		// strict mode is a property of the Decoder, not of the reader: the same bytes after Reset (same protocol, and
		// coming from a reader of the other protocol) give the same outcome
		for _, from := range []string{p, map[string]string{"c": "bs", "bs": "c", "bn": "c"}[p]} {
			d2 := thrift.NewDecoder(tproto(from).NewReader(bytes.NewReader(nil)))
			d2.SetStrict(true)
			d2.Reset(tproto(p).NewReader(bytes.NewReader(b)))
			z := reflect.New(t.goType())
			res2 := ""
			if err := d2.Decode(z.Interface()); err != nil {
				res2 = "err:" + tErrClass(err)
			} else {
				res2 = t.fromGo(z.Elem()).canon()
			}
			if res2 != res {
				return "STRICT-AFTER-RESET-DIFFERS fresh=" + res + " reset=" + res2
			}
		}
		return res
	})
	emit("t.strict", args, impl, expect)
}

// nested strict mismatches: the narrow type expects i32 / list of i32 where the wide type wrote a string / i64
func c08StrictNested() {
	pairs := [][2]string{
		{"(struct (f 1 0 (list (struct (f 1 0 i32)))))", "(struct (f 1 0 (list (struct (f 1 4 str)))))"}, // flag 4: required, so the field is on the wire even when zero
		{"(struct (f 1 0 (list (list i32))))", "(struct (f 1 0 (list (list i64))))"},
		{"(struct (f 1 0 (map str (struct (f 2 0 i16)))))", "(struct (f 1 0 (map str (struct (f 2 4 str)))))"},
		{"(struct (f 1 0 (struct (f 1 0 (list (struct (f 3 0 bool)))))))", "(struct (f 1 0 (struct (f 1 0 (list (struct (f 3 4 i64)))))))"},
		{"(struct (f 1 0 (set i32)))", "(struct (f 1 0 (set str)))"},
	}
	g := tgenerator()
	for _, pr := range pairs {
		nt, wt := ttyFromSx(parseSx(pr[0])), ttyFromSx(parseSx(pr[1]))
		for k := 0; k < 6; k++ {
			wv := g.value(wt, true)
			if wv.multiEntry() || tIsZero(wt, wv) || strings.Contains(wv.canon(), "(l)") || strings.Contains(wv.canon(), "(e )") || strings.Contains(wv.canon(), "(m )") {
				continue // the mismatching part must be on the wire
			}
			for _, p := range tprotos {
				if wb, err := thrift.Marshal(tproto(p), wt.toGo(wv).Addr().Interface()); err == nil {
					tStrict(nt, wb, p, "err:mismatch")
				}
			}
		}
	}
}

// widen returns a struct type with extra fields (ids unused by t) of assorted types, and a value of it
// whose t-part is v: decoding its encoding into t must skip the extra fields.
func widen(g *tgen, t *tty, v *tval) (*tty, *tval) {
	used := map[int]bool{}
	for _, f := range t.fields {
		used[f.id] = true
	}
	wt := &tty{k: tStruct, fields: append([]tfield(nil), t.fields...)}
	wv := &tval{k: tStruct, elems: append([]*tval(nil), v.elems...)}
	extra := []string{"bool", "bool", "i8", "i16", "i32", "i64", "f64", "str", "bytes", "(list bool)", "(list (struct (f 1 0 bool) (f 2 0 str)))",
		"(set i32)", "(map str (list i64))", "(struct (f 1 0 bool) (f 300 0 (struct (f 2 0 bool))))", "(map bool bool)"}
	n := 1 + rndn(4)
	for i := 0; i < n; i++ {
		id := 1 + rndn(300)
		for used[id] {
			id++
		}
		used[id] = true
		et := ttyFromSx(parseSx(pick(extra)))
		ev := g.value(et, true)
		if tIsZero(et, ev) { // make sure it is written
			ev = g.value(et, true)
		}
		wt.fields = append(wt.fields, tfield{id: id, required: true, t: et})
		wv.elems = append(wv.elems, ev)
	}
	return wt, wv
}

var c04Fixed = []string{
	"(struct (f 1 0 i32) (f 70 0 i32))",
	"(struct (f 1 4 bool) (f 2 0 bool) (f 3 0 (ptr bool)) (f 40 0 bool))",
	"(struct (f 1 0 (list bool)) (f 2 0 (map bool bool)) (f 3 0 (set bool)))",
	"(struct (f 5 0 f64) (f 200 4 str) (f 16 0 bytes))",
	"(struct (f 1 0 (struct (f 1 0 (struct (f 1 0 i8))))) (f 2 0 (ptr (struct (f 3 0 i64)))))",
	"(struct (f 1 0 (list (list i16))) (f 2 0 (map str (list i32))))",
	"(struct)",
}

// retype returns a struct type equal to t except that one declared field carries a different thrift type (or, for a
// collection, different item types), a value of it, and the value t must decode to in non-strict mode: the retyped
// field is skipped (zero value) and every other field is unaffected.
func retype(g *tgen, t *tty, v *tval) (*tty, *tval, *tval) {
	if t.k != tStruct || len(t.fields) == 0 {
		return nil, nil, nil
	}
	i := rndn(len(t.fields))
	f := t.fields[i]
	if f.enum {
		return nil, nil, nil
	}
	bt := baseT(f.t)
	var cands []string
	switch bt.k {
	case tList:
		cands = []string{"(list i64)", "(list str)", "(list (struct (f 1 0 bool)))"}
	case tSet:
		cands = []string{"(set i64)", "(set str)"}
	case tMap:
		cands = []string{"(map str i64)", "(map i64 str)", "(map i32 (list bool))"}
	}
	if len(cands) == 0 || rndBool() {
		cands = []string{"bool", "i8", "i16", "i32", "i64", "f64", "str", "(list bool)", "(set i32)", "(map str (list i64))", "(struct (f 1 0 bool) (f 300 0 (struct (f 2 0 bool))))"}
	}
	et := ttyFromSx(parseSx(pick(cands)))
	same := cmpCode[baseT(et).k] == cmpCode[bt.k]
	if same && f.t.k == tPtr {
		return nil, nil, nil // the pointer is allocated before the item types are compared: not a zero value
	}
	if same {
		switch bt.k { // same wire type: the item types must differ
		case tList:
			same = cmpCode[baseT(et.elem).k] == cmpCode[baseT(bt.elem).k]
		case tSet:
			same = cmpCode[baseT(et.key).k] == cmpCode[baseT(bt.key).k]
		case tMap:
			same = cmpCode[baseT(et.key).k] == cmpCode[baseT(bt.key).k] && cmpCode[baseT(et.elem).k] == cmpCode[baseT(bt.elem).k]
		}
	}
	if same {
		return nil, nil, nil
	}
	ev := g.value(et, true)
	if tIsZero(et, ev) || ev.multiEntry() {
		return nil, nil, nil
	}
	if bet := baseT(et); (bet.k == tList || bet.k == tSet || bet.k == tMap) && len(ev.elems)+len(ev.keys) == 0 {
		return nil, nil, nil // an empty collection carries no items whose type could mismatch
	}
	rt := &tty{k: tStruct, fields: append([]tfield(nil), t.fields...)}
	rt.fields[i] = tfield{id: f.id, required: true, t: et}
	rv := &tval{k: tStruct, elems: append([]*tval(nil), v.elems...)}
	rv.elems[i] = ev
	want := &tval{k: tStruct, elems: append([]*tval(nil), v.elems...)}
	want.elems[i] = tzero(f.t)
	return rt, rv, want
}

func tgenerator() *tgen { return &tgen{maxDepth: 3} }

func tTypes(n int) []*tty {
	g := tgenerator()
	var types []*tty
	for _, s := range c04Fixed {
		types = append(types, ttyFromSx(parseSx(s)))
	}
	for i := 0; i < n; i++ {
		types = append(types, g.structType(0))
	}
	return types
}

func c04() {
	g := tgenerator()
	n, nv := 300, 5
	if *tier == "thorough" {
		n, nv = 3000, 10
	}
	for _, t := range tTypes(n) {
		for j := 0; j < nv; j++ {
			v := g.value(t, false)
			if j == 0 {
				v = tzeroSet(t)
			}
			for _, p := range tprotos {
				tRoundTrip(t, v, p)
				if j < 2 {
					tReset(t, v, p)
				}
			}
		}
	}
	c04Embedded()
	c04Recursive()
	c04LongLists()
	c04LongStringsAndEnums()
	c04Void()
}

// tDecodeAlt: every specification-conformant encoding of the same content is accepted with the same result: the
// compact encoding with long-form field and list/set headers where a short form exists (all long, or mixed). The
// recorded deviations of the package (big-endian compact doubles) are reproduced, as in tEncode.
func tDecodeAlt(t *tty, v *tval, alt uint64) {
	e := &specEnc{compact: true, devDoubleBE: true, devEnumWidth: true, alt: alt}
	e.value(t, v, false)
	tDecodeExpect(t, e.buf.Bytes(), "c", v.canon())
}

func c13() {
	g := tgenerator()
	n, nv := 300, 5
	if *tier == "thorough" {
		n, nv = 3000, 10
	}
	c04Enums(true)
	c13Messages()
	for _, t := range tTypes(n) {
		for j := 0; j < nv; j++ {
			v := g.value(t, false)
			if v.multiEntry() {
				continue
			}
			for _, p := range tprotos {
				tEncode(t, v, p)
			}
			tDecodeAlt(t, v, 1)
			tDecodeAlt(t, v, 2+rnd()>>1)
			// conformant input carrying fields the reader does not declare (any type and nesting, bool included) is
			// accepted with the same result, in both protocols and in the long-form compact encodings
			wt, wv := widen(g, t, v)
			for _, p := range tprotos {
				if wb, err := thrift.Marshal(tproto(p), wt.toGo(wv).Addr().Interface()); err == nil {
					tDecodeExpect(t, wb, p, v.canon())
				}
			}
			we := &specEnc{compact: true, devDoubleBE: true, devEnumWidth: true, alt: 2 + rnd()>>1}
			we.value(wt, wv, false)
			tDecodeExpect(t, we.buf.Bytes(), "c", v.canon())
			if j < 2 {
				// an Encoder first used on ANOTHER protocol's Writer and then Reset writes the bytes of a fresh one
				// (the protocol features are re-read from the new Writer)
				for _, p := range tprotos {
					tReset(t, v, p)
				}
			}
		}
	}
}

func c08() {
	g := tgenerator()
	n := 150
	if *tier == "thorough" {
		n = 1500
	}
	for _, t := range tTypes(n) {
		v := g.value(t, false)
		for _, p := range tprotos {
			x := t.toGo(v).Addr().Interface()
			b, err := thrift.Marshal(tproto(p), x)
			if err != nil {
				continue
			}
			tDecodeExpect(t, b, p, v.canon())
			// every proper prefix: unexpected EOF (plain EOF only for the empty input)
			if len(b) <= 150 {
				for l := 0; l < len(b); l++ {
					if l == 0 {
						tDecodeExpect(t, b[:l], p, "err:eof")
					} else {
						tDecodeExpect(t, b[:l], p, "err:ueof")
					}
				}
			}
			// trailing bytes are reported
			tDecodeExpect(t, append(append([]byte(nil), b...), 0), p, "err:other")
			// undeclared fields of any type and nesting are skipped
			wt, wv := widen(g, t, v)
			if wb, err := thrift.Marshal(tproto(p), wt.toGo(wv).Addr().Interface()); err == nil {
				tDecodeExpect(t, wb, p, v.canon())
			}
			// a declared field carrying another type (non-strict mode): skipped, the other fields unaffected
			for k := 0; k < 3; k++ {
				if rt, rv, want := retype(g, t, v); rt != nil {
					if rb, err := thrift.Marshal(tproto(p), rt.toGo(rv).Addr().Interface()); err == nil {
						tDecodeExpect(t, rb, p, want.canon())
					}
				}
			}
			// strict mode (Decoder.SetStrict): a wrong wire type anywhere -- in a field, or in the items of a list of
			// structs / list of lists -- is a TypeMismatch; without it the same bytes decode with the part skipped
			for k := 0; k < 2; k++ {
				if rt, rv, _ := retype(g, t, v); rt != nil {
					if rb, err := thrift.Marshal(tproto(p), rt.toGo(rv).Addr().Interface()); err == nil {
						tStrict(t, rb, p, "err:mismatch")
					}
				}
			}
			tStrict(t, b, p, v.canon())
			// a missing required field is reported
			for i, f := range t.fields {
				if f.required {
					nt := &tty{k: tStruct, fields: append(append([]tfield(nil), t.fields[:i]...), t.fields[i+1:]...)}
					nv := &tval{k: tStruct, elems: append(append([]*tval(nil), v.elems[:i]...), v.elems[i+1:]...)}
					if nb, err := thrift.Marshal(tproto(p), nt.toGo(nv).Addr().Interface()); err == nil {
						tDecodeExpect(t, nb, p, "err:missing")
						tMissingID(t, nb, p, f.id)
					}
					break
				}
			}
			// mutations and random bytes: any outcome but a panic / fault / runaway allocation
			for k := 0; k < 10 && len(b) > 0; k++ {
				m := append([]byte(nil), b...)
				pos := rndn(len(m))
				switch rndn(4) {
				case 0:
					m[pos] = byte(rnd())
				case 1:
					m[pos] = pick([]byte{0xff, 0x7f, 0x80, 0x00, 0x0f, 0xf0})
				case 2:
					m = append(m[:pos], append([]byte{0xff, 0xff, 0xff, 0xff, 0x0f}, m[pos:]...)...)
				case 3:
					m = append(m[:pos], m[pos+1:]...)
				}
				tDecode(t, m, p)
			}
			tDecode(t, rndBytes(16), p)
		}
	}
	c08StrictNested()
	// negative element counts (binary protocol) are rejected on every path: a collection the reader skips (an
	// undeclared field, or a declared collection of another item type) as well as one it decodes
	for _, c := range [][2]string{
		{"(struct (f 1 0 i32))", "09000503ffffffff000000"},        // unknown list field, size -1
		{"(struct (f 1 0 i32))", "0a00050380000000000000"},        // unknown set field, size MinInt32
		{"(struct (f 1 0 i32))", "0b00050303ffffffff000000"},      // unknown map field, size -1
		{"(struct (f 1 0 (list str)))", "09000103ffffffff000000"}, // declared list<str>, wire list<i8> of size -1
		{"(struct (f 1 0 (list i8)))", "09000103ffffffff000000"},  // declared and wire list<i8>, size -1
		{"(struct (f 1 0 (map i8 i8)))", "0b00010303fffffffe000000"},
	} {
		for _, p := range []string{"bs", "bn"} {
			tDecodeExpect(ttyFromSx(parseSx(c[0])), unhex(c[1]), p, "err:other")
		}
	}
	c08LongTruncated()
	c08DeepUnknown()
	_ = fmt.Sprint
}

// tzeroSet: the zero value, except that required pointer fields are set (to pointers to zero values)
func tzeroSet(t *tty) *tval {
	v := tzero(t)
	if t.k == tStruct {
		for i, f := range t.fields {
			v.elems[i] = tzeroSet(f.t)
			if f.required && f.t.k == tPtr {
				v.elems[i] = &tval{k: tPtr, elem: tzeroSet(f.t.elem)}
			}
		}
	}
	return v
}
