//go:build verif && c06

package main

// C06 -- no public json entry point panics, faults, exhausts the stack or hangs.
//
// Architecture: `c06` is a SUPERVISOR. It re-executes this binary with the hidden sub-command
// `c06worker`, which generates and runs all cases in-process (fast). Before a case is run the worker
// records (case number, fn, args, oracle) in a trace file; when the worker dies (fatal stack overflow,
// memory fault: nothing a recover can intercept) or its watchdog reports a hang, the supervisor emits
// that case with impl `fatal <reason>` / `hang` and restarts the worker just after it. Cases that are
// EXPECTED to kill the process (known findings, fn suffix .deepnest / .selfref) are run the same way;
// any other case that kills the worker is an ordinary case and therefore a violation.
//
// Every case is a pure function of (fn, args): c06Prepare(fn, args) rebuilds it, which is also how the
// replayers work (each replayed case runs in its own child process).

import (
	"bufio"
	"bytes"
	stdjson "encoding/json"
	"errors"
	"fmt"
	"io"
	"os"
	"os/exec"
	"reflect"
	"sort"
	"strconv"
	"strings"
	"sync/atomic"
	"time"
	"unsafe"

	"github.com/segmentio/encoding/json"
)

var c06Bases = []string{"d.doc", "d.pre", "d.cor", "d.syn", "d.synpre", "d.syncor", "d.deep", "d.deepsyn",
	"e.val", "e.graph", "e.graphk", "e.deep", "e.rectype", "e.alias", "e.keys", "e.cycval"}
var c06Suffixes = []string{"", ".deepnest", ".selfref"}

func init() {
	register("c06", c06Supervisor)
	register("c06worker", c06Worker)
	register("c06one", c06One)
	for _, b := range c06Bases {
		for _, s := range c06Suffixes {
			name := b + s
			replayers[name] = func(a []string) { c06ReplayOne(name, strings.Join(a, " ")) }
		}
	}
}

// ---------------------------------------------------------------------------------------------
// supervisor / worker plumbing

const (
	c06TraceEnv  = "VERIF_C06_TRACE"
	c06ResumeEnv = "VERIF_C06_RESUME"
	c06HangLimit = 90 * time.Second
)

// fatalReason canonicalises what a dying Go process wrote on stderr.
func fatalReason(stderr string, err error) string {
	for _, ln := range strings.Split(stderr, "\n") {
		if strings.HasPrefix(ln, "fatal error: ") {
			return "fatal " + strings.TrimPrefix(ln, "fatal error: ")
		}
		if strings.HasPrefix(ln, "C06-HANG") {
			return "hang"
		}
		if strings.HasPrefix(ln, "panic: ") {
			return "fatal unrecovered " + clip(ln, 80)
		}
	}
	first := strings.SplitN(strings.TrimSpace(stderr), "\n", 2)[0]
	if first == "" && err != nil {
		first = err.Error()
	}
	return "fatal " + clip(first, 80)
}

func clip(s string, n int) string {
	s = strings.Map(func(r rune) rune {
		if r == '\t' || r == '\n' || r == '\r' {
			return ' '
		}
		return r
	}, s)
	if len(s) > n {
		s = s[:n]
	}
	return s
}

type limitedBuf struct {
	b   []byte
	max int
}

func (l *limitedBuf) Write(p []byte) (int, error) {
	if room := l.max - len(l.b); room > 0 {
		if len(p) < room {
			room = len(p)
		}
		l.b = append(l.b, p[:room]...)
	}
	return len(p), nil
}

func c06Supervisor() {
	tf, err := os.CreateTemp("", "c06trace")
	if err != nil {
		fmt.Fprintln(os.Stderr, "c06: cannot create trace file:", err)
		os.Exit(1)
	}
	tf.Close()
	defer os.Remove(tf.Name())
	resume := 0
	for restarts := 0; ; restarts++ {
		if restarts > 400 {
			out.Flush()
			fmt.Fprintln(os.Stderr, "c06: too many worker restarts")
			os.Exit(1)
		}
		os.WriteFile(tf.Name(), nil, 0o600)
		cmd := exec.Command(os.Args[0], "-tier", *tier, "-seed", strconv.FormatUint(*seed, 10),
			"-shard", strconv.Itoa(*shard), "-nshard", strconv.Itoa(*nshard), "c06worker")
		cmd.Env = append(os.Environ(), c06TraceEnv+"="+tf.Name(), c06ResumeEnv+"="+strconv.Itoa(resume))
		se := &limitedBuf{max: 8192}
		cmd.Stderr = se
		so, _ := cmd.StdoutPipe()
		if err := cmd.Start(); err != nil {
			fmt.Fprintln(os.Stderr, "c06: cannot start worker:", err)
			os.Exit(1)
		}
		timer := time.AfterFunc(40*time.Minute, func() { cmd.Process.Kill() })
		rd := bufio.NewReaderSize(so, 1<<20)
		for {
			ln, rerr := rd.ReadString('\n')
			if strings.HasSuffix(ln, "\n") && strings.Count(ln, "\t") == 3 {
				out.WriteString(ln)
			}
			if rerr != nil {
				break
			}
		}
		werr := cmd.Wait()
		timer.Stop()
		if werr == nil {
			return
		}
		tb, _ := os.ReadFile(tf.Name())
		f := strings.Split(strings.TrimSuffix(string(tb), "\n"), "\t")
		no := 0
		if len(f) == 4 {
			no, _ = strconv.Atoi(f[0])
		}
		if len(f) != 4 || no <= resume {
			out.Flush()
			fmt.Fprintf(os.Stderr, "c06: worker died outside a case (%v): %s\n", werr, clip(string(se.b), 400))
			os.Exit(1)
		}
		fmt.Fprintf(out, "%s\t%s\t%s\t%s\n", f[1], f[2], fatalReason(string(se.b), werr), f[3])
		out.Flush()
		resume = no
	}
}

var (
	c06Resume    int
	c06TraceFile *os.File
	c06Started   atomic.Int64
)

func c06Worker() {
	c06Resume, _ = strconv.Atoi(os.Getenv(c06ResumeEnv))
	if name := os.Getenv(c06TraceEnv); name != "" {
		c06TraceFile, _ = os.OpenFile(name, os.O_WRONLY, 0o600)
	}
	go func() {
		for {
			time.Sleep(500 * time.Millisecond)
			if s := c06Started.Load(); s != 0 && time.Since(time.Unix(0, s)) > c06HangLimit {
				os.Stderr.WriteString("C06-HANG\n")
				os.Exit(3)
			}
		}
	}()
	c06Generate()
}

// c06Case runs one case in the worker.
func c06Case(fn, args string) {
	if !mine() || caseNo+1 <= c06Resume {
		skip()
		return
	}
	c := c06Prepare(fn, args)
	orc := c.oracle()
	trace(fn, args)
	if c06TraceFile != nil {
		c06TraceFile.Truncate(0)
		c06TraceFile.WriteAt([]byte(fmt.Sprintf("%d\t%s\t%s\t%s\n", caseNo+1, fn, args, orc)), 0)
	}
	c06Started.Store(time.Now().UnixNano())
	impl := c06Guard(c.impl)
	c06Started.Store(0)
	emit(fn, args, impl, orc)
	out.Flush()
}

// c06Guard turns a panic into the observable `panic <message>`.
func c06Guard(f func() string) (s string) {
	defer func() {
		if r := recover(); r != nil {
			s = "panic " + clip(fmt.Sprint(r), 100)
		}
	}()
	return f()
}

// c06One: hidden sub-command, runs the single case given on stdin and prints its line.
func c06One() {
	sc := bufio.NewScanner(os.Stdin)
	sc.Buffer(make([]byte, 1<<20), 1<<28)
	if !sc.Scan() {
		return
	}
	f := strings.SplitN(sc.Text(), "\t", 2)
	if len(f) != 2 {
		return
	}
	c := c06Prepare(f[0], f[1])
	orc := c.oracle()
	go func() {
		time.Sleep(c06HangLimit)
		os.Stderr.WriteString("C06-HANG\n")
		os.Exit(3)
	}()
	impl := c06Guard(c.impl)
	fmt.Fprintf(out, "%s\t%s\t%s\t%s\n", f[0], f[1], impl, orc)
	out.Flush()
}

func c06ReplayOne(fn, args string) {
	cmd := exec.Command(os.Args[0], "c06one")
	cmd.Stdin = strings.NewReader(fn + "\t" + args + "\n")
	se := &limitedBuf{max: 8192}
	cmd.Stderr = se
	o, err := cmd.Output()
	if err == nil {
		out.Write(o)
		return
	}
	orc := c06Prepare(fn, args).oracle() // oracles are constants or encoding/json: safe to evaluate here
	fmt.Fprintf(out, "%s\t%s\t%s\t%s\n", fn, args, fatalReason(string(se.b), err), orc)
}

func c06Split(fn string) (base, suffix string) {
	for _, s := range c06Suffixes[1:] {
		if strings.HasSuffix(fn, s) {
			return strings.TrimSuffix(fn, s), s
		}
	}
	return fn, ""
}

type c06case struct {
	oracle func() string
	impl   func() string
}

const noPanic = "nopanic"

func constOracle(s string) func() string { return func() string { return s } }

// c06Prepare rebuilds a case from its name and arguments.
func c06Prepare(fn, args string) *c06case {
	base, _ := c06Split(fn)
	p := strings.Split(args, "|")
	atoi := func(s string) int { n, _ := strconv.Atoi(s); return n }
	c := &c06case{oracle: constOracle(noPanic)}
	switch base {
	case "d.doc":
		c.impl = func() string { return decodeOnce(jType(parseSx(p[0])), p[1], atoi(p[2]), unhex(p[3])) }
	case "d.pre":
		c.impl = func() string {
			rt, doc := jType(parseSx(p[0])), unhex(p[3])
			return overPrefixes(doc, func(d []byte) string { return decodeOnce(rt, p[1], atoi(p[2]), d) })
		}
	case "d.cor":
		c.impl = func() string {
			rt, doc := jType(parseSx(p[0])), unhex(p[3])
			return overCorruptions(doc, func(d []byte) string { return decodeOnce(rt, p[1], atoi(p[2]), d) })
		}
	case "d.syn":
		c.impl = func() string { return syntaxOnce(unhex(p[0])) }
	case "d.synpre":
		c.impl = func() string { return overPrefixes(unhex(p[0]), syntaxOnce) }
	case "d.syncor":
		c.impl = func() string { return overCorruptions(unhex(p[0]), syntaxOnce) }
	case "d.deep":
		c.impl = func() string { return decodeOnce(jType(parseSx(p[0])), p[1], 0, deepDoc(p[2], atoi(p[3]))) }
	case "d.deepsyn":
		c.impl = func() string { return syntaxOnce(deepDoc(p[0], atoi(p[1]))) }
	case "e.keys":
		c.oracle = func() string { return keyCase(p[0], true) }
		c.impl = func() string { return keyCase(p[0], false) }
	case "e.val":
		c.impl = func() string {
			seed, _ := strconv.ParseUint(p[1], 10, 64)
			return encodeValue(parseSx(p[0]), seed, atoi(p[2]), atoi(p[3]))
		}
	case "e.graph":
		c.oracle = func() string { return coarse(graphVerdict(p[2], atoi(p[1]), atoi(p[0]), true)) }
		c.impl = func() string { return coarse(graphVerdict(p[2], atoi(p[1]), atoi(p[0]), false)) }
	case "e.graphk":
		c.oracle = constOracle("-")
		c.impl = func() string { return graphVerdict(p[2], atoi(p[1]), atoi(p[0]), false) }
	case "e.deep":
		c.impl = func() string { return encodeDeep(p[0], atoi(p[1]), atoi(p[2])) }
	case "e.rectype":
		c.impl = func() string { return recType(p[0]) }
	case "e.cycval":
		c.oracle = func() string { return cycVal(p[0], atoi(p[1]), true) }
		c.impl = func() string { return cycVal(p[0], atoi(p[1]), false) }
	case "e.alias":
		c.oracle = func() string { return aliasCase(atoi(p[0]), atoi(p[1]), true) }
		c.impl = func() string { return aliasCase(atoi(p[0]), atoi(p[1]), false) }
	default:
		panic("c06: unknown case " + fn)
	}
	return c
}

// ---------------------------------------------------------------------------------------------
// decode side

// prepopulated target: a value of the type filled from a seed (maps with entries, non-nil pointers,
// interfaces holding pointers, slices with spare capacity), so that decoding starts from arbitrary prior state
func newTarget(rt reflect.Type, pre int) reflect.Value {
	t := reflect.New(rt)
	if pre != 0 {
		func() {
			defer func() { recover() }()
			jFill(t.Elem(), &vrng{s: uint64(pre)}, 0, 0)
		}()
	}
	return t
}

var parseFlagSets = []json.ParseFlags{0, json.ZeroCopy, json.UseNumber, json.DisallowUnknownFields, json.DontMatchCaseInsensitiveStructFields,
	json.UseBigInt, json.UseInt64, json.UseUint64, json.UseInt64 | json.UseUint64 | json.UseBigInt | json.UseNumber, 0x1ff}

// decodeOnce runs one decoding entry point. cfg:
//
//	u            Unmarshal(doc, &target)
//	v            Unmarshal(doc, target) with the target passed BY VALUE (must be refused, not crash)
//	n            Unmarshal(doc, nil), Unmarshal(doc, (*T)(nil))
//	p<flags>     Parse(doc, &target, flags), repeated on the remainder while it makes progress
//	s<mode>:<o>  Decoder over a scripted reader (all/one/z/rK/dataerr, optional +<failAt>), option bits o
//
// The decoded target is then re-encoded with both libraries (a corrupted target is most likely to show there).
func decodeOnce(rt reflect.Type, cfg string, pre int, doc []byte) string {
	target := newTarget(rt, pre)
	input := append([]byte(nil), doc...) // decoders may alias the input (zero copy): never hand out shared bytes
	switch cfg[0] {
	case 'u':
		json.Unmarshal(input, target.Interface())
	case 'v':
		json.Unmarshal(input, target.Elem().Interface())
	case 'n':
		json.Unmarshal(input, nil)
		json.Unmarshal(input, reflect.Zero(reflect.PointerTo(rt)).Interface())
	case 'p':
		fl, _ := strconv.ParseUint(cfg[1:], 10, 32)
		rest := input
		for i := 0; i < 64; i++ {
			r, err := json.Parse(rest, target.Interface(), json.ParseFlags(fl))
			if err != nil || len(r) >= len(rest) || len(r) == 0 {
				break
			}
			if len(r) > len(rest) {
				return "panic Parse returned a remainder longer than its input"
			}
			rest = r
		}
	case 's':
		mo := strings.SplitN(cfg[1:], ":", 2)
		mode, failAt := mo[0], -1
		if i := strings.IndexByte(mode, '+'); i >= 0 {
			failAt, _ = strconv.Atoi(mode[i+1:])
			mode = mode[:i]
		}
		opts, _ := strconv.Atoi(mo[1])
		dec := json.NewDecoder(&scriptReader{data: input, mode: mode, failAt: failAt})
		if opts&1 != 0 {
			dec.UseNumber()
		}
		if opts&2 != 0 {
			dec.DisallowUnknownFields()
		}
		if opts&4 != 0 {
			dec.ZeroCopy()
		}
		if opts&8 != 0 {
			dec.DontMatchCaseInsensitiveStructFields()
		}
		if opts&16 != 0 {
			dec.DontCopyString()
			dec.DontCopyNumber()
			dec.DontCopyRawMessage()
		}
		for i := 0; i < 64; i++ {
			err := dec.Decode(target.Interface())
			dec.InputOffset()
			if opts&32 != 0 {
				io.Copy(io.Discard, dec.Buffered())
			}
			if err != nil {
				dec.Decode(target.Interface())
				dec.Decode(nil)
				break
			}
		}
	}
	// use the result: reading a corrupted value is where a memory fault would show
	if cfg[0] != 'n' {
		reencode(target)
	}
	return noPanic
}

func reencode(target reflect.Value) {
	func() {
		defer func() { recover() }() // encoding/json may panic on values it does not support; not our concern
		stdjson.Marshal(target.Interface())
	}()
	json.Marshal(target.Interface())
}

func overPrefixes(doc []byte, f func([]byte) string) string {
	for i := 0; i <= len(doc); i++ {
		if r := c06Guard(func() string { return f(doc[:i:i]) }); r != noPanic {
			return fmt.Sprintf("%s @prefix %d", r, i)
		}
	}
	return noPanic
}

var corruptBytes = []byte("\"\\{}[],:09-.etnu \x00\x7f\x80\xff")

func overCorruptions(doc []byte, f func([]byte) string) string {
	try := func(what string, i int, d []byte) string {
		if r := c06Guard(func() string { return f(d) }); r != noPanic {
			return fmt.Sprintf("%s @%s %d %s", r, what, i, hexs(d))
		}
		return ""
	}
	for i := range doc {
		for _, c := range corruptBytes {
			if c == doc[i] {
				continue
			}
			d := append([]byte(nil), doc...)
			d[i] = c
			if r := try("replace", i, d); r != "" {
				return r
			}
		}
		d := append(append([]byte(nil), doc[:i]...), doc[i+1:]...)
		if r := try("delete", i, d); r != "" {
			return r
		}
		for _, c := range []byte("\"\\{[,") {
			d := append(append(append([]byte(nil), doc[:i]...), c), doc[i:]...)
			if r := try("insert", i, d); r != "" {
				return r
			}
		}
	}
	return noPanic
}

// syntaxOnce runs every entry point that takes bytes and no target.
func syntaxOnce(doc []byte) string {
	in := func() []byte { return append([]byte(nil), doc...) }
	json.Valid(in())
	// Tokenizer with every accessor on every token
	t := json.NewTokenizer(in())
	steps := 0
	for t.Next() {
		steps++
		if steps > len(doc)+2 {
			return "panic tokenizer does not terminate"
		}
		tokenAccessors(t)
	}
	tokenAccessors(t)
	for i := 0; i < 2; i++ {
		if t.Next() && t.Err != nil {
			return "panic Next after error"
		}
	}
	t.Reset(in())
	for i := 0; i < 3 && t.Next(); i++ {
		tokenAccessors(t)
	}
	t.Reset(nil)
	t.Next()
	var buf bytes.Buffer
	json.Compact(&buf, in())
	buf.Reset()
	json.Indent(&buf, in(), ">", "\t")
	buf.Reset()
	json.HTMLEscape(&buf, in())
	json.Unescape(in())
	json.AppendUnescape([]byte("x"), in(), json.ZeroCopy)
	json.Escape(string(doc))
	json.AppendEscape([]byte("x"), string(doc), json.EscapeHTML)
	json.AppendEscape(nil, string(doc), 0)
	rv := json.RawValue(in())
	rv.String()
	rv.Null()
	rv.True()
	rv.False()
	rv.Number()
	// RawMessage and Number members validate their content when encoded
	json.Marshal(json.RawMessage(in()))
	json.Marshal(json.Number(string(doc)))
	json.Append(nil, json.RawMessage(in()), json.TrustRawMessage)
	var rm json.RawMessage
	json.Unmarshal(in(), &rm)
	var skipAll struct{}
	json.Unmarshal(in(), &skipAll)
	return noPanic
}

func tokenAccessors(t *json.Tokenizer) {
	k := t.Kind()
	k.Class()
	t.String()
	t.Int()
	t.Uint()
	t.Float()
	t.Bool()
	t.Remaining()
	rv := json.RawValue(t.Value)
	rv.String()
	rv.Number()
	rv.Null()
	rv.True()
	rv.False()
}

// deepDoc builds a document with n nesting levels.
func deepDoc(shape string, n int) []byte {
	rep := func(s string) []byte { return bytes.Repeat([]byte(s), n) }
	cat := func(parts ...[]byte) []byte { return bytes.Join(parts, nil) }
	switch shape {
	case "arr":
		return cat(rep("["), []byte("1"), rep("]"))
	case "arropen":
		return rep("[")
	case "arrws":
		return cat(rep("[ "), rep(" ]"))
	case "obj":
		return cat(rep(`{"a":`), []byte("null"), rep("}"))
	case "objopen":
		return rep(`{"a":`)
	case "mixed":
		return cat(rep(`[{"A":`), []byte(`"x"`), rep("}]"))
	case "mixedopen":
		return rep(`[{"A":`)
	case "strbr":
		return cat([]byte(`"`), rep("[{"), []byte(`"`))
	case "strbropen":
		return cat([]byte(`"`), rep("[{"))
	case "arrstr":
		return cat(rep("["), []byte(`"`), rep("["), []byte(`"`), rep("]"))
	case "unknown":
		return cat([]byte(`{"zzz":`), rep("["), rep("]"), []byte(`,"A":1}`))
	case "unknownopen":
		return cat([]byte(`{"zzz":`), rep(`{"a":[`))
	case "close":
		return rep("]")
	case "wide":
		return cat([]byte("["), rep("[],"), []byte("[]]"))
	case "esc":
		return cat([]byte(`"`), rep(`\\`), []byte(`"`))
	case "escopen":
		return cat([]byte(`"`), rep(`\`))
	case "digits":
		return rep("9")
	case "frac":
		return cat([]byte("0."), rep("0"), []byte("1e-"), rep("9"))
	}
	panic("c06: unknown deep shape " + shape)
}

// ---------------------------------------------------------------------------------------------
// encode side: random values

type errWriter struct{ n int }

func (w *errWriter) Write(p []byte) (int, error) {
	if w.n -= len(p); w.n < 0 {
		return 0, errors.New("write failed")
	}
	return len(p), nil
}

func encodeAll(x any) {
	json.Marshal(x)
	json.MarshalIndent(x, ">", "  ")
	prefix := make([]byte, 3, 3) // no spare capacity
	json.Append(prefix, x, 0)
	json.Append(nil, x, json.EscapeHTML|json.SortMapKeys|json.TrustRawMessage)
	json.Append(make([]byte, 0, 4096), x, json.SortMapKeys)
	var buf bytes.Buffer
	enc := json.NewEncoder(&buf)
	enc.Encode(x)
	enc.SetEscapeHTML(false)
	enc.SetIndent("", " ")
	enc.SetSortMapKeys(false)
	enc.SetTrustRawMessage(true)
	enc.SetAppendNewline(false)
	enc.Encode(x)
	enc.Encode(x)
	fe := json.NewEncoder(&errWriter{n: 10})
	fe.Encode(x)
	fe.Encode(x)
}

// encodeValue: a value of the type, by value and by pointer, bare or stored inside interface-typed containers
func encodeValue(t *sx, seed uint64, errMode, wrap int) string {
	v := jValue(t, seed, errMode)
	var x, px any = v.Interface(), v.Addr().Interface()
	switch wrap {
	case 1:
		x, px = []any{x, px}, &[]any{px, x}
	case 2:
		x, px = map[string]any{"k": x}, &map[string]any{"k": px}
	case 3:
		x, px = struct{ A any }{x}, &struct{ A any }{px}
	case 4:
		x, px = [1]any{x}, &[1]any{px}
	case 5:
		y := x
		x, px = &y, &px
	case 6:
		at := reflect.ArrayOf(1, v.Type())
		a := reflect.New(at).Elem()
		a.Index(0).Set(v)
		st := reflect.StructOf([]reflect.StructField{{Name: "F", Type: v.Type()}})
		s := reflect.New(st).Elem()
		s.Field(0).Set(v)
		x, px = a.Interface(), s.Interface()
	case 7:
		mt := reflect.MapOf(reflect.TypeOf(""), v.Type())
		m := reflect.MakeMap(mt)
		m.SetMapIndex(reflect.ValueOf("k"), v)
		sl := reflect.MakeSlice(reflect.SliceOf(v.Type()), 2, 2)
		sl.Index(1).Set(v)
		x, px = m.Interface(), sl.Interface()
	}
	encodeAll(x)
	encodeAll(px)
	return noPanic
}

// ---------------------------------------------------------------------------------------------
// encode side: heap graphs
//
// High-level description (what the builder and the replayers read): tracked objects separated by ';',
// object i written  tag:slot,slot,...
//
//	pt  *gT              slots A P S M N Q R0 R1 WP  (A, R0, R1 of type any; P, WP: pt; S: sa; M: ma; N: mn; Q: pi)
//	pi  *any             one any-slot
//	sa  []any   sn gL    any-slots
//	sp  []*gT            pt-slots
//	ma  map[string]any  mn gM  mi map[int]any    any-slots (keys k0.. / 0..)
//	mp  map[string]*gT   pt-slots
//
//	hp  *gH              slots N Y St L M  (N, St: shape-slots; Y any-slot; L: sh; M: mh)
//	ph  *gShape  py *gAny                 one shape-slot / any-slot
//	sh  []gShape  ss []fmt.Stringer  mh map[string]gShape      shape-slots
//	sy  []gAny  my map[string]gAny                             any-slots
//
// shape-slot (non-empty interface):  -  |  <id> of a pt, hp, mn or sn object  |  W<id> gW{P} of a pt object
// typed slot:  -  |  <id>            any-slot:  - (nil) | l (7) | <id> (the object boxed) | T<id> gT{A: boxed} by value |
// W<id> gW{P} | Y<id> [1]*gT | X<id> [1]any | V<id> gV{M} | Z<id> &gT{A: boxed} (a fresh pointer)
//
// The LOW-level description handed to the Coq model is NOT derived from this text: it is read back from the
// built Go value by reflection (describeValue), with object identity taken from the addresses the encoder keys on.

type gT struct {
	A any
	P *gT
	S []any
	M map[string]any
	N gM
	Q *any
	R [2]any
	W gW
}
type gW struct{ P *gT }

// interface types other than plain interface{}: they take another path in the encoder (encodeMaybeEmptyInterface)
type gAny interface{}                 // a NAMED empty interface
type gShape interface{ c06Tag() int } // a non-empty user interface, implemented by *gT, *gH, gM, gL and gW
type gH struct {
	N  gShape
	Y  gAny
	St fmt.Stringer
	L  []gShape
	M  map[string]gShape
}

func (*gT) c06Tag() int    { return 1 }
func (*gH) c06Tag() int    { return 2 }
func (gM) c06Tag() int     { return 3 }
func (gL) c06Tag() int     { return 4 }
func (gW) c06Tag() int     { return 5 }
func (*gT) String() string { return "gT" }
func (*gH) String() string { return "gH" }
func (gM) String() string  { return "gM" }
func (gL) String() string  { return "gL" }
func (gW) String() string  { return "gW" }

type gV struct{ M map[string]any }
type gM map[string]any
type gL []any

type gObj struct {
	tag   string
	slots []string
	val   reflect.Value // the handle: pointer, slice header or map
}

func parseGraph(s string) []*gObj {
	var objs []*gObj
	for _, part := range strings.Split(s, ";") {
		f := strings.SplitN(part, ":", 2)
		o := &gObj{tag: f[0]}
		if len(f) == 2 && f[1] != "" {
			o.slots = strings.Split(f[1], ",")
		}
		objs = append(objs, o)
	}
	return objs
}

func buildGraph(desc string) []*gObj {
	objs := parseGraph(desc)
	for _, o := range objs {
		n := len(o.slots)
		switch o.tag {
		case "pt":
			o.val = reflect.ValueOf(new(gT))
		case "pi":
			o.val = reflect.ValueOf(new(any))
		case "sa":
			o.val = reflect.ValueOf(make([]any, n))
		case "sn":
			o.val = reflect.ValueOf(make(gL, n))
		case "sp":
			o.val = reflect.ValueOf(make([]*gT, n))
		case "ma":
			o.val = reflect.ValueOf(make(map[string]any))
		case "mn":
			o.val = reflect.ValueOf(make(gM))
		case "mi":
			o.val = reflect.ValueOf(make(map[int]any))
		case "mp":
			o.val = reflect.ValueOf(make(map[string]*gT))
		case "hp":
			o.val = reflect.ValueOf(new(gH))
		case "ph":
			o.val = reflect.ValueOf(new(gShape))
		case "py":
			o.val = reflect.ValueOf(new(gAny))
		case "sh":
			o.val = reflect.ValueOf(make([]gShape, n))
		case "ss":
			o.val = reflect.ValueOf(make([]fmt.Stringer, n))
		case "mh":
			o.val = reflect.ValueOf(make(map[string]gShape))
		case "sy":
			o.val = reflect.ValueOf(make([]gAny, n))
		case "my":
			o.val = reflect.ValueOf(make(map[string]gAny))
		default:
			panic("c06: bad graph tag " + o.tag)
		}
	}
	ref := func(s string) *gObj { n, _ := strconv.Atoi(s); return objs[n] }
	pt := func(s string) *gT {
		if s == "-" || s == "" {
			return nil
		}
		return ref(s).val.Interface().(*gT)
	}
	anyOf := func(s string) any {
		switch {
		case s == "-" || s == "":
			return nil
		case s == "l":
			return 7
		case s[0] >= '0' && s[0] <= '9':
			return ref(s).val.Interface()
		}
		in := ref(s[1:]).val.Interface()
		switch s[0] {
		case 'T':
			return gT{A: in}
		case 'W':
			return gW{P: in.(*gT)}
		case 'Y':
			return [1]*gT{in.(*gT)}
		case 'X':
			return [1]any{in}
		case 'V':
			return gV{M: in.(map[string]any)}
		case 'Z':
			return &gT{A: in}
		}
		panic("c06: bad slot " + s)
	}
	shapeOf := func(s string) any { // a value for a non-empty interface slot
		switch {
		case s == "-" || s == "":
			return nil
		case s[0] == 'W':
			return gW{P: ref(s[1:]).val.Interface().(*gT)}
		}
		return ref(s).val.Interface()
	}
	// ifaceVal: x as a reflect.Value assignable to interface type t (the zero interface for nil)
	ifaceVal := func(t reflect.Type, x any) reflect.Value {
		if x == nil {
			return reflect.Zero(t)
		}
		return reflect.ValueOf(x)
	}
	for _, o := range objs {
		sl := func(i int) string {
			if i < len(o.slots) {
				return o.slots[i]
			}
			return "-"
		}
		switch o.tag {
		case "pt":
			g := o.val.Interface().(*gT)
			g.A, g.P = anyOf(sl(0)), pt(sl(1))
			if s := sl(2); s != "-" {
				g.S = ref(s).val.Interface().([]any)
			}
			if s := sl(3); s != "-" {
				g.M = ref(s).val.Interface().(map[string]any)
			}
			if s := sl(4); s != "-" {
				g.N = ref(s).val.Interface().(gM)
			}
			if s := sl(5); s != "-" {
				g.Q = ref(s).val.Interface().(*any)
			}
			g.R[0], g.R[1], g.W.P = anyOf(sl(6)), anyOf(sl(7)), pt(sl(8))
		case "pi":
			*(o.val.Interface().(*any)) = anyOf(sl(0))
		case "sa", "sn":
			for i := range o.slots {
				o.val.Index(i).Set(reflect.ValueOf(&[]any{anyOf(sl(i))}[0]).Elem())
			}
		case "sp":
			for i := range o.slots {
				o.val.Index(i).Set(reflect.ValueOf(pt(sl(i))))
			}
		case "ma", "mn":
			for i := range o.slots {
				o.val.SetMapIndex(reflect.ValueOf("k"+strconv.Itoa(i)), reflect.ValueOf(&[]any{anyOf(sl(i))}[0]).Elem())
			}
		case "mi":
			for i := range o.slots {
				o.val.SetMapIndex(reflect.ValueOf(i), reflect.ValueOf(&[]any{anyOf(sl(i))}[0]).Elem())
			}
		case "mp":
			for i := range o.slots {
				o.val.SetMapIndex(reflect.ValueOf("k"+strconv.Itoa(i)), reflect.ValueOf(pt(sl(i))))
			}
		case "hp":
			h := o.val.Interface().(*gH)
			if x := shapeOf(sl(0)); x != nil {
				h.N = x.(gShape)
			}
			h.Y = anyOf(sl(1))
			if x := shapeOf(sl(2)); x != nil {
				h.St = x.(fmt.Stringer)
			}
			if s := sl(3); s != "-" {
				h.L = ref(s).val.Interface().([]gShape)
			}
			if s := sl(4); s != "-" {
				h.M = ref(s).val.Interface().(map[string]gShape)
			}
		case "ph":
			if x := shapeOf(sl(0)); x != nil {
				*(o.val.Interface().(*gShape)) = x.(gShape)
			}
		case "py":
			*(o.val.Interface().(*gAny)) = anyOf(sl(0))
		case "sh", "ss":
			for i := range o.slots {
				o.val.Index(i).Set(ifaceVal(o.val.Type().Elem(), shapeOf(sl(i))))
			}
		case "sy":
			for i := range o.slots {
				o.val.Index(i).Set(ifaceVal(o.val.Type().Elem(), anyOf(sl(i))))
			}
		case "mh":
			for i := range o.slots {
				o.val.SetMapIndex(reflect.ValueOf("k"+strconv.Itoa(i)), ifaceVal(o.val.Type().Elem(), shapeOf(sl(i))))
			}
		case "my":
			for i := range o.slots {
				o.val.SetMapIndex(reflect.ValueOf("k"+strconv.Itoa(i)), ifaceVal(o.val.Type().Elem(), anyOf(sl(i))))
			}
		}
	}
	return objs
}

// graphRoot: the value handed to the encoder for a root object and mode
//
//	mode%4: 0 the handle by value, 1 a pointer to a variable holding it, 2 struct{A any}{handle}, 3 []any{7, handle}
func graphRoot(objs []*gObj, root, mode int) any {
	h := objs[root].val
	switch mode % 4 {
	case 1:
		p := reflect.New(h.Type())
		p.Elem().Set(h)
		return p.Interface()
	case 2:
		return struct{ A any }{h.Interface()}
	case 3:
		return []any{7, h.Interface()}
	}
	return h.Interface()
}

// describeValue reads the heap graph back from a Go value: node 0 is the shared leaf; a pointer is identified
// by its target address, a map by its header address, a non-empty slice by (data, len); nil pointers, nil maps,
// empty slices and scalars are leaves; interfaces, structs and arrays are untracked nodes created after their
// children (so an untracked child always has a smaller id than its untracked parent).
type gDescriber struct {
	nodes  []string
	ptrs   map[unsafe.Pointer]int
	maps   map[unsafe.Pointer]int
	slices map[[2]uintptr]int
}

// label: the type the implementation names when this object closes a cycle (driver-side annotation, not part of the model)
func label(t string) string {
	return "@" + strings.NewReplacer(";", "_", ",", "_", "|", "_", "@", "_", "\t", " ").Replace(t)
}

func joinInts(xs []int) string {
	var s []string
	for _, x := range xs {
		s = append(s, strconv.Itoa(x))
	}
	return strings.Join(s, ",")
}

func (d *gDescriber) walk(v reflect.Value) int {
	newNode := func() int { d.nodes = append(d.nodes, ""); return len(d.nodes) - 1 }
	switch v.Kind() {
	case reflect.Ptr:
		if v.IsNil() {
			return 0
		}
		k := v.UnsafePointer()
		if id, ok := d.ptrs[k]; ok {
			return id
		}
		id := newNode()
		d.ptrs[k] = id
		d.nodes[id] = "P" + strconv.Itoa(d.walk(v.Elem())) + label(v.Type().Elem().String())
		return id
	case reflect.Slice:
		if v.Len() == 0 {
			return 0
		}
		k := [2]uintptr{v.Pointer(), uintptr(v.Len())}
		if id, ok := d.slices[k]; ok {
			return id
		}
		id := newNode()
		d.slices[k] = id
		var kids []int
		for i := 0; i < v.Len(); i++ {
			kids = append(kids, d.walk(v.Index(i)))
		}
		d.nodes[id] = "S" + joinInts(kids) + label(v.Type().String())
		return id
	case reflect.Map:
		if v.IsNil() {
			return 0
		}
		k := v.UnsafePointer()
		if id, ok := d.maps[k]; ok {
			return id
		}
		id := newNode()
		d.maps[k] = id
		keys := v.MapKeys()
		sort.Slice(keys, func(i, j int) bool {
			if keys[i].Kind() == reflect.String {
				return keys[i].String() < keys[j].String()
			}
			return keys[i].Int() < keys[j].Int()
		})
		var kids []int
		for _, key := range keys {
			kids = append(kids, d.walk(v.MapIndex(key)))
		}
		lt := v.Type()
		if lt.Key() == reflect.TypeOf("") && lt.Elem() == reflect.TypeOf((*any)(nil)).Elem() {
			lt = reflect.TypeOf(map[string]any(nil)) // named map[string]any types share the fast path and its message
		}
		d.nodes[id] = "M" + joinInts(kids) + label(lt.String())
		return id
	case reflect.Interface:
		if v.IsNil() {
			id := newNode()
			d.nodes[id] = "I"
			return id
		}
		c := d.walk(v.Elem())
		id := newNode()
		d.nodes[id] = "I" + strconv.Itoa(c)
		return id
	case reflect.Struct:
		var kids []int
		for i := 0; i < v.NumField(); i++ {
			kids = append(kids, d.walk(v.Field(i)))
		}
		id := newNode()
		d.nodes[id] = "T" + joinInts(kids)
		return id
	case reflect.Array:
		var kids []int
		for i := 0; i < v.Len(); i++ {
			kids = append(kids, d.walk(v.Index(i)))
		}
		id := newNode()
		d.nodes[id] = "T" + joinInts(kids)
		return id
	}
	return 0
}

func describeValue(x any) (nodes string, root int) {
	d := &gDescriber{nodes: []string{"L"}, ptrs: map[unsafe.Pointer]int{}, maps: map[unsafe.Pointer]int{}, slices: map[[2]uintptr]int{}}
	root = d.walk(reflect.ValueOf(x))
	return strings.Join(d.nodes, ";"), root
}

func classifyEncode(err error) string {
	if err == nil {
		return "ok"
	}
	msg := err.Error()
	if i := strings.Index(msg, "encountered a cycle via "); i >= 0 {
		return "cycle-error via " + label(msg[i+len("encountered a cycle via "):])[1:]
	}
	return "other-error"
}

func coarse(s string) string {
	if strings.HasPrefix(s, "cycle-error") {
		return "cycle-error"
	}
	return s
}

// graphVerdict encodes the root of a graph. mode/4: 0 Marshal, 1 Encoder.Encode, 2 Append with sorted keys,
// 3 Append with flags 0 (unsorted map paths; only the coarse verdict is meaningful then).
func graphVerdict(desc string, root, mode int, std bool) string {
	x := graphRoot(buildGraph(desc), root, mode)
	var err error
	switch {
	case std:
		_, err = stdjson.Marshal(x)
	case mode/4 == 1:
		err = json.NewEncoder(io.Discard).Encode(x)
	case mode/4 == 2:
		_, err = json.Append(make([]byte, 0, 64), x, json.SortMapKeys)
	case mode/4 == 3:
		_, err = json.Append(nil, x, 0)
	default:
		_, err = json.Marshal(x)
	}
	return classifyEncode(err)
}

// graphCase emits the coarse case (against encoding/json and the model) and, when map order is fixed, the
// fine case (which kind of object reported the cycle: model only).
func graphCase(desc string, root, mode int) {
	low := "?"
	lroot := 0
	if mine() || (mode/4 != 3 && (caseNo+2)%*nshard == *shard) {
		low, lroot = describeValue(graphRoot(buildGraph(desc), root, mode))
	}
	args := fmt.Sprintf("%d|%d|%s|%d|%s", mode, root, desc, lroot, low)
	c06Case("e.graph", args)
	if mode/4 != 3 {
		c06Case("e.graphk", args)
	}
}

// ---------------------------------------------------------------------------------------------
// encode side: deep acyclic values, recursive named types, interior-pointer aliasing

type gChain struct{ N *gChain }
type gIChain struct{ V any }

func deepValue(shape string, n int) any {
	var v any = 1
	switch shape {
	case "ptr":
		var c *gChain
		for i := 0; i < n; i++ {
			c = &gChain{N: c}
		}
		return c
	case "slice":
		for i := 0; i < n; i++ {
			v = []any{v}
		}
	case "map":
		for i := 0; i < n; i++ {
			v = map[string]any{"a": v}
		}
	case "gmap":
		for i := 0; i < n; i++ {
			v = map[int]any{1: v}
		}
	case "iface":
		for i := 0; i < n; i++ {
			v = gIChain{V: v}
		}
	case "pptr":
		for i := 0; i < n; i++ {
			w := v
			v = &w
		}
	case "mixed":
		for i := 0; i < n; i++ {
			switch i % 4 {
			case 0:
				v = []any{v}
			case 1:
				v = map[string]any{"a": v}
			case 2:
				v = &gT{A: v}
			case 3:
				v = gT{R: [2]any{nil, v}}
			}
		}
	default:
		panic("c06: unknown deep value shape " + shape)
	}
	return v
}

func encodeDeep(shape string, n, mode int) string {
	v := deepValue(shape, n)
	var err error
	var b []byte
	switch mode {
	case 0:
		b, err = json.Marshal(v)
	case 1:
		b, err = json.Marshal(&v)
	case 2:
		err = json.NewEncoder(io.Discard).Encode(v)
	case 3:
		b, err = json.Append(nil, v, 0)
	}
	if err != nil {
		return "panic unexpected error " + clip(err.Error(), 60) // an acyclic value must encode
	}
	_ = b
	return noPanic
}

// named types that refer to themselves
type rtE1 struct {
	*rtE1
	X int
}
type rtA1 struct{ *rtB1 }
type rtB1 struct {
	*rtA1
	X int
}
type rtT2 struct{ M map[string]rtT2 }
type rtT3 struct{ S []rtT3 }
type rtT4 struct{ P **rtT4 }
type rtT5 struct{ A [2]*rtT5 }
type rtT6 struct {
	I any
	N *rtT6
	L []*rtT6
	M map[string]*rtT6
}
type rtT7 struct {
	rtT8
	N *rtT7
}
type rtT8 struct{ P *rtT7 }

// ... and without passing through a struct (known finding F42)
type rtM map[string]rtM
type rtL []rtL
type rtP *rtP
type rtSP []*rtSP
type rtMS map[string]*rtMS
type rtA [1]*rtA

func recType(name string) string {
	both := func(v any, target any, doc string) {
		encodeAll(v)
		json.Unmarshal([]byte(doc), target)
		json.NewDecoder(strings.NewReader(doc)).Decode(target)
		encodeAll(target)
	}
	switch name {
	case "E1":
		both(&rtE1{X: 1}, &rtE1{}, `{"X":2,"rtE1":{"X":3}}`)
	case "A1":
		both(&rtA1{&rtB1{X: 1}}, &rtA1{}, `{"X":2}`)
	case "T2":
		both(rtT2{M: map[string]rtT2{"a": {}}}, &rtT2{}, `{"M":{"a":{"M":{"b":{"M":null}}}}}`)
	case "T3":
		both(rtT3{S: []rtT3{{S: []rtT3{}}}}, &rtT3{}, `{"S":[{"S":[{"S":[]}]},{}]}`)
	case "T4":
		p := &rtT4{}
		both(rtT4{P: &p}, &rtT4{}, `{"P":{"P":{"P":null}}}`)
	case "T5":
		both(rtT5{A: [2]*rtT5{{}, nil}}, &rtT5{}, `{"A":[{"A":[null,{"A":[]}]},null]}`)
	case "T6":
		both(&rtT6{I: rtT6{}, N: &rtT6{}, L: []*rtT6{nil, {}}, M: map[string]*rtT6{"a": {}}}, &rtT6{}, `{"I":{"I":[{}]},"N":{"N":{"L":[null,{"M":{"k":{}}}]}}}`)
	case "T7":
		both(&rtT7{N: &rtT7{rtT8: rtT8{P: &rtT7{}}}}, &rtT7{}, `{"P":{"P":{"N":{}}},"N":{"P":null}}`)
	case "M":
		both(rtM{"a": rtM{}}, &rtM{}, `{"a":{"b":{}}}`)
	case "L":
		both(rtL{rtL{}}, &rtL{}, `[[[]]]`)
	case "P":
		both(rtP(nil), new(rtP), `null`)
	case "SP":
		both(rtSP{nil}, &rtSP{}, `[null]`)
	case "MS":
		both(rtMS{"a": nil}, &rtMS{}, `{"a":null}`)
	case "A":
		both(rtA{nil}, &rtA{}, `[null]`)
	case "Mdec":
		json.Unmarshal([]byte(`{}`), &rtM{})
	case "Ldec":
		json.Unmarshal([]byte(`[]`), &rtL{})
	default:
		panic("c06: unknown recursive type " + name)
	}
	return noPanic
}

// values that are cyclic ONLY through slices of structs or arrays (no pointer, map or interface on the cycle): a slice
// whose backing array holds a struct (or an array of structs) that holds the slice itself
type cyTree struct {
	Name string
	Kids []cyTree
}
type cyCell struct{ S [][2]cyCell }
type cyChapter struct{ Sections []cySection }
type cySection struct {
	Title    string
	Chapters []cyChapter
}
type cyEmb struct{ Rows cyRows }
type cyRows []cyRow
type cyRow struct {
	cyEmb
	N int
}

func cycVal(shape string, root int, std bool) string {
	var v any
	switch shape {
	case "tree", "treeok":
		kids := make([]cyTree, 3)
		kids[0].Name, kids[2].Name = "a", "c"
		if shape == "tree" {
			kids[1].Kids = kids
		} else {
			kids[1].Kids = make([]cyTree, 2) // acyclic control
		}
		switch root {
		case 0:
			v = kids
		case 1:
			v = &kids
		case 2:
			v = kids[1]
		case 3:
			v = &kids[1]
		case 4:
			v = map[string]any{"k": kids}
		default:
			v = []any{cyTree{Kids: kids}}
		}
	case "cell":
		cells := make([][2]cyCell, 2)
		cells[1][1].S = cells
		switch root {
		case 0:
			v = cells
		case 1:
			v = &cells
		case 2:
			v = cells[1]
		default:
			v = map[string]any{"k": cyCell{S: cells}}
		}
	case "mutual":
		ch := make([]cyChapter, 2)
		se := make([]cySection, 2)
		ch[1].Sections = se
		se[0].Chapters = ch
		switch root {
		case 0:
			v = ch
		case 1:
			v = se
		case 2:
			v = &ch[1]
		default:
			v = []any{se[0]}
		}
	case "rows":
		rows := make(cyRows, 2)
		rows[0].Rows = rows
		switch root {
		case 0:
			v = rows
		case 1:
			v = &rows
		case 2:
			v = rows[0]
		default:
			v = map[string]any{"k": &rows[0]}
		}
	default:
		panic("c06: unknown cyclic value " + shape)
	}
	var err error
	if std {
		_, err = stdjson.Marshal(v)
	} else {
		_, err = json.Marshal(v)
		if err2 := json.NewEncoder(io.Discard).Encode(v); (err == nil) != (err2 == nil) {
			return "Marshal and Encoder disagree"
		}
		if _, err3 := json.Append(nil, v, 0); (err == nil) != (err3 == nil) {
			return "Marshal and Append disagree"
		}
	}
	return coarse(classifyEncode(err))
}

// interior pointers: &s.T has the address of s, so the address-keyed cycle detection of BOTH libraries may
// report a cycle that is not there once tracking is on; what must hold is only: no crash, and error-vs-ok as encoding/json.
type alT struct{ X any }
type alS struct {
	T alT
	Q *alT
}

func aliasCase(depth, variant int, std bool) string {
	s := &alS{}
	s.Q = &s.T
	var v any = s
	switch variant {
	case 1:
		arr := &[2]any{}
		arr[0] = arr[:] // a slice of the array inside the array: a real cycle through a slice
		v = arr
	case 2:
		arr := &[1]alT{}
		v = struct {
			P *[1]alT
			Q *alT
		}{arr, &arr[0]}
	}
	for i := 0; i < depth; i++ {
		w := v
		v = &w
	}
	var err error
	if std {
		_, err = stdjson.Marshal(v)
	} else {
		_, err = json.Marshal(v)
	}
	if variant == 1 {
		return coarse(classifyEncode(err))
	}
	// false positives depend on the exact depth at which each library starts tracking: accept either verdict
	if std {
		return "no crash"
	}
	_ = err
	return "no crash"
}

// map keys with text methods on the value receiver, the pointer receiver, one of the two or none: Marshal and
// Unmarshal must fail or succeed as encoding/json does, and never panic (a key type with UnmarshalText only used to
// make Marshal panic: fixed in /repo be7bfb4)
type kBothVal struct{ S string }

func (k kBothVal) MarshalText() ([]byte, error)  { return []byte(k.S), nil }
func (k *kBothVal) UnmarshalText(b []byte) error { k.S = string(b); return nil }

type kUnmOnly struct{ S string }

func (k *kUnmOnly) UnmarshalText(b []byte) error { k.S = string(b); return nil }

type kMarOnly struct{ S string }

func (k kMarOnly) MarshalText() ([]byte, error) { return []byte(k.S), nil }

type kMarPtrOnly struct{ S string }

func (k *kMarPtrOnly) MarshalText() ([]byte, error) { return []byte(k.S), nil }

type kIntUnmOnly int

func (k *kIntUnmOnly) UnmarshalText(b []byte) error { *k = kIntUnmOnly(len(b)); return nil }

type kIntMarOnly int

func (k kIntMarOnly) MarshalText() ([]byte, error) { return []byte("i" + strconv.Itoa(int(k))), nil }

type kStrUnmOnly string

func (k *kStrUnmOnly) UnmarshalText(b []byte) error { *k = kStrUnmOnly("u:" + string(b)); return nil }

type kStrMarPtr string

func (k *kStrMarPtr) MarshalText() ([]byte, error) { return []byte("p:" + string(*k)), nil }

type kNone struct{ S string }

type kStructPtr struct{ P *string } // pointer-shaped key types: stored directly in the interface word

func (k kStructPtr) MarshalText() ([]byte, error) { return []byte("s:" + *k.P), nil }

type kArrPtr [1]*string

func (k kArrPtr) MarshalText() ([]byte, error) { return []byte("a:" + *k[0]), nil }

var kStr = "x"

var keyCases = map[string]func() (val any, target any){
	"bothval":      func() (any, any) { return map[kBothVal]int{{"a"}: 1, {"b"}: 2}, &map[kBothVal]int{} },
	"bothptr":      func() (any, any) { return map[PtrText]int{{"a"}: 1, {"b"}: 2}, &map[PtrText]int{} },
	"unmonly":      func() (any, any) { return map[kUnmOnly]int{{"a"}: 1, {"b"}: 2}, &map[kUnmOnly]int{} },
	"maronly":      func() (any, any) { return map[kMarOnly]int{{"a"}: 1, {"b"}: 2}, &map[kMarOnly]int{} },
	"marptronly":   func() (any, any) { return map[kMarPtrOnly]int{{"a"}: 1, {"b"}: 2}, &map[kMarPtrOnly]int{} },
	"intunmonly":   func() (any, any) { return map[kIntUnmOnly]int{1: 1, 2: 2}, &map[kIntUnmOnly]int{} },
	"intmaronly":   func() (any, any) { return map[kIntMarOnly]int{1: 1, 2: 2}, &map[kIntMarOnly]int{} },
	"strunmonly":   func() (any, any) { return map[kStrUnmOnly]int{"a": 1, "b": 2}, &map[kStrUnmOnly]int{} },
	"strmarptr":    func() (any, any) { return map[kStrMarPtr]int{"a": 1, "b": 2}, &map[kStrMarPtr]int{} },
	"none":         func() (any, any) { return map[kNone]int{{"a"}: 1}, &map[kNone]int{} },
	"bool":         func() (any, any) { return map[bool]int{true: 1}, &map[bool]int{} },
	"float":        func() (any, any) { return map[float64]int{1.5: 1}, &map[float64]int{} },
	"iface":        func() (any, any) { return map[any]int{"a": 1}, &map[any]int{} },
	"ptrkey":       func() (any, any) { return map[*PtrText]int{{S: "a"}: 1}, &map[*PtrText]int{} },
	"structptrkey": func() (any, any) { return map[kStructPtr]int{{&kStr}: 1}, &map[kStructPtr]int{} },
	"arrptrkey":    func() (any, any) { return map[kArrPtr]int{{&kStr}: 1}, &map[kArrPtr]int{} },
	"emptyunm":     func() (any, any) { return map[kUnmOnly]int{}, &map[kUnmOnly]int{} },
	"nested": func() (any, any) {
		return []any{map[string]any{"m": map[kUnmOnly][]int{{"a"}: {1}}}}, &[]map[string]map[kUnmOnly][]int{}
	},
}
var keyCaseNames = []string{"bothval", "bothptr", "unmonly", "maronly", "marptronly", "intunmonly", "intmaronly", "strunmonly", "strmarptr", "none", "bool", "float", "iface", "ptrkey", "structptrkey", "arrptrkey", "emptyunm", "nested"}

func keyCase(name string, std bool) string {
	val, target := keyCases[name]()
	okErr := func(err error) string {
		if err != nil {
			return "err"
		}
		return "ok"
	}
	var merr, uerr, u2err error
	docs := []string{`{"a":1,"1":2}`, `{"1":1}`}
	if name == "nested" {
		docs = []string{`[{"m":{"a":[1]}}]`, `[{"m":{"1":[]}}]`}
	}
	if std {
		_, merr = stdjson.Marshal(val)
		uerr = stdjson.Unmarshal([]byte(docs[0]), target)
		u2err = stdjson.Unmarshal([]byte(docs[1]), target)
	} else {
		_, merr = json.Marshal(val)
		json.Append(nil, val, 0)
		uerr = json.Unmarshal([]byte(docs[0]), target)
		u2err = json.Unmarshal([]byte(docs[1]), target)
		encodeAll(target)
	}
	return "marshal=" + okErr(merr) + " unmarshal=" + okErr(uerr) + "," + okErr(u2err)
}

// ---------------------------------------------------------------------------------------------
// generation

// onShard0 pads the case counter so that the next case belongs to shard 0: the cases that are expected to kill
// the worker (1 GB of stack each) run one after the other instead of on all shards at once.
func onShard0() {
	for (caseNo+1)%*nshard != 0 {
		skip()
	}
}

var c06FixedTypes = []string{
	// pointer-shaped values stored directly in the interface word
	"(ptr int)", "(map str int)", "(struct (f A - (ptr int)))", "(struct (f A - (map str int)))", "(arr 1 (ptr int))", "(arr 1 (map str (ptr int)))",
	"(struct (f A - (struct (f B - (ptr int)))))", "(arr 1 (arr 1 (ptr int)))", "(arr 1 (struct (f A - (map str int))))", "(struct (f A - (arr 1 (ptr str))))",
	"(struct (f A ,omitempty (ptr int)))", "(struct (f A - (ptr (struct (f B - (ptr int))))))", "(ptr (struct (f A - (ptr int))))", "(ptr (arr 1 (ptr int)))",
	"(struct (f A - (ptr Time)))", "(struct (f A - (ptr ValMarshaler)))", "(struct (f A - (ptr PtrMarshaler)))", "(arr 1 (ptr PtrText))", "(struct (f A - (ptr any)))",
	"(struct (e (ptr EmbA)))", "(struct (e (ptr EmbD)))", "(arr 1 (struct (e (ptr EmbA))))", "(struct (f A - (struct (e (ptr EmbC)))))",
	// single-field and nested-by-value structs, arrays of every small length
	"(struct (f A - (struct (f B - int))))", "(struct (f A - (struct (f B - (struct (f C - str))))))", "(arr 0 (ptr int))", "(arr 2 (ptr int))", "(arr 3 (struct (f A - (ptr int))))",
	"(struct (f A - (arr 0 int)) (f B - (ptr int)))", "(struct (f A - (struct)) (f B - (ptr int)))", "(struct (f A - (arr 0 (ptr int))))",
	// embedded pointers, several levels
	"(struct (e (ptr EmbA)) (e (ptr EmbB)) (f Q - int))", "(struct (e (ptr EmbC)) (f Q - (ptr int)))", "(ptr (struct (e (ptr EmbC)) (e EmbD)))", "(slice (struct (e (ptr EmbA))))", "(map str (struct (e (ptr EmbA))))",
	// maps with integer / text keys, values of every shape
	"(map int (ptr int))", "(map IntKey (slice any))", "(map TextKey (map str any))", "(map u64 (struct (f A - (ptr int))))", "(map i8 (arr 1 (ptr int)))", "(map str (ptr (map str int)))",
	// unmarshalers on value and pointer receivers, inside containers
	"ValMarshaler", "PtrMarshaler", "(ptr ValMarshaler)", "(ptr (ptr PtrMarshaler))", "(arr 2 PtrMarshaler)", "(map str ValText)", "(map PtrText int)", "(slice (ptr PtrText))", "(struct (f A ,omitempty PtrText) (f B ,string i64))",
	// leaf special types
	"Time", "(ptr Time)", "Duration", "(ptr Duration)", "Number", "(ptr Number)", "RawMessage", "(ptr RawMessage)", "bytes", "(ptr bytes)", "(slice bytes)", "(map str bytes)", "(arr 4 u8)", "(slice Time)", "(map str Duration)",
	"(struct (f A ,string int) (f B ,string f64) (f C ,string bool) (f D ,string (ptr u8)) (f E ,string str))",
	// interface-typed targets
	"any", "(ptr any)", "(slice any)", "(map str any)", "(arr 2 any)", "(struct (f A - any) (f B - (ptr any)) (f C - (slice any)))", "(map str (slice (map str any)))", "(ptr (ptr (ptr any)))",
}

var c06Scalars = []string{"bool", "int", "i8", "u8", "i64", "u64", "f32", "f64", "str", "uptr"}

func c06Generate() {
	thorough := *tier == "thorough"

	// ---- 1. cases expected to kill the process (known findings): first, and all on shard 0 ----
	// (not repeated in the -race/checkptr build, whose purpose is the pointer-arithmetic instrumentation of the bulk)
	raceBuild := strings.HasSuffix(os.Args[0], "_race")
	for _, c := range [][2]string{
		{"d.deepsyn.deepnest", "arropen|20000000"},
		{"d.deep.deepnest", "any|u|arropen|10000000"},
		{"d.deep.deepnest", "any|p0|objopen|5000000"},
		{"d.deep.deepnest", "(struct (f A - int))|u|unknownopen|5000000"},
		{"d.deep.deepnest", "RawMessage|sr4096:0|arr|10000000"},
		{"e.deep.deepnest", "ptr|2000000|0"},
		{"e.deep.deepnest", "slice|3000000|0"},
		{"e.rectype.selfref", "M"}, {"e.rectype.selfref", "L"}, {"e.rectype.selfref", "P"}, {"e.rectype.selfref", "SP"},
		{"e.rectype.selfref", "MS"}, {"e.rectype.selfref", "A"}, {"e.rectype.selfref", "Mdec"}, {"e.rectype.selfref", "Ldec"},
	} {
		if raceBuild {
			break
		}
		onShard0()
		c06Case(c[0], c[1])
	}

	for _, k := range keyCaseNames {
		c06Case("e.keys", k)
	}

	// ---- 2. recursive named types that pass through a struct must work ----
	for _, n := range []string{"E1", "A1", "T2", "T3", "T4", "T5", "T6", "T7"} {
		c06Case("e.rectype", n)
	}

	// ---- 3. heap graphs ----
	c06Graphs(thorough)

	// ---- 4. deep acyclic values and documents, in-process ----
	deepNs := []int{999, 1000, 1001, 10000, 100000}
	for _, shape := range []string{"ptr", "slice", "map", "gmap", "iface", "pptr", "mixed"} {
		for _, n := range deepNs {
			c06Case("e.deep", fmt.Sprintf("%s|%d|%d", shape, n, rndn(4)))
		}
	}
	for _, shape := range []string{"tree", "treeok", "cell", "mutual", "rows"} {
		for root := 0; root < 6; root++ {
			c06Case("e.cycval", fmt.Sprintf("%s|%d", shape, root))
		}
	}
	for _, a := range []int{0, 1, 2, 998, 999, 1000, 1001, 1002, 2000} {
		for v := 0; v < 3; v++ {
			c06Case("e.alias", fmt.Sprintf("%d|%d", a, v))
		}
	}
	docShapes := []string{"arr", "arropen", "arrws", "obj", "objopen", "mixed", "mixedopen", "strbr", "strbropen", "arrstr", "unknown", "unknownopen", "close", "wide", "esc", "escopen", "digits", "frac"}
	deepTargets := []string{"any", "(ptr any)", "(slice any)", "(map str any)", "RawMessage", "(struct (f A - any))", "(struct (f A - int))", "int", "str", "Number", "(slice (slice (slice int)))", "(map str (map str RawMessage))", "bytes", "f64", "Time"}
	for _, shape := range docShapes {
		for _, n := range []int{10000, 10001, 100000} {
			c06Case("d.deepsyn", fmt.Sprintf("%s|%d", shape, n))
			for k := 0; k < 3; k++ {
				cfg := pick([]string{"u", "u", "p0", "p4", "p511", "sall:0", "sr4096:5", "sr7:32", "sdataerr:0"})
				if n == 100000 && strings.HasPrefix(cfg, "sr7") {
					cfg = "sr4096:0"
				}
				tg, dn := pick(deepTargets), n
				if strings.Contains(tg, "any") && !strings.HasSuffix(shape, "open") && dn > 3000 {
					dn /= 40 // decoding into interfaces is quadratic in depth (observation recorded in DESIGN.md): keep the case fast
				}
				c06Case("d.deep", fmt.Sprintf("%s|%s|%s|%d", tg, cfg, shape, dn))
			}
		}
	}

	// ---- 5. documents x targets x entry points ----
	g := &jgen{maxDepth: 3, forDecode: true}
	nT := 1300
	if thorough {
		nT = 12000
	}
	var types []*sx
	for _, s := range c06FixedTypes {
		types = append(types, parseSx(s))
	}
	for _, s := range c01Fixed {
		types = append(types, parseSx(s))
	}
	for _, s := range c06Scalars {
		types = append(types, parseSx(s))
	}
	for i := 0; i < nT; i++ {
		if rndn(3) == 0 {
			types = append(types, g.ty(0))
		} else {
			types = append(types, g.structTy(0))
		}
	}
	randCfg := func() string {
		switch rndn(8) {
		case 0, 1:
			return "u"
		case 2, 3:
			return "p" + strconv.Itoa(int(pick(parseFlagSets)))
		case 4:
			return "p" + strconv.Itoa(rndn(512))
		case 5:
			return "s" + pick([]string{"all", "one", "z", "r3", "r7", "r64", "dataerr"}) + ":" + strconv.Itoa(rndn(64))
		case 6:
			return "s" + pick([]string{"one", "r5", "all"}) + "+" + strconv.Itoa(rndn(40)) + ":" + strconv.Itoa(rndn(64))
		}
		return pick([]string{"v", "n"})
	}
	randPre := func() int {
		if rndn(3) == 0 {
			return 1 + rndn(1<<30)
		}
		return 0
	}
	for _, t := range types {
		ts := sxString(t)
		docs := docsFor(t, 2)
		docs = append(docs, []byte(pick(jScalarsDocs)))
		if len(docs) > 0 && len(docs[0]) > 0 {
			docs = append(docs, mutateDoc(docs[0]))
		}
		for i, d := range docs {
			if len(d) > 400 {
				d = d[:400]
			}
			h := hexs(d)
			c06Case("d.doc", fmt.Sprintf("%s|%s|%d|%s", ts, randCfg(), randPre(), h))
			c06Case("d.doc", fmt.Sprintf("%s|%s|%d|%s", ts, randCfg(), randPre(), h))
			c06Case("d.pre", fmt.Sprintf("%s|%s|%d|%s", ts, randCfg(), randPre(), h))
			if i < 2 {
				c06Case("d.cor", fmt.Sprintf("%s|%s|%d|%s", ts, pick([]string{"u", "u", "p0", "p4", "p511", "sall:0", "sr3:7"}), randPre(), h))
			}
		}
		// random bytes and random JSON-alphabet soup
		for k := 0; k < 2; k++ {
			c06Case("d.doc", fmt.Sprintf("%s|%s|%d|%s", ts, randCfg(), randPre(), hexs(randomSoup())))
		}
		// encode side for the same type
		for k := 0; k < 3; k++ {
			c06Case("e.val", fmt.Sprintf("%s|%d|%d|%d", ts, rnd(), k/2, rndn(8)))
		}
	}

	// ---- 5b. slice growth and fixed arrays: n elements into (slice T) / (arr N T), fresh and prepopulated ----
	elemTypes := []string{"bool", "i8", "int", "f64", "str", "(struct)", "(arr 0 int)", "(arr 3 i64)", "(struct (f A - int) (f B - str))", "(struct (f A - i8) (f B - (ptr i64)) (f C - i8))",
		"(ptr int)", "any", "(slice int)", "(map str int)", "bytes", "Time", "Number", "RawMessage", "PtrMarshaler", "ValText", "(arr 1 (ptr int))", "(struct (e (ptr EmbA)))", "u8", "(slice (slice u8))"}
	lens := []int{0, 1, 2, 3, 4, 5, 7, 8, 9, 15, 16, 17, 31, 33, 64, 100, 257, 1000}
	if thorough {
		lens = append(lens, 1023, 1024, 1025, 4097, 20000)
	}
	for _, et := range elemTypes {
		ex := parseSx(et)
		var elems [][]byte
		for len(elems) < 3 {
			eb, err := stdjson.Marshal(jValue(ex, rnd(), 0).Interface())
			if err != nil {
				eb = []byte("null")
			}
			elems = append(elems, eb)
		}
		mk := func(n int) []byte {
			var b bytes.Buffer
			b.WriteByte('[')
			for i := 0; i < n; i++ {
				if i > 0 {
					b.WriteByte(',')
				}
				b.Write(elems[i%len(elems)])
			}
			b.WriteByte(']')
			return b.Bytes()
		}
		for _, n := range lens {
			c06Case("d.doc", fmt.Sprintf("(slice %s)|%s|%d|%s", et, randCfg(), randPre(), hexs(mk(n))))
			if n <= 17 {
				c06Case("d.doc", fmt.Sprintf("(arr %d %s)|%s|%d|%s", pick([]int{0, 1, 2, 3, 7}), et, randCfg(), randPre(), hexs(mk(n))))
				c06Case("d.doc", fmt.Sprintf("(map str (slice %s))|%s|%d|%s", et, randCfg(), randPre(), hexs([]byte(`{"a":`+string(mk(n))+`,"b":`+string(mk(n/2))+`,"a":`+string(mk(n+1))+`}`))))
			}
			if n <= 9 {
				c06Case("d.pre", fmt.Sprintf("(slice %s)|%s|%d|%s", et, randCfg(), randPre(), hexs(mk(n))))
				c06Case("d.cor", fmt.Sprintf("(slice %s)|u|%d|%s", et, randPre(), hexs(mk(min(n, 4)))))
			}
		}
	}

	// ---- 6. syntax-only entry points ----
	nS := 8000
	if thorough {
		nS = 80000
	}
	for i := 0; i < nS; i++ {
		var d []byte
		switch rndn(4) {
		case 0:
			d = randomSoup()
		case 1:
			d = []byte(genDoc(0))
		case 2:
			d = mutateDoc([]byte(genDoc(0)))
		default:
			d = []byte(pick(jScalarsDocs))
		}
		if len(d) > 300 {
			d = d[:300]
		}
		h := hexs(d)
		c06Case("d.syn", h)
		if i%3 == 0 {
			c06Case("d.synpre", h)
		}
		if i%6 == 0 && len(d) <= 120 {
			c06Case("d.syncor", h)
		}
	}
	for _, s := range []string{`"𐀀\ud800"`, `"\u00`, `"\`, `-`, `-0.`, `1e`, `1e+`, "\"\xff\xfe\"", `{"a":1,"a":2}`, `[1,2,3]x`, "\xef\xbb\xbf1", `nul`, `truefalse`, `"a"  :`, `{"":""}`, `[[],{}]`,
		`123456789012345678901234567890`, `-9223372036854775809`, `0x10`, `1.5e308`, `1e999`, `"\u0000"`, `"\/\b\f\n\r\t\"\\"`, "\"\x01\"", "1\x00", " ", "", "\t\n\r "} {
		h := hexs([]byte(s))
		c06Case("d.syn", h)
		c06Case("d.synpre", h)
		c06Case("d.syncor", h)
	}
}

// randomSoup: random bytes, half of the time drawn from the JSON alphabet so that scanners get past the first byte
func randomSoup() []byte {
	n := rndn(48)
	b := make([]byte, n)
	alpha := []byte("{}[]:,\"\\ 0123456789-+.eEtruefalsn\n\t/bu")
	soup := rndBool()
	for i := range b {
		if soup && rndn(10) != 0 {
			b[i] = alpha[rndn(len(alpha))]
		} else {
			b[i] = byte(rnd())
		}
	}
	return b
}

// ---- graph generation ----

var gTags = []string{"pt", "pt", "pi", "sa", "sa", "sn", "sp", "ma", "ma", "mn", "mi", "mp",
	"hp", "hp", "ph", "py", "sh", "ss", "mh", "sy", "my"}

// objects whose handle implements gShape (and fmt.Stringer): they can be stored in a shape-slot
var gShapeTags = []string{"pt", "hp", "mn", "sn"}

func isShapeTag(t string) bool { return t == "pt" || t == "hp" || t == "mn" || t == "sn" }

// gOnlyTo: the tags an object can refer to when it has no any-slot (nil: anything)
func gOnlyTo(tag string) []string {
	switch tag {
	case "sp", "mp":
		return []string{"pt"}
	case "ph", "sh", "ss", "mh":
		return gShapeTags
	}
	return nil
}

// slot kinds of an object: 'a' any-slot, or the tag a typed slot requires
func gSlotKinds(tag string, n int) []string {
	switch tag {
	case "pt":
		return []string{"a", "pt", "sa", "ma", "mn", "pi", "a", "a", "pt"}
	case "hp":
		return []string{"h", "a", "h", "sh", "mh"}
	case "pi", "py":
		return []string{"a"}
	case "ph":
		return []string{"h"}
	case "sh", "ss", "mh":
		k := make([]string, n)
		for i := range k {
			k[i] = "h"
		}
		return k
	case "sp", "mp":
		k := make([]string, n)
		for i := range k {
			k[i] = "pt"
		}
		return k
	}
	k := make([]string, n)
	for i := range k {
		k[i] = "a"
	}
	return k
}

type gGen struct {
	tags  []string
	slots [][]string
}

func (g *gGen) add(tag string) int {
	n := 1 + rndn(3)
	kinds := gSlotKinds(tag, n)
	s := make([]string, len(kinds))
	for i := range s {
		s[i] = "-"
	}
	g.tags = append(g.tags, tag)
	g.slots = append(g.slots, s)
	return len(g.tags) - 1
}

// link stores a reference to object `to` in a free compatible slot of `from` (overwriting one if none is free).
func (g *gGen) link(from, to int) bool {
	kinds := gSlotKinds(g.tags[from], len(g.slots[from]))
	var free, usable []int
	for i, k := range kinds {
		if k == "a" || k == g.tags[to] || (k == "h" && isShapeTag(g.tags[to])) {
			usable = append(usable, i)
			if g.slots[from][i] == "-" {
				free = append(free, i)
			}
		}
	}
	if len(usable) == 0 {
		return false
	}
	i := pick(usable)
	if len(free) > 0 {
		i = pick(free)
	}
	s := strconv.Itoa(to)
	if kinds[i] == "a" {
		var w []string
		w = append(w, "", "", "", "T", "X", "Z")
		if g.tags[to] == "pt" {
			w = append(w, "W", "Y")
		}
		if g.tags[to] == "ma" {
			w = append(w, "V")
		}
		s = pick(w) + s
	} else if kinds[i] == "h" && g.tags[to] == "pt" && rndn(3) == 0 {
		s = "W" + s
	}
	g.slots[from][i] = s
	return true
}

// compatible successor tag: objects without an any-slot can only refer to some kinds of objects
func (g *gGen) addAfter(prev int) int {
	if prev >= 0 {
		if only := gOnlyTo(g.tags[prev]); only != nil {
			return g.add(pick(only))
		}
	}
	return g.add(pick(gTags))
}

func (g *gGen) String() string {
	var parts []string
	for i, t := range g.tags {
		parts = append(parts, t+":"+strings.Join(g.slots[i], ","))
	}
	return strings.Join(parts, ";")
}

// chain appends n fresh objects, each referring to the next, and returns (first, last).
func (g *gGen) chain(n int, small bool) (int, int) {
	first, prev := -1, -1
	for i := 0; i < n; i++ {
		var id int
		if small {
			pool := []string{"pi", "pi", "sa", "ma", "pt", "py", "ph", "sy", "my", "sh", "mh", "hp", "mn"}
			if prev >= 0 && gOnlyTo(g.tags[prev]) != nil {
				pool = []string{"pt", "hp", "mn"}
			}
			id = g.add(pick(pool))
			if t := g.tags[id]; t != "pt" && t != "hp" {
				g.slots[id] = g.slots[id][:1]
			}
		} else {
			id = g.addAfter(prev)
		}
		if prev >= 0 {
			g.link(prev, id)
		} else {
			first = id
		}
		prev = id
	}
	return first, prev
}

func (g *gGen) leaves() {
	for i := range g.slots {
		kinds := gSlotKinds(g.tags[i], len(g.slots[i]))
		for j, s := range g.slots[i] {
			if s == "-" && kinds[j] == "a" && rndn(3) == 0 {
				g.slots[i][j] = "l"
			}
		}
	}
	jEncSeqAll() // failed encodes followed by other encodes: a panic or a wrong result from stale pooled scratch state
}

func c06Graphs(thorough bool) {
	reps := 3
	if thorough {
		reps = 20
	}
	mode := func() int { return rndn(16) }
	prefixLens := []int{0, 1, 2, 5, 997, 998, 999, 1000, 1001, 1003}
	for r := 0; r < reps; r++ {
		// (1) a cycle of every length 1..5 behind prefixes of every interesting length, with extra edges
		for clen := 1; clen <= 5; clen++ {
			for _, pl := range prefixLens {
				for k := 0; k < 3; k++ {
					if pl > 20 && k > 0 {
						break // long prefixes make long descriptions: one case each
					}
					g := &gGen{}
					root, last := -1, -1
					if pl > 0 {
						root, last = g.chain(pl, pl > 20)
					}
					var cyc []int
					prev := last
					for i := 0; i < clen; i++ {
						id := g.addAfter(prev)
						cyc = append(cyc, id)
						prev = id
					}
					// close the cycle: the last object must be able to refer to the first
					if only := gOnlyTo(g.tags[cyc[clen-1]]); only != nil && g.tags[cyc[0]] != "pt" {
						g.tags[cyc[0]] = "pt"
						g.slots[cyc[0]] = []string{"-", "-", "-", "-", "-", "-", "-", "-", "-"}
					}
					if last >= 0 {
						if !g.link(last, cyc[0]) {
							continue
						}
					} else {
						root = cyc[0]
					}
					ok := true
					for i := 0; i < clen; i++ {
						ok = ok && g.link(cyc[i], cyc[(i+1)%clen])
					}
					if !ok {
						continue
					}
					for e := rndn(3); e > 0; e-- {
						g.link(pick(cyc), pick(cyc))
					}
					g.leaves()
					graphCase(g.String(), root, mode())
				}
			}
		}
		// (2) acyclic graphs with heavy sharing, bare and behind a prefix that switches tracking on: must be ok
		for _, pl := range []int{0, 0, 0, 3, 998, 999, 1000, 1001} {
			for k := 0; k < 12; k++ {
				if pl > 20 && k >= 4 {
					break
				}
				g := &gGen{}
				root, last := -1, -1
				if pl > 0 {
					root, last = g.chain(pl, pl > 20)
				}
				n := 2 + rndn(6)
				var ids []int
				for i := 0; i < n; i++ {
					ids = append(ids, g.add(pick(gTags)))
				}
				if last >= 0 {
					g.link(last, ids[0])
				} else {
					root = ids[0]
				}
				for i := 0; i < n-1; i++ {
					for e := 1 + rndn(3); e > 0; e-- {
						g.link(ids[i], ids[i+1+rndn(n-1-i)])
					}
				}
				g.leaves()
				graphCase(g.String(), root, mode())
			}
		}
		// (3) cycles that only close after more than 1000 levels
		for _, n := range []int{1001, 1002, 1050, 1100} {
			for k := 0; k < 3; k++ {
				g := &gGen{}
				root, last := g.chain(n, true)
				back := []int{root, root + n/2, last, root + 1000, root + 999}[rndn(5)]
				if back > last {
					back = last
				}
				if !g.link(last, back) {
					g.link(last-1, back)
				}
				graphCase(g.String(), root, mode())
			}
		}
		// (4) small random graphs, any edges
		nr := 250
		for k := 0; k < nr; k++ {
			g := &gGen{}
			n := 1 + rndn(6)
			for i := 0; i < n; i++ {
				g.add(pick(gTags))
			}
			for e := rndn(2 * n); e > 0; e-- {
				g.link(rndn(n), rndn(n))
			}
			g.leaves()
			graphCase(g.String(), rndn(n), mode())
		}
		// (5) self references of every tracked kind at every small depth
		for _, t := range []string{"pt", "pi", "sa", "sn", "ma", "mn", "mi", "hp", "py", "sy", "my"} {
			for _, pl := range []int{0, 999, 1000} {
				g := &gGen{}
				root, last := -1, -1
				if pl > 0 {
					root, last = g.chain(pl, true)
				}
				id := g.add(t)
				g.link(id, id)
				if last >= 0 {
					g.link(last, id)
				} else {
					root = id
				}
				graphCase(g.String(), root, mode())
			}
		}
	}
}
