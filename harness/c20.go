package main

import (
	"fmt"
	"strconv"

	"github.com/segmentio/encoding/ascii"
)

func init() {
	register("c20", c20)
	replayers["a.valid"] = func(a []string) { c20valid(unhex(a[0])) }
	replayers["a.print"] = func(a []string) { c20print(unhex(a[0])) }
	replayers["a.fold"] = func(a []string) { c20fold(unhex(a[0]), unhex(a[1])) }
	replayers["a.prefix"] = func(a []string) { c20prefix(unhex(a[0]), unhex(a[1])) }
	replayers["a.suffix"] = func(a []string) { c20suffix(unhex(a[0]), unhex(a[1])) }
	replayers["a.byte"] = func(a []string) { v, _ := strconv.Atoi(a[0]); c20byte(v) }
}

func tf(b bool) byte {
	if b {
		return 't'
	}
	return 'f'
}

// place copies s at every alignment 0..7 inside a larger buffer (with hostile neighbours) and
// calls f on each placement; the observable is the common answer, or MIXED if they differ.
func placed(s []byte, f func(b []byte, str string) (bool, bool)) (out string) {
	defer func() {
		if recover() != nil {
			out = "PANIC"
		}
	}()
	var res []byte
	for off := 0; off < 8; off++ {
		buf := make([]byte, len(s)+24)
		for i := range buf {
			buf[i] = 0xff
		}
		b := buf[off : off+len(s) : off+len(s)]
		if off%2 == 1 {
			b = buf[off : off+len(s)] // spare capacity holding 0xff bytes: only len(b) bytes belong to the input
		}
		copy(b, s)
		x, y := f(b, string(b))
		if x != y {
			return fmt.Sprintf("VARIANTS-DIFFER off=%d bytes=%v string=%v", off, x, y)
		}
		res = append(res, tf(x))
	}
	for _, r := range res {
		if r != res[0] {
			return "MIXED " + string(res)
		}
	}
	return string(res[:1])
}

func placed2(s, p []byte, f func(a, b []byte, as, bs string) (bool, bool)) (out string) {
	defer func() {
		if recover() != nil {
			out = "PANIC"
		}
	}()
	var res []byte
	for off := 0; off < 8; off += 1 {
		buf := make([]byte, len(s)+24)
		buf2 := make([]byte, len(p)+24)
		for i := range buf {
			buf[i] = 0xff
		}
		for i := range buf2 {
			buf2[i] = 0x00
		}
		a := buf[off : off+len(s) : off+len(s)]
		o2 := (off * 3) % 8
		b := buf2[o2 : o2+len(p) : o2+len(p)]
		if off%2 == 1 {
			a, b = buf[off:off+len(s)], buf2[o2:o2+len(p)] // spare capacity beyond the inputs
		}
		copy(a, s)
		copy(b, p)
		x, y := f(a, b, string(a), string(b))
		if x != y {
			return fmt.Sprintf("VARIANTS-DIFFER off=%d bytes=%v string=%v", off, x, y)
		}
		res = append(res, tf(x))
	}
	for _, r := range res {
		if r != res[0] {
			return "MIXED " + string(res)
		}
	}
	return string(res[:1])
}

func c20valid(s []byte) {
	if !mine() {
		skip()
		return
	}
	o := true
	for _, c := range s {
		if c >= 0x80 {
			o = false
		}
	}
	emit("a.valid", hexs(s), placed(s, func(b []byte, str string) (bool, bool) { return ascii.Valid(b), ascii.ValidString(str) }), string(tf(o)))
}

func c20print(s []byte) {
	if !mine() {
		skip()
		return
	}
	o := true
	for _, c := range s {
		if c < 0x20 || c > 0x7e {
			o = false
		}
	}
	emit("a.print", hexs(s), placed(s, func(b []byte, str string) (bool, bool) { return ascii.ValidPrint(b), ascii.ValidPrintString(str) }), string(tf(o)))
}

func lowerSpec(c byte) byte {
	if c >= 'A' && c <= 'Z' {
		return c + 32
	}
	return c
}

func foldSpec(a, b []byte) bool {
	if len(a) != len(b) {
		return false
	}
	for i := range a {
		if lowerSpec(a[i]) != lowerSpec(b[i]) {
			return false
		}
	}
	return true
}

func c20fold(a, b []byte) {
	if !mine() {
		skip()
		return
	}
	emit("a.fold", hexs(a)+" "+hexs(b), placed2(a, b, func(x, y []byte, xs, ys string) (bool, bool) {
		return ascii.EqualFold(x, y), ascii.EqualFoldString(xs, ys)
	}), string(tf(foldSpec(a, b))))
}

func c20prefix(s, p []byte) {
	if !mine() {
		skip()
		return
	}
	o := len(s) >= len(p) && foldSpec(s[:len(p)], p)
	emit("a.prefix", hexs(s)+" "+hexs(p), placed2(s, p, func(x, y []byte, xs, ys string) (bool, bool) {
		return ascii.HasPrefixFold(x, y), ascii.HasPrefixFoldString(xs, ys)
	}), string(tf(o)))
}

func c20suffix(s, p []byte) {
	if !mine() {
		skip()
		return
	}
	o := len(s) >= len(p) && foldSpec(s[len(s)-len(p):], p)
	emit("a.suffix", hexs(s)+" "+hexs(p), placed2(s, p, func(x, y []byte, xs, ys string) (bool, bool) {
		return ascii.HasSuffixFold(x, y), ascii.HasSuffixFoldString(xs, ys)
	}), string(tf(o)))
}

func c20byte(v int) {
	if !mine() {
		skip()
		return
	}
	// byte and rune predicates: observable is 4 letters
	var impl, orc []byte
	if v >= 0 && v < 256 {
		impl = append(impl, tf(ascii.ValidByte(byte(v))), tf(ascii.ValidPrintByte(byte(v))))
		orc = append(orc, tf(v < 0x80), tf(v >= 0x20 && v <= 0x7e))
	} else {
		impl = append(impl, '-', '-')
		orc = append(orc, '-', '-')
	}
	impl = append(impl, tf(ascii.ValidRune(rune(v))), tf(ascii.ValidPrintRune(rune(v))))
	orc = append(orc, tf(v < 0x80), tf(v >= 0x20 && v <= 0x7e))
	emit("a.byte", strconv.Itoa(v), string(impl), string(orc))
}

func c20() {
	thorough := *tier == "thorough"
	L := 72
	vals := []byte{0x00, 0x1f, 0x20, 0x41, 0x5a, 0x61, 0x7a, 0x7e, 0x7f, 0x80, 0xc1, 0xff}
	if thorough {
		L = 200
	}
	// (1) single deviation from an all-valid string: every length, position, value (alignment inside `placed`)
	for l := 0; l <= L; l++ {
		base := make([]byte, l)
		for i := range base {
			base[i] = byte('a' + i%26)
		}
		c20valid(base)
		c20print(base)
		for pos := 0; pos < l; pos++ {
			vs := vals
			if thorough && l <= 72 {
				vs = nil
				for v := 0; v < 256; v++ {
					vs = append(vs, byte(v))
				}
			}
			for _, v := range vs {
				s := append([]byte(nil), base...)
				s[pos] = v
				c20valid(s)
				c20print(s)
			}
		}
	}
	// (2) fold: every pair of boundary bytes at every position
	fb := []byte{'@', 'A', 'Z', '[', '`', 'a', 'z', '{', 0x00, 0x20, 0x7f, 0x80, 0xc1, 0xe1, 0xff}
	LF := 40
	if thorough {
		LF = 96
	}
	for l := 0; l <= LF; l++ {
		base := make([]byte, l)
		for i := range base {
			if i%2 == 0 {
				base[i] = byte('a' + i%26)
			} else {
				base[i] = byte('A' + i%26)
			}
		}
		other := make([]byte, l)
		for i := range other {
			other[i] = base[i] ^ 0x20 // swap case
		}
		c20fold(base, other)
		c20fold(base, append(other, 'x'))
		if l > 0 {
			c20fold(base, other[:l-1])
		}
		for pos := 0; pos < l; pos++ {
			for _, x := range fb {
				for _, y := range fb {
					if !thorough && l > 20 && (int(x)+int(y)+pos)%3 != 0 {
						continue
					}
					a := append([]byte(nil), base...)
					b := append([]byte(nil), other...)
					a[pos], b[pos] = x, y
					c20fold(a, b)
				}
			}
		}
		// prefix / suffix: every split
		for pl := 0; pl <= l+1; pl++ {
			if pl <= l {
				c20prefix(base, other[:pl])
				c20suffix(base, other[l-pl:])
				if pl > 0 {
					p := append([]byte(nil), other[:pl]...)
					p[pl-1] = pick(fb)
					c20prefix(base, p)
					q := append([]byte(nil), other[l-pl:]...)
					q[0] = pick(fb)
					c20suffix(base, q)
				}
			} else {
				c20prefix(base, append(append([]byte(nil), other...), 'a'))
				c20suffix(base, append([]byte{'a'}, other...))
			}
		}
	}
	// (3) bytes and runes
	for v := -3; v < 300; v++ {
		c20byte(v)
	}
	for _, v := range []int{-1 << 31, -129, 0x7fffffff, 0x10ffff, 0x2028, 65, 128} {
		c20byte(v)
	}
	// (4) random strings
	n := 20000
	if thorough {
		n = 300000
	}
	for i := 0; i < n; i++ {
		l := rndn(100)
		s := make([]byte, l)
		for j := range s {
			switch rndn(20) {
			case 0:
				s[j] = byte(rnd())
			default:
				s[j] = byte(0x20 + rndn(0x5f))
			}
		}
		c20valid(s)
		c20print(s)
		t := append([]byte(nil), s...)
		for j := range t {
			if rndn(3) == 0 {
				t[j] ^= 0x20
			}
		}
		c20fold(s, t)
	}
	// (5) arguments that SHARE memory: two windows of one buffer / two substrings of one string (a pointer-equality
	// shortcut must still compare lengths and contents)
	for _, l := range []int{1, 2, 7, 8, 9, 16, 20, 33} {
		buf := make([]byte, l+4)
		for i := range buf {
			buf[i] = byte('a' + i%26)
			if i%3 == 0 {
				buf[i] -= 32
			}
		}
		for _, w := range [][4]int{{0, l, 0, l}, {0, l, 0, l - 1}, {0, l - 1, 0, l}, {0, l, 0, 1}, {0, 1, 0, l}, {0, l, 1, l + 1}, {1, l, 0, l - 1}, {0, l, 0, 0}, {2, 2 + l/2, 2, 2 + l/2}, {0, l, l / 2, l}, {0, l, 0, l / 2}} {
			if w[1] < w[0] || w[3] < w[2] {
				continue
			}
			c20alias(buf, w)
		}
	}
}

func c20alias(buf []byte, w [4]int) {
	if !mine() {
		skip()
		return
	}
	str := string(buf)
	a, b := buf[w[0]:w[1]], buf[w[2]:w[3]]
	as, bs := str[w[0]:w[1]], str[w[2]:w[3]]
	impl := guarded(func() string {
		r := []byte{tf(ascii.EqualFold(a, b)), tf(ascii.EqualFoldString(as, bs)), tf(ascii.HasPrefixFold(a, b)), tf(ascii.HasPrefixFoldString(as, bs)), tf(ascii.HasSuffixFold(a, b)), tf(ascii.HasSuffixFoldString(as, bs))}
		return string(r)
	})
	ca, cb := append([]byte(nil), a...), append([]byte(nil), b...)
	pre := len(ca) >= len(cb) && foldSpec(ca[:len(cb)], cb)
	suf := len(ca) >= len(cb) && foldSpec(ca[len(ca)-len(cb):], cb)
	eq := foldSpec(ca, cb)
	orc := string([]byte{tf(eq), tf(eq), tf(pre), tf(pre), tf(suf), tf(suf)})
	emit("a.alias", fmt.Sprintf("%s %d %d %d %d", hexs(buf), w[0], w[1], w[2], w[3]), impl, orc)
}
