package main

// Thrift type descriptors / values (coq/Thrift/Model.v: tty / tval), text form shared with the
// OCaml driver, generators, reflect builders.

import (
	"encoding/hex"
	"fmt"
	"math"
	"reflect"
	"sort"
	"strconv"
	"strings"
)

type tkind int

const (
	tBool tkind = iota
	tI8
	tI16
	tI32
	tI64
	tInt
	tF64
	tStr
	tBytes
	tList
	tSet // map[K]struct{}
	tMap
	tStruct
	tPtr
)

var tkindNames = []string{"bool", "i8", "i16", "i32", "i64", "int", "f64", "str", "bytes", "list", "set", "map", "struct", "ptr"}

type tfield struct {
	id       int
	required bool
	optional bool
	enum     bool
	t        *tty
}

type tty struct {
	k      tkind
	elem   *tty
	key    *tty
	fields []tfield
	rt     reflect.Type
}

func (t *tty) String() string {
	switch t.k {
	case tList, tPtr:
		return "(" + tkindNames[t.k] + " " + t.elem.String() + ")"
	case tSet:
		return "(set " + t.key.String() + ")"
	case tMap:
		return "(map " + t.key.String() + " " + t.elem.String() + ")"
	case tStruct:
		var sb strings.Builder
		sb.WriteString("(struct")
		for _, f := range t.fields {
			fl := 0
			if f.required {
				fl |= 4
			}
			if f.optional {
				fl |= 8
			}
			if f.enum {
				fl |= 1
			}
			sb.WriteString(fmt.Sprintf(" (f %d %d %s)", f.id, fl, f.t.String()))
		}
		sb.WriteString(")")
		return sb.String()
	}
	return tkindNames[t.k]
}

var tBasicRT = map[tkind]reflect.Type{
	tBool: reflect.TypeOf(false), tI8: reflect.TypeOf(int8(0)), tI16: reflect.TypeOf(int16(0)), tI32: reflect.TypeOf(int32(0)),
	tI64: reflect.TypeOf(int64(0)), tInt: reflect.TypeOf(int(0)), tF64: reflect.TypeOf(float64(0)), tStr: reflect.TypeOf(""),
	tBytes: reflect.TypeOf([]byte(nil)),
}

func (t *tty) goType() reflect.Type {
	if t.rt != nil {
		return t.rt
	}
	switch t.k {
	case tList:
		t.rt = reflect.SliceOf(t.elem.goType())
	case tPtr:
		t.rt = reflect.PointerTo(t.elem.goType())
	case tSet:
		t.rt = reflect.MapOf(t.key.goType(), reflect.TypeOf(struct{}{}))
	case tMap:
		t.rt = reflect.MapOf(t.key.goType(), t.elem.goType())
	case tStruct:
		var fs []reflect.StructField
		for i, f := range t.fields {
			tag := strconv.Itoa(f.id)
			if f.required {
				tag += ",required"
			}
			if f.optional {
				tag += ",optional"
			}
			if f.enum {
				tag += ",enum"
			}
			fs = append(fs, reflect.StructField{Name: fmt.Sprintf("F%d", i), Type: f.t.goType(), Tag: reflect.StructTag(`thrift:"` + tag + `"`)})
		}
		t.rt = reflect.StructOf(fs)
	default:
		t.rt = tBasicRT[t.k]
	}
	return t.rt
}

type tval struct {
	k     tkind
	b     bool
	i     int64
	f     uint64
	s     []byte
	isnil bool
	elem  *tval
	elems []*tval
	keys  []*tval
}

func (v *tval) String() string {
	switch v.k {
	case tBool:
		if v.b {
			return "t"
		}
		return "f"
	case tI8, tI16, tI32, tI64, tInt:
		return strconv.FormatInt(v.i, 10)
	case tF64:
		return strconv.FormatUint(v.f, 10)
	case tStr:
		return "s:" + hex.EncodeToString(v.s)
	case tBytes:
		if v.isnil {
			return "nil"
		}
		return "b:" + hex.EncodeToString(v.s)
	case tPtr:
		if v.isnil {
			return "nil"
		}
		return "(p " + v.elem.String() + ")"
	case tList:
		if v.isnil {
			return "nil"
		}
		var sb strings.Builder
		sb.WriteString("(l")
		for _, e := range v.elems {
			sb.WriteString(" " + e.String())
		}
		sb.WriteString(")")
		return sb.String()
	case tStruct:
		var sb strings.Builder
		sb.WriteString("(s")
		for _, e := range v.elems {
			sb.WriteString(" " + e.String())
		}
		sb.WriteString(")")
		return sb.String()
	case tSet:
		if v.isnil {
			return "nil"
		}
		var sb strings.Builder
		sb.WriteString("(e")
		for _, e := range v.keys {
			sb.WriteString(" " + e.String())
		}
		sb.WriteString(")")
		return sb.String()
	case tMap:
		if v.isnil {
			return "nil"
		}
		var sb strings.Builder
		sb.WriteString("(m")
		for i := range v.elems {
			sb.WriteString(" (" + v.keys[i].String() + " " + v.elems[i].String() + ")")
		}
		sb.WriteString(")")
		return sb.String()
	}
	return "?"
}

// canon: nil-versus-empty of collections and byte slices erased, sets / maps sorted.
func (v *tval) canon() string {
	switch v.k {
	case tF64:
		if v.f == 1<<63 { // -0 equals +0 (the package elides zero values by ==)
			return "0"
		}
		return strconv.FormatUint(v.f, 10)
	case tBytes:
		return "b:" + hex.EncodeToString(v.s)
	case tPtr:
		if v.isnil {
			return "nil"
		}
		return "(p " + v.elem.canon() + ")"
	case tList, tStruct:
		h := "(l"
		if v.k == tStruct {
			h = "(s"
		}
		var sb strings.Builder
		sb.WriteString(h)
		for _, e := range v.elems {
			sb.WriteString(" " + e.canon())
		}
		sb.WriteString(")")
		return sb.String()
	case tSet:
		var es []string
		for _, e := range v.keys {
			es = append(es, e.canon())
		}
		sort.Strings(es)
		return "(e " + strings.Join(es, " ") + ")"
	case tMap:
		var es []string
		for i := range v.elems {
			es = append(es, "("+v.keys[i].canon()+" "+v.elems[i].canon()+")")
		}
		sort.Strings(es)
		return "(m " + strings.Join(es, " ") + ")"
	}
	return v.String()
}

func (t *tty) toGo(v *tval) reflect.Value {
	rv := reflect.New(t.goType()).Elem()
	switch t.k {
	case tBool:
		rv.SetBool(v.b)
	case tI8, tI16, tI32, tI64, tInt:
		rv.SetInt(v.i)
	case tF64:
		rv.SetFloat(math.Float64frombits(v.f))
	case tStr:
		rv.SetString(string(v.s))
	case tBytes:
		if !v.isnil {
			rv.SetBytes(append(make([]byte, 0, len(v.s)), v.s...))
		}
	case tPtr:
		if !v.isnil {
			p := reflect.New(t.elem.goType())
			p.Elem().Set(t.elem.toGo(v.elem))
			rv.Set(p)
		}
	case tList:
		if !v.isnil {
			s := reflect.MakeSlice(t.goType(), 0, len(v.elems))
			for _, e := range v.elems {
				s = reflect.Append(s, t.elem.toGo(e))
			}
			rv.Set(s)
		}
	case tStruct:
		for i, f := range t.fields {
			rv.Field(i).Set(f.t.toGo(v.elems[i]))
		}
	case tSet:
		if !v.isnil {
			m := reflect.MakeMap(t.goType())
			for _, k := range v.keys {
				m.SetMapIndex(t.key.toGo(k), reflect.ValueOf(struct{}{}))
			}
			rv.Set(m)
		}
	case tMap:
		if !v.isnil {
			m := reflect.MakeMap(t.goType())
			for i := range v.elems {
				m.SetMapIndex(t.key.toGo(v.keys[i]), t.elem.toGo(v.elems[i]))
			}
			rv.Set(m)
		}
	}
	return rv
}

func (t *tty) fromGo(rv reflect.Value) *tval {
	v := &tval{k: t.k}
	switch t.k {
	case tBool:
		v.b = rv.Bool()
	case tI8, tI16, tI32, tI64, tInt:
		v.i = rv.Int()
	case tF64:
		v.f = math.Float64bits(rv.Float())
	case tStr:
		v.s = []byte(rv.String())
	case tBytes:
		v.isnil = rv.IsNil()
		v.s = append([]byte(nil), rv.Bytes()...)
	case tPtr:
		v.isnil = rv.IsNil()
		if !v.isnil {
			v.elem = t.elem.fromGo(rv.Elem())
		}
	case tList:
		v.isnil = rv.IsNil()
		for i := 0; i < rv.Len(); i++ {
			v.elems = append(v.elems, t.elem.fromGo(rv.Index(i)))
		}
	case tStruct:
		for i, f := range t.fields {
			v.elems = append(v.elems, f.t.fromGo(rv.Field(i)))
		}
	case tSet:
		v.isnil = rv.IsNil()
		it := rv.MapRange()
		for it.Next() {
			v.keys = append(v.keys, t.key.fromGo(it.Key()))
		}
	case tMap:
		v.isnil = rv.IsNil()
		it := rv.MapRange()
		for it.Next() {
			v.keys = append(v.keys, t.key.fromGo(it.Key()))
			v.elems = append(v.elems, t.elem.fromGo(it.Value()))
		}
	}
	return v
}

// ---- generators ----

type tgen struct{ maxDepth int }

var tScalars = []tkind{tBool, tI8, tI16, tI32, tI64, tInt, tF64, tStr, tBytes}
var tKeys = []tkind{tBool, tI8, tI16, tI32, tI64, tStr}

func (g *tgen) ty(depth int) *tty {
	r := rndn(100)
	switch {
	case r < 50 || depth >= g.maxDepth:
		return &tty{k: pick(tScalars)}
	case r < 62:
		return &tty{k: tList, elem: g.ty(depth + 1)}
	case r < 68:
		return &tty{k: tSet, key: &tty{k: pick(tKeys)}}
	case r < 76:
		e := g.ty(depth + 1)
		for zeroSize(e) { // map[K]struct{} is the package's representation of a SET
			e = g.ty(depth + 1)
		}
		return &tty{k: tMap, key: &tty{k: pick(tKeys)}, elem: e}
	case r < 90:
		return g.structType(depth + 1)
	}
	e := g.ty(depth + 1)
	for e.k == tPtr {
		e = e.elem
	}
	return &tty{k: tPtr, elem: e}
}

// field id layouts: dense, gaps > 15, ranges > 64 and > 128, descending declaration order
func (g *tgen) structType(depth int) *tty {
	nf := 1 + rndn(6)
	if rndn(15) == 0 {
		nf = 0
	}
	if rndn(20) == 0 {
		nf = 17 + rndn(20)
	}
	t := &tty{k: tStruct}
	used := map[int]bool{}
	layout := rndn(5)
	next := 1
	for i := 0; i < nf; i++ {
		var id int
		switch layout {
		case 0:
			id = next
			next++
		case 1:
			id = next
			next += 1 + rndn(3)
		case 2:
			id = next
			next += pick([]int{1, 15, 16, 17, 40})
		case 3:
			id = next
			next += pick([]int{1, 63, 64, 65, 130, 1000})
		default:
			id = 1 + rndn(200)
		}
		for used[id] {
			id++
		}
		if id > 32767 {
			break
		}
		used[id] = true
		f := tfield{id: id, t: g.ty(depth)}
		switch rndn(6) {
		case 0:
			f.required = true
		case 1:
			f.optional = true
		}
		if f.t.k == tI32 && rndn(4) == 0 {
			// enum on other integer kinds writes an i32 body under the kind's own type code (recorded finding): kept out of the random universe
			f.enum = true
		}
		t.fields = append(t.fields, f)
	}
	if rndBool() { // declaration order need not be id order
		rand := t.fields
		for i := len(rand) - 1; i > 0; i-- {
			j := rndn(i + 1)
			rand[i], rand[j] = rand[j], rand[i]
		}
	}
	return t
}

func (g *tgen) value(t *tty, required bool) *tval {
	v := &tval{k: t.k}
	switch t.k {
	case tBool:
		v.b = rndBool()
	case tI8:
		v.i = int64(int8(pick(int64Edges)))
	case tI16:
		v.i = int64(int16(pick(int64Edges)))
		if rndn(3) == 0 {
			v.i = int64(int16(rnd()))
		}
	case tI32:
		v.i = int64(int32(pick(int64Edges)))
		if rndn(3) == 0 {
			v.i = int64(int32(rnd()))
		}
	case tI64, tInt:
		v.i = pick(int64Edges)
		if rndn(3) == 0 {
			v.i = int64(rnd())
		}
	case tF64:
		v.f = pick(f64Edges)
		if rndn(3) == 0 {
			v.f = rnd()
		}
		// NaN payloads do not survive float64 round trips through reflect.SetFloat on all paths: keep canonical NaN
		if f := math.Float64frombits(v.f); f != f {
			v.f = 0x7ff8000000000001
		}
	case tStr:
		v.s = rndBytes(pick([]int{0, 1, 5, 20}))
	case tBytes:
		v.isnil = rndn(4) == 0
		if !v.isnil {
			v.s = rndBytes(pick([]int{0, 1, 5, 20}))
		}
	case tPtr:
		v.isnil = rndn(3) == 0 && !required // a required field must be set
		if !v.isnil {
			v.elem = g.value(t.elem, false)
		}
	case tList:
		n := pick([]int{0, 0, 1, 2, 3, 14, 15, 16})
		if rndn(4) != 0 && n > 3 {
			n = rndn(4)
		}
		v.isnil = n == 0 && rndBool()
		for i := 0; i < n; i++ {
			e := g.value(t.elem, false)
			for e.k == tPtr && e.isnil {
				e = g.value(t.elem, false)
			}
			v.elems = append(v.elems, e)
		}
	case tStruct:
		for _, f := range t.fields {
			fv := g.value(f.t, f.required)
			if f.enum {
				fv.i = int64(int32(fv.i))
			}
			if rndn(4) == 0 && !(f.required && f.t.k == tPtr) {
				fv = tzeroSet(f.t)
			}
			v.elems = append(v.elems, fv)
		}
	case tSet, tMap:
		n := pick([]int{0, 0, 1, 1, 2, 3})
		v.isnil = n == 0 && rndBool()
		seen := map[string]bool{}
		for i := 0; i < n; i++ {
			k := g.value(t.key, false)
			if seen[k.String()] {
				continue
			}
			seen[k.String()] = true
			v.keys = append(v.keys, k)
			if t.k == tMap {
				e := g.value(t.elem, false)
				for e.k == tPtr && e.isnil {
					e = g.value(t.elem, false)
				}
				v.elems = append(v.elems, e)
			}
		}
	}
	return v
}

func tzero(t *tty) *tval {
	v := &tval{k: t.k}
	switch t.k {
	case tBytes, tPtr, tList, tSet, tMap:
		v.isnil = true
	case tStruct:
		for _, f := range t.fields {
			v.elems = append(v.elems, tzero(f.t))
		}
	}
	return v
}

func (v *tval) multiEntry() bool {
	if v == nil {
		return false
	}
	if (v.k == tMap || v.k == tSet) && len(v.keys) > 1 {
		return true
	}
	if v.elem.multiEntry() {
		return true
	}
	for _, e := range v.elems {
		if e.multiEntry() {
			return true
		}
	}
	return false
}

func ttyFromSx(x *sx) *tty {
	if x.list == nil {
		for i, n := range tkindNames {
			if n == x.atom {
				return &tty{k: tkind(i)}
			}
		}
		panic("bad thrift type " + x.atom)
	}
	switch x.list[0].atom {
	case "list":
		return &tty{k: tList, elem: ttyFromSx(x.list[1])}
	case "ptr":
		return &tty{k: tPtr, elem: ttyFromSx(x.list[1])}
	case "set":
		return &tty{k: tSet, key: ttyFromSx(x.list[1])}
	case "map":
		return &tty{k: tMap, key: ttyFromSx(x.list[1]), elem: ttyFromSx(x.list[2])}
	case "struct":
		t := &tty{k: tStruct}
		for _, fx := range x.list[1:] {
			id, _ := strconv.Atoi(fx.list[1].atom)
			fl, _ := strconv.Atoi(fx.list[2].atom)
			t.fields = append(t.fields, tfield{id: id, enum: fl&1 != 0, required: fl&4 != 0, optional: fl&8 != 0, t: ttyFromSx(fx.list[3])})
		}
		return t
	}
	panic("bad thrift type")
}

func tvalFromSx(t *tty, x *sx) *tval {
	v := &tval{k: t.k}
	unh := func(s string) []byte {
		b, err := hex.DecodeString(s[2:])
		if err != nil {
			panic(err)
		}
		return b
	}
	switch t.k {
	case tBool:
		v.b = x.atom == "t"
	case tI8, tI16, tI32, tI64, tInt:
		v.i, _ = strconv.ParseInt(x.atom, 10, 64)
	case tF64:
		v.f, _ = strconv.ParseUint(x.atom, 10, 64)
	case tStr:
		v.s = unh(x.atom)
	case tBytes:
		if x.atom == "nil" {
			v.isnil = true
		} else {
			v.s = unh(x.atom)
		}
	case tPtr:
		if x.list == nil {
			v.isnil = true
		} else {
			v.elem = tvalFromSx(t.elem, x.list[1])
		}
	case tList:
		if x.list == nil {
			v.isnil = true
		} else {
			for _, e := range x.list[1:] {
				v.elems = append(v.elems, tvalFromSx(t.elem, e))
			}
		}
	case tStruct:
		for i, f := range t.fields {
			v.elems = append(v.elems, tvalFromSx(f.t, x.list[1+i]))
		}
	case tSet:
		if x.list == nil {
			v.isnil = true
		} else {
			for _, e := range x.list[1:] {
				v.keys = append(v.keys, tvalFromSx(t.key, e))
			}
		}
	case tMap:
		if x.list == nil {
			v.isnil = true
		} else {
			for _, e := range x.list[1:] {
				v.keys = append(v.keys, tvalFromSx(t.key, e.list[0]))
				v.elems = append(v.elems, tvalFromSx(t.elem, e.list[1]))
			}
		}
	}
	return v
}

func zeroSize(t *tty) bool {
	if t.k != tStruct {
		return false
	}
	for _, f := range t.fields {
		if !zeroSize(f.t) {
			return false
		}
	}
	return true
}
