(* C15 driver: runs the extracted model of encodeBytes on the (len, cap, vlen) cases of the harness. *)
open Model_c15
let rec nat_of_int n = if n <= 0 then O else S (nat_of_int (n - 1))
let rec int_of_nat = function O -> 0 | S n -> 1 + int_of_nat n
let rec rep x n = if n <= 0 then [] else x :: rep x (n - 1)
let () =
  try
    while true do
      let line = input_line stdin in
      (match String.split_on_char '\t' line with
       | [ "j.encbytes"; args ] ->
         (match List.map int_of_string (String.split_on_char ' ' args) with
          | [ l; c; vlen ] ->
            let body = rep Z0 ((vlen + 2) / 3 * 4) in
            let b = { cells = rep Z0 c; slen = nat_of_int l } in
            let (r, re) = encode_bytes b body in
            (* a zero-capacity destination has no array to keep: the harness reports it as reallocated *)
            let re = re || c = 0 in
            Printf.printf "%d %d %s\t-\n" (int_of_nat r.slen) (List.length r.cells) (if re then "true" else "false")
          | _ -> print_string "-\t-\n")
       | _ -> print_string "-\t-\n")
    done
  with End_of_file -> ()
