(* Driver for the extracted cache machine (C09): reads "<fn> TAB <args>" lines on stdin, prints
   "<model of impl> TAB <model of oracle>" per line. Only conversions live here; the logic is the extracted Gallina.

   m.hist   args = MODE ROOTS|ADJ|MEMO|HIST|PRE
            MODE: cow (lock-free copy-on-write) or lk (mutex variant); ROOTS: one or pair (T = 2k, pointer to T = 2k+1)
            ADJ: id:kid,kid;id:...   MEMO: ids registered early in the seen map   HIST: requested ids in order
            output: per call m (a new map was published) or h (pointer unchanged) and the size of the current map
   c.proto.typeof.same   the theorem typeof_unique: all goroutines obtain the same object
   anything else: the model has nothing to say *)
open Model_c09

let rec nat_of_int n = if n <= 0 then O else S (nat_of_int (n - 1))
let rec int_of_nat = function O -> 0 | S n -> 1 + int_of_nat n

let split_on c s = String.split_on_char c s
let ints s = List.filter_map (fun x -> if x = "" then None else Some (int_of_string x)) (split_on ' ' s)

let hist args =
  match split_on '|' args with
  | [mode; adj; memo; hist; pre] ->
      let lk, pair = (match split_on ' ' mode with
        | [a; b] -> (a = "lk", b = "pair")
        | _ -> failwith "mode") in
      let tbl = Hashtbl.create 16 in
      List.iter (fun ent ->
        if ent <> "" then
          match split_on ':' ent with
          | [i; ks] ->
              let kids = List.filter_map (fun x -> if x = "" then None else Some (nat_of_int (int_of_string x))) (split_on ',' ks) in
              Hashtbl.replace tbl (int_of_string i) kids
          | _ -> failwith "adj") (split_on ';' adj);
      let g t = (try Hashtbl.find tbl (int_of_nat t) with Not_found -> []) in
      let memos = ints memo in
      let memo_f t = List.mem (int_of_nat t) memos in
      let roots =
        if pair then roots_pair (fun t -> let n = int_of_nat t in nat_of_int (n - n mod 2)) (fun b -> S b)
        else roots_one in
      (* PRE: requests made before the observed history (warm entries); sizes are counted from the end of PRE *)
      let pre = ints pre in
      let obs = seq_obs g memo_f roots lk (nat_of_int 20000) (List.map nat_of_int (pre @ ints hist)) in
      let rec drop k l base = if k = 0 then (l, base) else (match l with [] -> ([], base) | (_, n) :: r -> drop (k - 1) r (int_of_nat n)) in
      let obs, base = drop (List.length pre) obs 0 in
      String.concat " " (List.map (fun (miss, n) -> (if miss then "m" else "h") ^ string_of_int (int_of_nat n - base)) obs)
  | _ -> failwith "args"

let () =
  try
    while true do
      let line = input_line stdin in
      let fn, args = (match String.index_opt line '\t' with
        | Some i -> (String.sub line 0 i, String.sub line (i + 1) (String.length line - i - 1))
        | None -> (line, "")) in
      let out =
        (try
          match fn with
          | "m.hist" -> hist args ^ "\t-"
          | "c.proto.typeof.same" ->
              let n = String.length args in
              if n >= 7 && String.sub args (n - 7) 7 = "summary" then "-\t-" else "same\tsame"
          | _ -> "-\t-"
        with e -> "model-error:" ^ Printexc.to_string e ^ "\t-") in
      print_string out; print_newline ()
    done
  with End_of_file -> ()
