(* Driver for the extracted models: reads "<fn> TAB <args>" lines on stdin, prints one
   observable per line. Only conversions between OCaml values and the extracted inductives
   live here; all logic is the extracted Gallina. *)
open Model

let rec pos_of_int n =
  if n = 1 then XH else if n land 1 = 0 then XO (pos_of_int (n lsr 1)) else XI (pos_of_int (n lsr 1))
let z_of_int n = if n = 0 then Z0 else if n > 0 then Zpos (pos_of_int n) else Zneg (pos_of_int (-n))
let rec nat_of_int n = if n <= 0 then O else S (nat_of_int (n - 1))

(* decimal <-> Z without bounds *)
let z_of_string s =
  let neg = String.length s > 0 && s.[0] = '-' in
  let ten = z_of_int 10 in
  let acc = ref Z0 in
  String.iteri (fun i c -> if not (neg && i = 0) then
    acc := Z.add (Z.mul !acc ten) (z_of_int (Char.code c - 48))) s;
  if neg then Z.opp !acc else !acc

let dec_of_pos p =
  (* bits msb first *)
  let rec bits p acc = match p with XH -> 1 :: acc | XO q -> bits q (0 :: acc) | XI q -> bits q (1 :: acc) in
  let bs = bits p [] in
  let digits = ref [0] in (* little endian decimal *)
  List.iter (fun b ->
    let carry = ref b in
    digits := List.map (fun d -> let v = d * 2 + !carry in carry := v / 10; v mod 10) !digits;
    if !carry > 0 then digits := !digits @ [!carry]) bs;
  String.concat "" (List.rev_map string_of_int !digits)
let string_of_z = function Z0 -> "0" | Zpos p -> dec_of_pos p | Zneg p -> "-" ^ dec_of_pos p

let hexval c = match c with '0'..'9' -> Char.code c - 48 | 'a'..'f' -> Char.code c - 87 | _ -> failwith "hex"
let bytes_of_hex s =
  if s = "-" then [] else
  let n = String.length s / 2 in
  List.init n (fun i -> z_of_int (hexval s.[2*i] * 16 + hexval s.[2*i+1]))
let int_of_z z = int_of_string (string_of_z z)
let hex_of_bytes l =
  if l = [] then "-" else String.concat "" (List.map (fun z -> Printf.sprintf "%02x" (int_of_z z)) l)

let split_on c s = String.split_on_char c s

let time_obs ((sec, ns), off) = Printf.sprintf "ok %s %s %s" (string_of_z sec) (string_of_z ns) (string_of_z off)

let tf b = if b then "t" else "f"

(* ---- s-expressions shared with the Go harness (proto / thrift type and value descriptors) ---- *)
type sx = Atom of string | List of sx list
let parse_sx (s : string) : sx =
  let n = String.length s in
  let pos = ref 0 in
  let rec skip () = if !pos < n && s.[!pos] = ' ' then (incr pos; skip ()) in
  let rec one () =
    skip ();
    if s.[!pos] = '(' then begin
      incr pos;
      let items = ref [] in
      let rec loop () = skip (); if s.[!pos] = ')' then incr pos else (items := one () :: !items; loop ()) in
      loop (); List (List.rev !items)
    end else begin
      let st = !pos in
      while !pos < n && s.[!pos] <> ' ' && s.[!pos] <> '(' && s.[!pos] <> ')' do incr pos done;
      Atom (String.sub s st (!pos - st))
    end in
  one ()

let sub_from s i = String.sub s i (String.length s - i)
let hexpart a = bytes_of_hex (let h = sub_from a 2 in if h = "" then "-" else h)

let rec gty_of_sx (x : sx) : gty =
  match x with
  | Atom "bool" -> TBool | Atom "int" -> TInt | Atom "i32" -> TInt32 | Atom "i64" -> TInt64
  | Atom "uint" -> TUint | Atom "u32" -> TUint32 | Atom "u64" -> TUint64 | Atom "f32" -> TFloat32 | Atom "f64" -> TFloat64
  | Atom "str" -> TString | Atom "bytes" -> TBytes | Atom "raw" -> TRawMessage
  | List [Atom "arr"; Atom n] -> TByteArray (nat_of_int (int_of_string n))
  | List [Atom "ptr"; t] -> TPtr (gty_of_sx t)
  | List [Atom "slice"; t] -> TSlice (gty_of_sx t)
  | List [Atom "map"; k; v] -> TMap (gty_of_sx k, gty_of_sx v)
  | List (Atom "struct" :: fs) ->
      TStruct (List.map (fun f -> match f with
        | List [Atom "f"; Atom "-"; t] -> GField (true, None, gty_of_sx t)
        | List [Atom "f"; List [Atom "t"; Atom w; Atom n; Atom r; Atom z]; t] ->
            GField (true, Some { tag_wire = z_of_int (int_of_string w); tag_number = z_of_int (int_of_string n);
                                 tag_repeated = (r = "1"); tag_zigzag = (z = "1") }, gty_of_sx t)
        | _ -> failwith "bad field") fs)
  | _ -> failwith "bad type"

let rec val_of_sx (t : gty) (x : sx) : val0 =
  match t, x with
  | TBool, Atom a -> VBool (a = "t")
  | (TInt | TInt32 | TInt64 | TUint | TUint32 | TUint64 | TFloat32 | TFloat64), Atom a -> VInt (z_of_string a)
  | TString, Atom a -> VStr (hexpart a)
  | TBytes, Atom "nil" -> VBytes (false, [])
  | TBytes, Atom a -> VBytes (true, hexpart a)
  | TRawMessage, Atom "nil" -> VRaw (false, [])
  | TRawMessage, Atom a -> VRaw (true, hexpart a)
  | TByteArray _, Atom a -> VArr (hexpart a)
  | TPtr _, Atom "nil" -> VPtr None
  | TPtr t', List [Atom "p"; v] -> VPtr (Some (val_of_sx t' v))
  | TStruct fs, List (Atom "s" :: vs) -> VStruct (List.map2 (fun f v -> match f with GField (_, _, ft) -> val_of_sx ft v) fs vs)
  | TSlice t', List (Atom "l" :: vs) -> VSlice (List.map (val_of_sx t') vs)
  | TMap (_, _), Atom "nilmap" -> VMap (false, [])
  | TMap (kt, vt), List (Atom "m" :: es) ->
      VMap (true, List.map (fun e -> match e with List [k; v] -> (val_of_sx kt k, val_of_sx vt v) | _ -> failwith "bad entry") es)
  | _ -> failwith "bad value"

let hexstr l = String.concat "" (List.map (fun z -> Printf.sprintf "%02x" (int_of_z z)) l)
(* canonical text of a value: nil-vs-empty erased, map entries sorted (same as harness canon()) *)
let rec canon (v : val0) : string =
  match v with
  | VBool b -> if b then "t" else "f"
  | VInt z -> string_of_z z
  | VStr s -> "s:" ^ hexstr s
  | VBytes (_, s) -> "b:" ^ hexstr s
  | VRaw (_, s) -> "r:" ^ hexstr s
  | VArr s -> "a:" ^ hexstr s
  | VPtr None -> "nil"
  | VPtr (Some x) -> "(p " ^ canon x ^ ")"
  | VStruct vs -> "(s" ^ String.concat "" (List.map (fun x -> " " ^ canon x) vs) ^ ")"
  | VSlice vs -> "(l" ^ String.concat "" (List.map (fun x -> " " ^ canon x) vs) ^ ")"
  | VMap (_, es) ->
      let items = List.sort compare (List.map (fun (k, x) -> "(" ^ canon k ^ " " ^ canon x ^ ")") es) in
      "(m " ^ String.concat " " items ^ ")"

let split_bar s = String.split_on_char '|' s
let errclass (e : proto_error option) = match e with
  | None -> "nil" | Some Proto_ErrShortBuffer -> "short" | Some Proto_ErrUnexpectedEOF -> "eof" | Some _ -> "other"
let rec repeat_z n = if n <= 0 then [] else Z0 :: repeat_z (n - 1)
let big_fuel = nat_of_int 4000

(* ---- thrift ---- *)
let rec tty_of_sx (x : sx) : tty =
  match x with
  | Atom "bool" -> ThBool | Atom "i8" -> ThI8 | Atom "i16" -> ThI16 | Atom "i32" -> ThI32
  | Atom "i64" | Atom "int" -> ThI64 | Atom "f64" -> ThF64 | Atom "str" -> ThStr | Atom "bytes" -> ThBytes
  | List [Atom "list"; t] -> ThList (tty_of_sx t)
  | List [Atom "set"; t] -> ThSet (tty_of_sx t)
  | List [Atom "map"; k; v] -> ThMap (tty_of_sx k, tty_of_sx v)
  | List [Atom "ptr"; t] -> ThPtr (tty_of_sx t)
  | List (Atom "struct" :: fs) ->
      ThStruct (List.map (fun f -> match f with
        | List [Atom "f"; Atom id; Atom fl; t] -> TField (z_of_int (int_of_string id), z_of_int (int_of_string fl), tty_of_sx t)
        | _ -> failwith "bad thrift field") fs)
  | _ -> failwith "bad thrift type"

let rec tval_of_sx (t : tty) (x : sx) : tval =
  match t, x with
  | ThBool, Atom a -> TvBool (a = "t")
  | (ThI8 | ThI16 | ThI32 | ThI64 | ThF64), Atom a -> TvInt (z_of_string a)
  | ThStr, Atom a -> TvBytes (true, hexpart a)
  | ThBytes, Atom "nil" -> TvBytes (false, [])
  | ThBytes, Atom a -> TvBytes (true, hexpart a)
  | ThPtr _, Atom "nil" -> TvPtr None
  | ThPtr t', List [Atom "p"; v] -> TvPtr (Some (tval_of_sx t' v))
  | ThList _, Atom "nil" -> TvList (false, [])
  | ThList t', List (Atom "l" :: vs) -> TvList (true, List.map (tval_of_sx t') vs)
  | ThSet _, Atom "nil" -> TvSet (false, [])
  | ThSet k, List (Atom "e" :: vs) -> TvSet (true, List.map (tval_of_sx k) vs)
  | ThMap (_, _), Atom "nil" -> TvMap (false, [])
  | ThMap (kt, vt), List (Atom "m" :: es) ->
      TvMap (true, List.map (fun e -> match e with List [k; v] -> (tval_of_sx kt k, tval_of_sx vt v) | _ -> failwith "bad entry") es)
  | ThStruct fs, List (Atom "s" :: vs) -> TvStruct (List.map2 (fun f v -> match f with TField (_, _, ft) -> tval_of_sx ft v) fs vs)
  | _ -> failwith "bad thrift value"

let two63 = z_of_string "9223372036854775808"
let rec tcanon (t : tty) (v : tval) : string =
  match t, v with
  | _, TvBool b -> if b then "t" else "f"
  | ThF64, TvInt z -> if string_of_z z = "9223372036854775808" then "0" else string_of_z z
  | _, TvInt z -> string_of_z z
  | ThStr, TvBytes (_, s) -> "s:" ^ hexstr s
  | _, TvBytes (_, s) -> "b:" ^ hexstr s
  | _, TvPtr None -> "nil"
  | ThPtr t', TvPtr (Some x) -> "(p " ^ tcanon t' x ^ ")"
  | ThList t', TvList (_, vs) -> "(l" ^ String.concat "" (List.map (fun x -> " " ^ tcanon t' x) vs) ^ ")"
  | ThStruct fs, TvStruct vs ->
      "(s" ^ String.concat "" (List.map2 (fun f x -> match f with TField (_, _, ft) -> " " ^ tcanon ft x) fs vs) ^ ")"
  | ThSet k, TvSet (_, ks) -> "(e " ^ String.concat " " (List.sort compare (List.map (tcanon k) ks)) ^ ")"
  | ThMap (kt, vt), TvMap (_, es) ->
      "(m " ^ String.concat " " (List.sort compare (List.map (fun (k, x) -> "(" ^ tcanon kt k ^ " " ^ tcanon vt x ^ ")") es)) ^ ")"
  | _ -> "?"

let tproto_of = function "c" -> PCompact | _ -> PBinary
let terr_name = function EEOF -> "eof" | EUnexpectedEOF -> "ueof" | EOther -> "other" | EMissing -> "missing" | EMismatch -> "mismatch"

let thrift_run fn argstr =
  match fn, String.split_on_char '|' argstr with
  | ("t.rt" | "t.reset"), [ts; vs; p] ->
      let t = tty_of_sx (parse_sx ts) in
      let v = tval_of_sx t (parse_sx vs) in
      let b = tMarshal (tproto_of p) t v in
      if not (ty_ok t && tval_wf t v) then "NOT-IN-UNIVERSE" else
      (match tUnmarshal (nat_of_int (2 * List.length b + 50)) (tproto_of p) t b with
       | TOk r -> if tcanon t (tnorm t r) = tcanon t (tnorm t v) then tcanon t r else "SPEC-REFUTED:" ^ tcanon t r
       | TErr _ -> if fn = "t.rt" then "err:unmarshal" else "err:decode-after-reset"
       | TPanic -> "PANIC"
       | TOutOfFuel -> "OUTOFFUEL")
  | "t.enc", [ts; vs; p] ->
      let t = tty_of_sx (parse_sx ts) in
      let v = tval_of_sx t (parse_sx vs) in
      let mb = tMarshal (tproto_of p) t v in
      if not (ty_ok t && tval_wf t v) then "NOT-IN-UNIVERSE"
      else if spec_enc pkg_dev (tproto_of p) t v <> mb then "SPEC-REFUTED:" ^ hex_of_bytes (spec_enc pkg_dev (tproto_of p) t v)
      else hex_of_bytes mb
  | "t.dec", [ts; h; p] ->
      let t = tty_of_sx (parse_sx ts) in
      let b = bytes_of_hex h in
      (match tUnmarshal (nat_of_int (List.length b + 50)) (tproto_of p) t b with
       | TOk r -> tcanon t r
       | TErr e -> "err:" ^ terr_name e
       | TPanic -> "PANIC"
       | TOutOfFuel -> "OUTOFFUEL")
  | ("t.msg" | "t.longcut" | "t.void" | "t.deep" | "t.deep.deepnest"), _ -> "-\t-"   (* message headers and long truncated strings: compared with the specification / oracle only *)
  | ("t.rt.x" | "t.enc.x"), _ -> "-\t-"   (* shapes outside the universe of the model (enum on other widths than i32) *)
  | "t.strict", [ts; h; p] ->
      (* Decoder.Decode after SetStrict(true): Thrift/SpecC.v TDecode *)
      let t = tty_of_sx (parse_sx ts) in
      let b = bytes_of_hex h in
      (match tDecode (nat_of_int (List.length b + 50)) true (tproto_of p) t b with
       | TOk r -> tcanon t r
       | TErr e -> "err:" ^ terr_name e
       | TPanic -> "PANIC"
       | TOutOfFuel -> "OUTOFFUEL")
  | _ -> "-\t-"

(* ---- json.Decoder under a scripted reader / json.Tokenizer ---- *)
let compact_json (b : int list) : string =
  let buf = Buffer.create 64 in
  let rec go instr esc = function
    | [] -> ()
    | c :: r ->
        if instr then begin
          Buffer.add_char buf (Char.chr c);
          if esc then go true false r
          else if c = 92 then go true true r
          else if c = 34 then go false false r
          else go true false r
        end else if c = 32 || c = 9 || c = 10 || c = 13 then go false false r
        else begin Buffer.add_char buf (Char.chr c); go (c = 34) false r end in
  go false false b; Buffer.contents buf

let fnv (s : string) : int64 =
  let h = ref 0xcbf29ce484222325L in
  String.iter (fun c -> h := Int64.mul (Int64.logxor !h (Int64.of_int (Char.code c))) 1099511628211L) s; !h

let rec take n l = if n <= 0 then [] else match l with [] -> [] | x :: r -> x :: take (n - 1) r
let rec drop n l = if n <= 0 then l else match l with [] -> [] | _ :: r -> drop (n - 1) r

(* the harness's scriptReader, as a script of read results (see harness/c11.go) *)
let make_script (data : int list) (mode : string) (fail_at : int) : (bytes * rerr option) list * rerr =
  let limit = if fail_at >= 0 && fail_at < List.length data then fail_at else List.length data in
  let data = take limit data in
  let term = if fail_at >= 0 then RFail else REOF in
  let zl l = List.map z_of_int l in
  let chunks =
    match mode with
    | "all" -> if data = [] then [] else [ (zl data, None) ]
    | "dataerr" -> if data = [] then [] else [ (zl data, Some term) ]
    | "one" -> List.map (fun c -> (zl [c], None)) data
    | "z" -> List.concat_map (fun c -> [ ([], None); (zl [c], None) ]) data
    | m when String.length m > 1 && m.[0] = 'r' ->
        let k = int_of_string (String.sub m 1 (String.length m - 1)) in
        let rs = ref 0L in
        let rec go d acc =
          if d = [] then List.rev acc else begin
            rs := Int64.add (Int64.add (Int64.mul !rs 6364136223846793005L) 1442695040888963407L) (Int64.of_int k);
            let n = 1 + Int64.to_int (Int64.rem (Int64.shift_right_logical !rs 33) (Int64.of_int k)) in
            go (drop n d) ((zl (take n d), None) :: acc) end in
        go data []
    | _ -> [ (zl data, None) ] in
  (chunks, term)

let json_run fn argstr =
  match fn, String.split_on_char ' ' argstr with
  | "j.valid", [h] ->
      let b = bytes_of_hex h in
      let fuel = nat_of_int (2 * List.length b + 8) in
      (match json_Valid fuel b with None -> "OUTOFFUEL" | Some r -> tf r) ^ "\t" ^ tf (std_valid b)
  | "j.validg", [h] ->
      (* beyond encoding/json's depth limit the oracle is the RFC 8259 grammar itself *)
      let b = bytes_of_hex h in
      let fuel = nat_of_int (2 * List.length b + 8) in
      (match json_Valid fuel b with None -> "OUTOFFUEL" | Some r -> tf r) ^ "\t" ^ tf (g_valid b)
  | "j.tok", [h] | "j.tokreuse", [_; h] ->
      let b = bytes_of_hex h in
      (match tokenize b with
       | None -> "OUTOFFUEL"
       | Some (toks, st) ->
           let show t =
             let d = int_of_z t.k_delim in
             if d = 44 || d = 58 || d = 93 || d = 125 then hex_of_bytes t.k_value
             else Printf.sprintf "%s/%s/%s/%d" (hex_of_bytes t.k_value) (string_of_z t.k_depth) (string_of_z t.k_index) (if t.k_iskey then 1 else 0) in
           String.concat " " (List.map show toks @ (if st.t_err then ["ERR"] else [])))
      ^ "\t" ^
      (* the grammar-derived specification tokens (Json/StateSpec.v), compared with the std-derived oracle *)
      (if fn <> "j.tok" then "-" else
       match spec_tokens b with
       | None -> "-"
       | Some ss ->
           String.concat " " (List.map (fun s ->
             if s.st_constrained then Printf.sprintf "%s/%s/%s/%d" (hex_of_bytes s.st_value) (string_of_z s.st_depth) (string_of_z s.st_index) (if s.st_iskey then 1 else 0)
             else hex_of_bytes s.st_value) ss))
  | "j.stream", [a] ->
      (match String.split_on_char '|' a with
       | [h; mode; fa] ->
           if String.length h > 2 * 300 then "-\t-" else   (* the extracted model is quadratic in the stream length: short streams only *)
           let data = List.map int_of_z (bytes_of_hex h) in
           let (script, term) = make_script data mode (int_of_string fa) in
           let n = List.length data in
           let ((vals, fin), _) = decode_all (nat_of_int (n + 2)) (nat_of_int (n + List.length script + 40)) (nat_of_int (2 * n + 8)) (d_init script term) [] [] in
           let fs = (match fin with
             | DError REOF -> "eof" | DError RUnexpectedEOF -> "badinput" | DError RFail -> "readerr" | DSyntax -> "badinput"
             | DValue _ -> "?" | DOutOfFuel -> "OUTOFFUEL") in
           let out = String.concat " " (List.map (fun v -> compact_json (List.map int_of_z v)) vals @ [fs]) in
           let out = if String.length out > 600
             then Printf.sprintf "len=%d h=%Lx tail=%s" (String.length out) (fnv out) (String.sub out (String.length out - 40) 40)
             else out in
           let spec =
             if int_of_string fa >= 0 then "-" else
             (match frame (nat_of_int (n + 1)) (List.map z_of_int data) with
              | (vs, true) ->
                  let o = String.concat " " (List.map (fun v -> compact_json (List.map int_of_z v)) vs @ ["eof"]) in
                  if String.length o > 600
                  then Printf.sprintf "len=%d h=%Lx tail=%s" (String.length o) (fnv o) (String.sub o (String.length o - 40) 40) else o
              | _ -> "-") in
           out ^ "\t" ^ spec
       | _ -> "bad-args")
  | "j.escidx", [h; html] ->
      let b = bytes_of_hex h in
      let fuel = nat_of_int (List.length b + 2) in
      (match json_escapeIndex fuel b (html = "1") with None -> "OUTOFFUEL" | Some r -> string_of_z r)
      ^ "\t" ^ string_of_z (first_index (needs_escape_json (html = "1")) Z0 b)
  | _ -> "-\t-"   (* not modelled: compared with the oracle only *)

let proto_run fn argstr =
  match fn, split_bar argstr with
  | "p.enc", [ts; vs] ->
      let t0 = gty_of_sx (parse_sx ts) in
      let v0 = val_of_sx t0 (parse_sx vs) in
      (* the harness always passes a POINTER to the value *)
      let t = TPtr t0 and v = VPtr (Some v0) in
      let n = size0 t v in
      (match marshal t v with
       | Ok (Some b) -> Printf.sprintf "size=%s marshal=%s" (string_of_z n) (hex_of_bytes b)
       | Ok None -> Printf.sprintf "size=%s marshal=err" (string_of_z n)
       | _ -> "PANIC")
  | "p.rt", [ts; vs] ->
      let t = gty_of_sx (parse_sx ts) in
      let v = val_of_sx t (parse_sx vs) in
      let m = (match marshal (TPtr t) (VPtr (Some v)) with
       | Ok (Some b) ->
           (match unmarshal big_fuel t b (zero_val t) with
            | Ok (Some r) -> canon r
            | Ok None -> "err:unmarshal"
            | Panic -> "PANIC"
            | OutOfFuel -> "OUTOFFUEL")
       | Ok None -> "err:marshal"
       | _ -> "PANIC") in
      (* what Proto/Spec.v predicts (roundtrip_statement): checked against the harness oracle *)
      let inuni = type_ok t && numbers_ok (codec_of t) && wf_val t v in
      let spec = if not inuni then "NOT-IN-UNIVERSE"
                 else if representable v && keys_distinct v then
                   (if m = canon (norm v) then m else "SPEC-REFUTED:" ^ canon (norm v))
                 else "-" in
      m ^ "\t" ^ spec
  | "p.mto", [ts; vs; ls] ->
      let t = gty_of_sx (parse_sx ts) in
      let v = val_of_sx t (parse_sx vs) in
      let l = int_of_string ls in
      (match marshalTo (TPtr t) (repeat_z l) (VPtr (Some v)) with
       | Ok ((n, e), b) ->
           (match e with
            | None ->
                let n' = int_of_z n in
                if n' < 0 || n' > l then Printf.sprintf "ok n=%d OUT-OF-RANGE" n'
                else Printf.sprintf "ok n=%d %s" n' (hex_of_bytes (List.filteri (fun i _ -> i < n') b))
            | _ -> errclass e)
       | _ -> "PANIC")
  | "p.dec", [ts; h] ->
      let t = gty_of_sx (parse_sx ts) in
      (match unmarshal big_fuel t (bytes_of_hex h) (zero_val t) with
       | Ok (Some r) -> canon r
       | Ok None -> "err"
       | Panic -> "PANIC"
       | OutOfFuel -> "OUTOFFUEL")
  | ("p.topto" | "p.unexp" | "p.seq" | "p.alloc" | "p.custom" | "p.customwire" | "p.boundto" | "p.big" | "p.bigfield"), _ -> "-\t-"   (* declared Go shapes and top-level scalars: outside the descriptor universe of the model *)
  | "p.scan", [h] ->
      (match scan0 (bytes_of_hex h) with
       | ROk l -> "ok " ^ String.concat "" (List.map (fun ((f, t), v) -> Printf.sprintf "%s:%s:%s " (string_of_z f) (string_of_z t) (hex_of_bytes v)) l)
       | RErr _ -> "err"
       | RPanic -> "PANIC"
       | RFuel -> "OUTOFFUEL")
  | _ -> "unknown-fn"

let both x y = if x = y then tf x else "MODEL-VARIANTS-DIFFER"

let run fn args =
  match fn, args with
  | "parse", [h] ->
      let b = bytes_of_hex h in
      let (t, e) = iso8601_Parse b in
      let m1 = (match e with None -> time_obs t | Some _ -> "err") in
      let (t2, e2) = time_parse rfc3339nano_layout b in
      let m2 = (match e2 with None -> time_obs t2 | Some _ -> "err") in
      m1 ^ "\t" ^ m2
  | "valid", [h; f] ->
      let b = bytes_of_hex h in
      let fl = z_of_int (int_of_string f) in
      (match iso8601_Valid (nat_of_int 10) b fl with
       | None -> "outoffuel"
       | Some r -> (if r then "true" else "false")) ^ "\t" ^ (if iso_spec fl b then "true" else "false")
  | "a.valid", [h] ->
      let b = bytes_of_hex h in
      both (ascii_Valid b) (ascii_ValidString b) ^ "\t" ^ tf (List.for_all is_ascii b)
  | "a.print", [h] ->
      let b = bytes_of_hex h in
      both (ascii_ValidPrint b) (ascii_ValidPrintString b) ^ "\t" ^ tf (List.for_all is_print b)
  | "a.fold", [x; y] ->
      let a = bytes_of_hex x and b = bytes_of_hex y in
      both (ascii_EqualFold a b) (ascii_EqualFoldString a b) ^ "\t" ^ tf (fold_eq a b)
  | "a.prefix", [x; y] ->
      let a = bytes_of_hex x and b = bytes_of_hex y in
      both (ascii_HasPrefixFold a b) (ascii_HasPrefixFoldString a b) ^ "\t" ^ tf (has_prefix_fold a b)
  | "a.suffix", [x; y] ->
      let a = bytes_of_hex x and b = bytes_of_hex y in
      both (ascii_HasSuffixFold a b) (ascii_HasSuffixFoldString a b) ^ "\t" ^ tf (has_suffix_fold a b)
  | "a.alias", [h; i1; j1; i2; j2] ->
      (* two windows of one buffer: the model has no notion of sharing, the windows are just two byte strings *)
      let buf = bytes_of_hex h in
      let sub i j = List.filteri (fun k _ -> k >= int_of_string i && k < int_of_string j) buf in
      let a = sub i1 j1 and b = sub i2 j2 in
      let e = tf (fold_eq a b) and p = tf (has_prefix_fold a b) and s = tf (has_suffix_fold a b) in
      (tf (ascii_EqualFold a b)) ^ (tf (ascii_EqualFoldString a b)) ^ (tf (ascii_HasPrefixFold a b)) ^ (tf (ascii_HasPrefixFoldString a b)) ^ (tf (ascii_HasSuffixFold a b)) ^ (tf (ascii_HasSuffixFoldString a b))
      ^ "\t" ^ e ^ e ^ p ^ p ^ s ^ s
  | "a.byte", [v] ->
      let n = int_of_string v in
      let z = z_of_int n in
      let bs = if n >= 0 && n < 256 then tf (ascii_ValidByte z) ^ tf (ascii_ValidPrintByte z) else "--" in
      bs ^ tf (ascii_ValidRune z) ^ tf (ascii_ValidPrintRune z) ^ "\t" ^
      (if n >= 0 && n < 256 then tf (is_ascii z) ^ tf (is_print z) else "--") ^ tf (is_ascii z) ^ tf (is_print z)
  | _ -> "unknown-fn"

let () =
  try
    while true do
      let line = input_line stdin in
      if String.length line > 200000 then print_endline "-\t-" else
      match split_on '\t' line with
      | fn :: args :: _ ->
          let r = (try (if String.length fn > 2 && String.sub fn 0 2 = "p." then proto_run fn args
                    else if String.length fn > 2 && String.sub fn 0 2 = "j." then json_run fn args
                    else if String.length fn > 2 && String.sub fn 0 2 = "t." then thrift_run fn args
                    else run fn (split_on ' ' args))
                   with e -> "model-exception:" ^ Printexc.to_string e) in
          print_endline r
      | _ -> print_endline "bad-line"
    done
  with End_of_file -> ()
