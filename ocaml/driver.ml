(* Driver for the extracted models: reads "<fn> TAB <args>" lines on stdin, prints one
   observable per line. Only conversions between OCaml values and the extracted inductives
   live here; all logic is the extracted Gallina. *)
open Model

let rec pos_of_int n =
  if n = 1 then XH else if n land 1 = 0 then XO (pos_of_int (n lsr 1)) else XI (pos_of_int (n lsr 1))
let z_of_int n = if n = 0 then Z0 else if n > 0 then Zpos (pos_of_int n) else Zneg (pos_of_int (-n))
let rec nat_of_int n = if n <= 0 then O else S (nat_of_int (n - 1))

(* decimal <-> Z without bounds *)
let z_of_string s =
  let neg = String.length s > 0 && s.[0] = '-' in
  let ten = z_of_int 10 in
  let acc = ref Z0 in
  String.iteri (fun i c -> if not (neg && i = 0) then
    acc := Z.add (Z.mul !acc ten) (z_of_int (Char.code c - 48))) s;
  if neg then Z.opp !acc else !acc

let dec_of_pos p =
  (* bits msb first *)
  let rec bits p acc = match p with XH -> 1 :: acc | XO q -> bits q (0 :: acc) | XI q -> bits q (1 :: acc) in
  let bs = bits p [] in
  let digits = ref [0] in (* little endian decimal *)
  List.iter (fun b ->
    let carry = ref b in
    digits := List.map (fun d -> let v = d * 2 + !carry in carry := v / 10; v mod 10) !digits;
    if !carry > 0 then digits := !digits @ [!carry]) bs;
  String.concat "" (List.rev_map string_of_int !digits)
let string_of_z = function Z0 -> "0" | Zpos p -> dec_of_pos p | Zneg p -> "-" ^ dec_of_pos p

let hexval c = match c with '0'..'9' -> Char.code c - 48 | 'a'..'f' -> Char.code c - 87 | _ -> failwith "hex"
let bytes_of_hex s =
  if s = "-" then [] else
  let n = String.length s / 2 in
  List.init n (fun i -> z_of_int (hexval s.[2*i] * 16 + hexval s.[2*i+1]))
let int_of_z z = int_of_string (string_of_z z)
let hex_of_bytes l =
  if l = [] then "-" else String.concat "" (List.map (fun z -> Printf.sprintf "%02x" (int_of_z z)) l)

let split_on c s = String.split_on_char c s

let time_obs ((sec, ns), off) = Printf.sprintf "ok %s %s %s" (string_of_z sec) (string_of_z ns) (string_of_z off)

let tf b = if b then "t" else "f"
let both x y = if x = y then tf x else "MODEL-VARIANTS-DIFFER"

let run fn args =
  match fn, args with
  | "parse", [h] ->
      let b = bytes_of_hex h in
      let (t, e) = iso8601_Parse b in
      let m1 = (match e with None -> time_obs t | Some _ -> "err") in
      let (t2, e2) = time_parse rfc3339nano_layout b in
      let m2 = (match e2 with None -> time_obs t2 | Some _ -> "err") in
      m1 ^ "\t" ^ m2
  | "valid", [h; f] ->
      let b = bytes_of_hex h in
      let fl = z_of_int (int_of_string f) in
      (match iso8601_Valid (nat_of_int 10) b fl with
       | None -> "outoffuel"
       | Some r -> (if r then "true" else "false")) ^ "\t" ^ (if iso_spec fl b then "true" else "false")
  | "a.valid", [h] ->
      let b = bytes_of_hex h in
      both (ascii_Valid b) (ascii_ValidString b) ^ "\t" ^ tf (List.for_all is_ascii b)
  | "a.print", [h] ->
      let b = bytes_of_hex h in
      both (ascii_ValidPrint b) (ascii_ValidPrintString b) ^ "\t" ^ tf (List.for_all is_print b)
  | "a.fold", [x; y] ->
      let a = bytes_of_hex x and b = bytes_of_hex y in
      both (ascii_EqualFold a b) (ascii_EqualFoldString a b) ^ "\t" ^ tf (fold_eq a b)
  | "a.prefix", [x; y] ->
      let a = bytes_of_hex x and b = bytes_of_hex y in
      both (ascii_HasPrefixFold a b) (ascii_HasPrefixFoldString a b) ^ "\t" ^ tf (has_prefix_fold a b)
  | "a.suffix", [x; y] ->
      let a = bytes_of_hex x and b = bytes_of_hex y in
      both (ascii_HasSuffixFold a b) (ascii_HasSuffixFoldString a b) ^ "\t" ^ tf (has_suffix_fold a b)
  | "a.byte", [v] ->
      let n = int_of_string v in
      let z = z_of_int n in
      let bs = if n >= 0 && n < 256 then tf (ascii_ValidByte z) ^ tf (ascii_ValidPrintByte z) else "--" in
      bs ^ tf (ascii_ValidRune z) ^ tf (ascii_ValidPrintRune z) ^ "\t" ^
      (if n >= 0 && n < 256 then tf (is_ascii z) ^ tf (is_print z) else "--") ^ tf (is_ascii z) ^ tf (is_print z)
  | _ -> "unknown-fn"

let () =
  try
    while true do
      let line = input_line stdin in
      match split_on '\t' line with
      | fn :: args :: _ -> print_endline (run fn (split_on ' ' args))
      | _ -> print_endline "bad-line"
    done
  with End_of_file -> ()
