(* Driver for the extracted models: reads "<fn> TAB <args>" lines on stdin, prints one
   observable per line. Only conversions between OCaml values and the extracted inductives
   live here; all logic is the extracted Gallina. *)
open Model_c12

let rec pos_of_int n =
  if n = 1 then XH else if n land 1 = 0 then XO (pos_of_int (n lsr 1)) else XI (pos_of_int (n lsr 1))
let z_of_int n = if n = 0 then Z0 else if n > 0 then Zpos (pos_of_int n) else Zneg (pos_of_int (-n))
let rec nat_of_int n = if n <= 0 then O else S (nat_of_int (n - 1))

(* decimal <-> Z without bounds *)
let z_of_string s =
  let neg = String.length s > 0 && s.[0] = '-' in
  let ten = z_of_int 10 in
  let acc = ref Z0 in
  String.iteri (fun i c -> if not (neg && i = 0) then
    acc := Z.add (Z.mul !acc ten) (z_of_int (Char.code c - 48))) s;
  if neg then Z.opp !acc else !acc

let dec_of_pos p =
  (* bits msb first *)
  let rec bits p acc = match p with XH -> 1 :: acc | XO q -> bits q (0 :: acc) | XI q -> bits q (1 :: acc) in
  let bs = bits p [] in
  let digits = ref [0] in (* little endian decimal *)
  List.iter (fun b ->
    let carry = ref b in
    digits := List.map (fun d -> let v = d * 2 + !carry in carry := v / 10; v mod 10) !digits;
    if !carry > 0 then digits := !digits @ [!carry]) bs;
  String.concat "" (List.rev_map string_of_int !digits)
let string_of_z = function Z0 -> "0" | Zpos p -> dec_of_pos p | Zneg p -> "-" ^ dec_of_pos p

let hexval c = match c with '0'..'9' -> Char.code c - 48 | 'a'..'f' -> Char.code c - 87 | _ -> failwith "hex"
let bytes_of_hex s =
  if s = "-" then [] else
  let n = String.length s / 2 in
  List.init n (fun i -> z_of_int (hexval s.[2*i] * 16 + hexval s.[2*i+1]))
let int_of_z z = int_of_string (string_of_z z)
let hex_of_bytes l =
  if l = [] then "-" else String.concat "" (List.map (fun z -> Printf.sprintf "%02x" (int_of_z z)) l)

let split_on c s = String.split_on_char c s

let time_obs ((sec, ns), off) = Printf.sprintf "ok %s %s %s" (string_of_z sec) (string_of_z ns) (string_of_z off)

let tf b = if b then "t" else "f"

(* ---- s-expressions shared with the Go harness (proto / thrift type and value descriptors) ---- *)
type sx = Atom of string | List of sx list
let parse_sx (s : string) : sx =
  let n = String.length s in
  let pos = ref 0 in
  let rec skip () = if !pos < n && s.[!pos] = ' ' then (incr pos; skip ()) in
  let rec one () =
    skip ();
    if s.[!pos] = '(' then begin
      incr pos;
      let items = ref [] in
      let rec loop () = skip (); if s.[!pos] = ')' then incr pos else (items := one () :: !items; loop ()) in
      loop (); List (List.rev !items)
    end else begin
      let st = !pos in
      while !pos < n && s.[!pos] <> ' ' && s.[!pos] <> '(' && s.[!pos] <> ')' do incr pos done;
      Atom (String.sub s st (!pos - st))
    end in
  one ()

let sub_from s i = String.sub s i (String.length s - i)
let hexpart a = bytes_of_hex (let h = sub_from a 2 in if h = "" then "-" else h)

let rec gty_of_sx (x : sx) : gty =
  match x with
  | Atom "bool" -> TBool | Atom "int" -> TInt | Atom "i32" -> TInt32 | Atom "i64" -> TInt64
  | Atom "uint" -> TUint | Atom "u32" -> TUint32 | Atom "u64" -> TUint64 | Atom "f32" -> TFloat32 | Atom "f64" -> TFloat64
  | Atom "str" -> TString | Atom "bytes" -> TBytes | Atom "raw" -> TRawMessage
  | List [Atom "arr"; Atom n] -> TByteArray (nat_of_int (int_of_string n))
  | List [Atom "ptr"; t] -> TPtr (gty_of_sx t)
  | List [Atom "slice"; t] -> TSlice (gty_of_sx t)
  | List [Atom "map"; k; v] -> TMap (gty_of_sx k, gty_of_sx v)
  | List (Atom "struct" :: fs) ->
      TStruct (List.map (fun f -> match f with
        | List [Atom "f"; Atom "-"; t] -> GField (true, None, gty_of_sx t)
        | List [Atom "f"; List [Atom "t"; Atom w; Atom n; Atom r; Atom z]; t] ->
            GField (true, Some { tag_wire = z_of_int (int_of_string w); tag_number = z_of_int (int_of_string n);
                                 tag_repeated = (r = "1"); tag_zigzag = (z = "1") }, gty_of_sx t)
        | _ -> failwith "bad field") fs)
  | _ -> failwith "bad type"

let rec val_of_sx (t : gty) (x : sx) : val0 =
  match t, x with
  | TBool, Atom a -> VBool (a = "t")
  | (TInt | TInt32 | TInt64 | TUint | TUint32 | TUint64 | TFloat32 | TFloat64), Atom a -> VInt (z_of_string a)
  | TString, Atom a -> VStr (hexpart a)
  | TBytes, Atom "nil" -> VBytes (false, [])
  | TBytes, Atom a -> VBytes (true, hexpart a)
  | TRawMessage, Atom "nil" -> VRaw (false, [])
  | TRawMessage, Atom a -> VRaw (true, hexpart a)
  | TByteArray _, Atom a -> VArr (hexpart a)
  | TPtr _, Atom "nil" -> VPtr None
  | TPtr t', List [Atom "p"; v] -> VPtr (Some (val_of_sx t' v))
  | TStruct fs, List (Atom "s" :: vs) -> VStruct (List.map2 (fun f v -> match f with GField (_, _, ft) -> val_of_sx ft v) fs vs)
  | TSlice t', List (Atom "l" :: vs) -> VSlice (List.map (val_of_sx t') vs)
  | TMap (_, _), Atom "nilmap" -> VMap (false, [])
  | TMap (kt, vt), List (Atom "m" :: es) ->
      VMap (true, List.map (fun e -> match e with List [k; v] -> (val_of_sx kt k, val_of_sx vt v) | _ -> failwith "bad entry") es)
  | _ -> failwith "bad value"

let hexstr l = String.concat "" (List.map (fun z -> Printf.sprintf "%02x" (int_of_z z)) l)
(* canonical text of a value: nil-vs-empty erased, map entries sorted (same as harness canon()) *)
let rec canon (v : val0) : string =
  match v with
  | VBool b -> if b then "t" else "f"
  | VInt z -> string_of_z z
  | VStr s -> "s:" ^ hexstr s
  | VBytes (_, s) -> "b:" ^ hexstr s
  | VRaw (_, s) -> "r:" ^ hexstr s
  | VArr s -> "a:" ^ hexstr s
  | VPtr None -> "nil"
  | VPtr (Some x) -> "(p " ^ canon x ^ ")"
  | VStruct vs -> "(s" ^ String.concat "" (List.map (fun x -> " " ^ canon x) vs) ^ ")"
  | VSlice vs -> "(l" ^ String.concat "" (List.map (fun x -> " " ^ canon x) vs) ^ ")"
  | VMap (_, es) ->
      let items = List.sort compare (List.map (fun (k, x) -> "(" ^ canon k ^ " " ^ canon x ^ ")") es) in
      "(m " ^ String.concat " " items ^ ")"

let split_bar s = String.split_on_char '|' s
let errclass (e : proto_error option) = match e with
  | None -> "nil" | Some Proto_ErrShortBuffer -> "short" | Some Proto_ErrUnexpectedEOF -> "eof" | Some _ -> "other"
let rec repeat_z n = if n <= 0 then [] else Z0 :: repeat_z (n - 1)
let big_fuel = nat_of_int 4000


(* ---- C12 ---- *)
let show_val (o : val0 option) = match o with Some r -> canon r | None -> "err"

let std_value t b =
  match spec_decode std (fields_of t) b with
  | Some m -> (match of_msg t m with Some r -> canon r | None -> "err:not-representable")
  | None -> "err"

let pkg_value t b =
  match unmarshal big_fuel t b (zero_val t) with
  | Ok (Some r) -> canon r
  | Ok None -> "err"
  | Panic -> "PANIC"
  | OutOfFuel -> "OUTOFFUEL"

(* the oracle's API (protoreflect) carries float32 values as float64: signalling NaNs come back quiet *)
let bit22 = z_of_int 4194304
let quiet32 z =
  let i = int_of_z z in
  if i land 0x7f800000 = 0x7f800000 && i land 0x007fffff <> 0 then z_of_int (i lor 0x00400000) else z
let rec quiet (t : gty) (v : val0) : val0 =
  match t, v with
  | TFloat32, VInt z -> VInt (quiet32 z)
  | TPtr t', VPtr (Some x) -> VPtr (Some (quiet t' x))
  | TStruct fs, VStruct vs -> VStruct (List.map2 (fun f x -> match f with GField (_, _, ft) -> quiet ft x) fs vs)
  | TSlice t', VSlice vs -> VSlice (List.map (quiet t') vs)
  | TMap (_, vt), VMap (nn, es) -> VMap (nn, List.map (fun (k, x) -> (k, quiet vt x)) es)
  | _, _ -> v
let std_value_quiet t b =
  match spec_decode std (fields_of t) b with
  | Some m -> (match of_msg t m with Some r -> canon (quiet t r) | None -> "err:not-representable")
  | None -> "err"

(* hypothesis zz_ok of the refinement theorem (defined in a proof file, hence restated here for the run-time check
   of the theorem's claim only): no zigzag tag on a field whose type is a struct or a pointer to a struct *)
let rec base_ty0 t = match t with TPtr t' -> base_ty0 t' | _ -> t
let rec zz_struct_ok (t : gty) : bool =
  match t with
  | TPtr t' | TSlice t' -> zz_struct_ok t'
  | TMap (k, v) -> zz_struct_ok k && zz_struct_ok v
  | TStruct fs ->
      List.for_all (fun f -> match f with GField (_, tag, ft) ->
        let zz = (match tag with Some tg -> tg.tag_zigzag | None -> false) in
        not (zz && (match base_ty0 ft with TStruct _ -> true | _ -> false)) && zz_struct_ok ft) fs
  | _ -> true

let starts_with p s = String.length s >= String.length p && String.sub s 0 (String.length p) = p

let c12_run fn argstr =
  if starts_with "w.std" fn then begin
    match split_bar argstr with
    | [ts; vs] ->
        let t = gty_of_sx (parse_sx ts) in
        let v = val_of_sx t (parse_sx vs) in
        (match marshal (TPtr t) (VPtr (Some v)) with
         | Ok (Some b) -> std_value t b
         | Ok None -> "err:marshal"
         | _ -> "PANIC") ^ "\t-"
    | _ -> "bad-args\t-"
  end else if starts_with "w.dec" fn then begin
    match split_bar argstr with
    | [ts; h] ->
        let t = gty_of_sx (parse_sx ts) in
        let b = bytes_of_hex h in
        let p = pkg_value t b in
        (* the claim of unmarshal_refines_statement, checked on this input: whenever the package dialect of the
           transcribed decoder accepts, the model of the package decoder returns the same value *)
        let p =
          if plain t && tags_sane t && zz_struct_ok t && type_ok t && numbers_ok (codec_of t) then
            (match spec_decode pkgd (fields_of t) b with
             | Some m ->
                 (match of_msg t m with
                  | Some r -> if canon r = p then p else p ^ " DIALECT-MISMATCH:" ^ canon r
                  | None -> p ^ " DIALECT-MISMATCH:not-representable")
             | None -> p)
          else p in
        p ^ "\t" ^ std_value t b
    | _ -> "bad-args\t-"
  end else if fn = "o.dec" then begin
    match split_bar argstr with
    | [ts; h] ->
        let t = gty_of_sx (parse_sx ts) in
        std_value_quiet t (bytes_of_hex h) ^ "\t-"
    | _ -> "bad-args\t-"
  end else "-\t-"

let () =
  try
    while true do
      let line = input_line stdin in
      match split_on '\t' line with
      | fn :: args :: _ ->
          let r = (try c12_run fn args with e -> "model-exception:" ^ Printexc.to_string e ^ "\t-") in
          print_endline r
      | _ -> print_endline "bad-line\t-"
    done
  with End_of_file -> ()
