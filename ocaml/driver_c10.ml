(* Driver for the extracted C10 memory model: reads "<fn> TAB <args>" lines, prints
   "<model of impl> TAB <model of oracle>". Only conversions live here; the logic is extracted Gallina. *)
open Model_c10

let rec pos_of_int n =
  if n = 1 then XH else if n land 1 = 0 then XO (pos_of_int (n lsr 1)) else XI (pos_of_int (n lsr 1))
let z_of_int n = if n = 0 then Z0 else if n > 0 then Zpos (pos_of_int n) else Zneg (pos_of_int (-n))

let hexval c = match c with '0'..'9' -> Char.code c - 48 | 'a'..'f' -> Char.code c - 87 | _ -> failwith "hex"
let bytes_of_hex s =
  if s = "-" then [] else
  let n = String.length s / 2 in
  List.init n (fun i -> z_of_int (hexval s.[2*i] * 16 + hexval s.[2*i+1]))

type sx = Atom of string | List of sx list
let parse_sx (s : string) : sx =
  let n = String.length s in
  let pos = ref 0 in
  let rec skip () = if !pos < n && s.[!pos] = ' ' then (incr pos; skip ()) in
  let rec one () =
    skip ();
    if s.[!pos] = '(' then begin
      incr pos;
      let items = ref [] in
      let rec loop () = skip (); if s.[!pos] = ')' then incr pos else (items := one () :: !items; loop ()) in
      loop (); List (List.rev !items)
    end else begin
      let st = !pos in
      while !pos < n && s.[!pos] <> ' ' && s.[!pos] <> '(' && s.[!pos] <> ')' do incr pos done;
      Atom (String.sub s st (!pos - st))
    end in
  one ()

let rec g_of_sx (x : sx) : gtree =
  match x with
  | List [Atom "s"; Atom h] -> GStr (bytes_of_hex h)
  | List [Atom "n"; Atom h] -> GNum (bytes_of_hex h)
  | List [Atom "lit"; Atom h] -> GLit (bytes_of_hex h)
  | List (Atom "arr" :: kids) -> GArr (List.map g_of_sx kids)
  | List (Atom "obj" :: ents) ->
      GObj (List.map (function List [Atom "e"; Atom k; g] -> (bytes_of_hex k, g_of_sx g) | _ -> failwith "obj entry") ents)
  | _ -> failwith "gtree"

let rec d_of_sx (x : sx) : dtree =
  match x with
  | List [Atom "str"; Atom h] -> DStr (bytes_of_hex h)
  | List [Atom "num"; Atom h] -> DNum (bytes_of_hex h)
  | List [Atom "bytes"; Atom h] -> DBytes (bytes_of_hex h)
  | List [Atom "sc"; Atom h] -> DSc (bytes_of_hex h)
  | List [Atom "qstr"; Atom o; Atom i] -> DQStr (bytes_of_hex o, bytes_of_hex i)
  | List [Atom "qnum"; Atom o; Atom i] -> DQNum (bytes_of_hex o, bytes_of_hex i)
  | List [Atom "raw"; g] -> DRaw (g_of_sx g)
  | List [Atom "any"; g] -> DAny (g_of_sx g)
  | List (Atom "list" :: kids) -> DList (List.map d_of_sx kids)
  | List (Atom "map" :: ents) ->
      DMap (List.map (function
        | List [Atom kk; Atom k; _; d] -> ((kk = "skey", bytes_of_hex k), d_of_sx d)
        | _ -> failwith "map entry") ents)
  | List (Atom "struct" :: ents) ->
      (* members that match no field are skipped by the decoder: they produce nothing *)
      DStruct (List.filter_map (function
        | List [Atom "f"; _; _; d] -> Some (d_of_sx d)
        | List (Atom "u" :: _) -> None
        | _ -> failwith "struct entry") ents)
  | _ -> failwith "dtree"

let kind_name = function
  | KStr -> "s" | KNum -> "n" | KRaw -> "r" | KBytes -> "b" | KKey -> "k" | KQStr -> "qs" | KQNum -> "qn"
  | KIStr -> "is" | KINum -> "in" | KIKey -> "ik" | KTok -> "t"

let letters (src : string) (ls : (lkind * prov) list) : string =
  if ls = [] then "none" else
  String.concat " " (List.map (fun (k, p) ->
    kind_name k ^ ":" ^ (match p with PSrc -> src | PFresh -> "F" | PEmpty -> "E")) ls)

let split_on c s = String.split_on_char c s

let handle fn args =
  match fn with
  | "m.alias" ->
      (match split_on '|' args with
       | [_entry; flags; _capm; _ws; _ty; tree] ->
           letters "I" (leaves (z_of_int (int_of_string flags)) (d_of_sx (parse_sx tree))) ^ "\t-"
       | _ -> "bad-args\t-")
  | "m.dalias" ->
      (match split_on '|' args with
       | flags :: _mode :: _ws :: _ty :: docs ->
           let fl = z_of_int (int_of_string flags) in
           String.concat " / " (List.map (fun d ->
             match split_on ';' d with
             | tree :: _ -> letters "D" (leaves fl (d_of_sx (parse_sx tree)))
             | _ -> "bad-doc") docs) ^ "\t-"
       | _ -> "bad-args\t-")
  | "m.tok" ->
      (match split_on '|' args with
       | [_ws; g] -> letters "I" (g_tok_strings (g_of_sx (parse_sx g))) ^ "\t-"
       | _ -> "bad-args\t-")
  | _ -> "-\t-"

let () =
  try
    while true do
      let line = input_line stdin in
      (match String.index_opt line '\t' with
       | Some i ->
           let fn = String.sub line 0 i and args = String.sub line (i + 1) (String.length line - i - 1) in
           print_string (try handle fn args with e -> "model-exn:" ^ Printexc.to_string e ^ "\t-")
       | None -> print_string "-\t-");
      print_newline ()
    done
  with End_of_file -> ()
