(* Driver for the extracted C01/C02 scalar-core models: reads "<fn> TAB <args>" lines on stdin and prints
   "<model of the implementation> TAB <model of the oracle>" per line ("-" where the model has nothing to say:
   the cases of the main C01/C02 harnesses that exercise the reflection-driven encoder/decoder).
   Only conversions live here; all logic is the extracted Gallina. *)
open Model_c01

let rec pos_of_int n =
  if n = 1 then XH else if n land 1 = 0 then XO (pos_of_int (n lsr 1)) else XI (pos_of_int (n lsr 1))
let z_of_int n = if n = 0 then Z0 else if n > 0 then Zpos (pos_of_int n) else Zneg (pos_of_int (-n))
let rec nat_of_int n = if n <= 0 then O else S (nat_of_int (n - 1))

let z_of_string s =
  let neg = String.length s > 0 && s.[0] = '-' in
  let ten = z_of_int 10 in
  let acc = ref Z0 in
  String.iteri (fun i c -> if not (neg && i = 0) then
    acc := Z.add (Z.mul !acc ten) (z_of_int (Char.code c - 48))) s;
  if neg then Z.opp !acc else !acc

let dec_of_pos p =
  let rec bits p acc = match p with XH -> 1 :: acc | XO q -> bits q (0 :: acc) | XI q -> bits q (1 :: acc) in
  let bs = bits p [] in
  let digits = ref [0] in
  List.iter (fun b ->
    let carry = ref b in
    digits := List.map (fun d -> let v = d * 2 + !carry in carry := v / 10; v mod 10) !digits;
    if !carry > 0 then digits := !digits @ [!carry]) bs;
  String.concat "" (List.rev_map string_of_int !digits)
let string_of_z = function Z0 -> "0" | Zpos p -> dec_of_pos p | Zneg p -> "-" ^ dec_of_pos p

let rec int_of_pos = function XH -> 1 | XO q -> 2 * int_of_pos q | XI q -> 2 * int_of_pos q + 1
let int_of_z = function Z0 -> 0 | Zpos p -> int_of_pos p | Zneg p -> - (int_of_pos p)

let hexval c = match c with '0'..'9' -> Char.code c - 48 | 'a'..'f' -> Char.code c - 87 | _ -> failwith "hex"
let bytes_of_hex s =
  if s = "-" then [] else
  let n = String.length s / 2 in
  List.init n (fun i -> z_of_int (hexval s.[2*i] * 16 + hexval s.[2*i+1]))
let hex_of_bytes l =
  if l = [] then "-" else String.concat "" (List.map (fun z -> Printf.sprintf "%02x" (int_of_z z)) l)

let hex_opt = function Some b -> hex_of_bytes b | None -> "OUTOFFUEL"

let show_str (r : bytes sres) : string =
  match r with
  | SOk (v, _) -> "ok " ^ hex_of_bytes v
  | SNull _ -> "null"
  | SErr -> "err"
  | SFuel -> "OUTOFFUEL"
let show_int (r : z sres) : string =
  match r with
  | SOk (v, _) -> "ok " ^ string_of_z v
  | SNull _ -> "null"
  | SErr -> "err"
  | SFuel -> "OUTOFFUEL"

let ity_of_string = function
  | "int" | "int64" -> ISigned (z_of_int 64)
  | "int8" -> ISigned (z_of_int 8)
  | "int16" -> ISigned (z_of_int 16)
  | "int32" -> ISigned (z_of_int 32)
  | "uint" | "uint64" | "uintptr" -> IUnsigned (z_of_int 64)
  | "uint8" -> IUnsigned (z_of_int 8)
  | "uint16" -> IUnsigned (z_of_int 16)
  | "uint32" -> IUnsigned (z_of_int 32)
  | s -> failwith ("type " ^ s)

let both s = s ^ "\t" ^ s

(* floats *)
let z_of_hex s =
  let sixteen = z_of_int 16 in
  let acc = ref Z0 in
  String.iter (fun c -> acc := Z.add (Z.mul !acc sixteen) (z_of_int (hexval c))) s;
  !acc
let show_f (r : fres) : string = match fres_obs r with Some b -> hex_of_bytes b | None -> "err"
(* stands for strconv.AppendFloat on the float of the case: appends the text the harness recorded for the format *)
let af_of (e : bytes) (f : bytes) : bytes -> float_repr -> z -> z -> bytes =
  fun dst _ fmt _ -> dst @ (match int_of_z fmt with 101 -> e | 102 -> f | _ -> [])

let run fn (args : string list) : string =
  match fn, args with
  | ("s.esc" | "j.escape"), [h] ->   (* j.escape: the Escape/AppendEscape cases of the main C01 harness, same observable *)
      let s = bytes_of_hex h in
      hex_opt (escape_flags (z_of_int 1) s) ^ " " ^ hex_opt (escape_flags Z0 s)
      ^ "\t" ^ hex_of_bytes (std_escape true s) ^ " " ^ hex_of_bytes (std_escape false s)
  | "s.escf", [fl; h] ->
      let s = bytes_of_hex h and f = z_of_string fl in
      let html = (int_of_string fl) land 1 = 1 in
      hex_opt (escape_flags f s) ^ "\t" ^ hex_of_bytes (std_escape html s)
  | "s.unq", [h] ->
      let b = bytes_of_hex h in
      show_str (unmarshal_string b) ^ "\t" ^ show_str (spec_unmarshal_string b)
  | "s.unesc", [h] ->
      let b = bytes_of_hex h in
      hex_opt (append_unescape Z0 b) ^ "\t-"
  | "s.rt", [h] ->
      let s = bytes_of_hex h in
      (match escape_flags (z_of_int 3) s with
       | None -> "OUTOFFUEL"
       | Some e -> show_str (unmarshal_string e))
      ^ "\t" ^ "ok " ^ hex_of_bytes (sanitize s)
  | "s.sanitize", [h] ->
      let s = bytes_of_hex h in
      hex_of_bytes (coerce_utf8 s) ^ "\t" ^ hex_of_bytes (sanitize s)
  | "s.utf8dec", [h] ->
      let (r, n) = utf8_decode_rune (bytes_of_hex h) in
      both (string_of_z r ^ " " ^ string_of_z n)
  | "s.utf8enc", [r] -> both (hex_of_bytes (utf8_encode_rune (z_of_string r)))
  | "s.utf16", [r1; r2] ->
      let a = z_of_string r1 and b = z_of_string r2 in
      both ((if utf16_is_surrogate a then "true" else "false") ^ " " ^ string_of_z (utf16_decode_rune a b))
  | "s.int.enc", [ty; v] ->
      let z = z_of_string v in
      let m = (match ity_of_string ty with ISigned _ -> append_int [] z | IUnsigned _ -> append_uint [] z) in
      hex_opt m ^ "\t" ^ hex_of_bytes (z_to_dec z)
  | "s.int.dec", [ty; h] ->
      let t = ity_of_string ty and b = bytes_of_hex h in
      show_int (unmarshal_int t b) ^ "\t" ^ show_int (spec_unmarshal_int t b)
  (* kept from the main driver: the word scan of escapeIndex against the first byte that needs an escape *)
  | "j.escidx", [h; html] ->
      let b = bytes_of_hex h in
      let fuel = nat_of_int (List.length b + 2) in
      (match json_escapeIndex fuel b (html = "1") with None -> "OUTOFFUEL" | Some r -> string_of_z r)
      ^ "\t" ^ string_of_z (first_index (needs_escape_json (html = "1")) Z0 b)
  (* floats: the glue around strconv.AppendFloat. The harness prints what strconv.AppendFloat writes for the formats
     'e' and 'f'; the function handed to both glue models appends the one that the model asks for. Observable: the
     encoding into an empty buffer and into the buffer [e- *)
  | "s.float", [bits; u64; u32; he; hf] ->
      let fr = float_repr_of_bits (z_of_hex u64) (z_of_hex u32) in
      let af = af_of (bytes_of_hex he) (bytes_of_hex hf) in
      let pre = bytes_of_hex "5b652d" in
      let pkg dst = if bits = "32" then pkg_encode_float32 af dst fr else pkg_encode_float64 af dst fr in
      let std dst = std_float_encode af dst fr (z_of_string bits) false in
      show_f (pkg []) ^ " " ^ show_f (pkg pre) ^ "\t" ^ show_f (std []) ^ " " ^ show_f (std pre)
  (* the string option: only encoding/json's quoted path is modelled; {"f": before, } after *)
  | "s.floatq", [bits; u64; u32; he; hf] ->
      let fr = float_repr_of_bits (z_of_hex u64) (z_of_hex u32) in
      let af = af_of (bytes_of_hex he) (bytes_of_hex hf) in
      "-\t" ^ (match fres_obs (std_float_encode af (bytes_of_hex "7b2266223a") fr (z_of_string bits) true) with
               | Some b -> hex_of_bytes (b @ bytes_of_hex "7d")
               | None -> "err")
  | _ -> "-\t-"   (* not modelled here: compared with the oracle only *)

let () =
  try
    while true do
      let line = input_line stdin in
      if String.length line > 200000 then print_endline "-\t-" else
      match String.split_on_char '\t' line with
      | fn :: args :: _ ->
          let r = (try run fn (String.split_on_char ' ' args)
                   with e -> "model-exception:" ^ Printexc.to_string e ^ "\tmodel-exception") in
          print_endline r
      | _ -> print_endline "-\t-"
    done
  with End_of_file -> ()
