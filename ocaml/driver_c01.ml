(* Driver for the extracted C01/C02 scalar-core models: reads "<fn> TAB <args>" lines on stdin and prints
   "<model of the implementation> TAB <model of the oracle>" per line ("-" where the model has nothing to say:
   the cases of the main C01/C02 harnesses that exercise the reflection-driven encoder/decoder).
   Only conversions live here; all logic is the extracted Gallina. *)
open Model_c01

let rec pos_of_int n =
  if n = 1 then XH else if n land 1 = 0 then XO (pos_of_int (n lsr 1)) else XI (pos_of_int (n lsr 1))
let z_of_int n = if n = 0 then Z0 else if n > 0 then Zpos (pos_of_int n) else Zneg (pos_of_int (-n))
let rec nat_of_int n = if n <= 0 then O else S (nat_of_int (n - 1))

let z_of_string s =
  let neg = String.length s > 0 && s.[0] = '-' in
  let ten = z_of_int 10 in
  let acc = ref Z0 in
  String.iteri (fun i c -> if not (neg && i = 0) then
    acc := Z.add (Z.mul !acc ten) (z_of_int (Char.code c - 48))) s;
  if neg then Z.opp !acc else !acc

let dec_of_pos p =
  let rec bits p acc = match p with XH -> 1 :: acc | XO q -> bits q (0 :: acc) | XI q -> bits q (1 :: acc) in
  let bs = bits p [] in
  let digits = ref [0] in
  List.iter (fun b ->
    let carry = ref b in
    digits := List.map (fun d -> let v = d * 2 + !carry in carry := v / 10; v mod 10) !digits;
    if !carry > 0 then digits := !digits @ [!carry]) bs;
  String.concat "" (List.rev_map string_of_int !digits)
let string_of_z = function Z0 -> "0" | Zpos p -> dec_of_pos p | Zneg p -> "-" ^ dec_of_pos p

let rec int_of_pos = function XH -> 1 | XO q -> 2 * int_of_pos q | XI q -> 2 * int_of_pos q + 1
let int_of_z = function Z0 -> 0 | Zpos p -> int_of_pos p | Zneg p -> - (int_of_pos p)

let hexval c = match c with '0'..'9' -> Char.code c - 48 | 'a'..'f' -> Char.code c - 87 | _ -> failwith "hex"
let bytes_of_hex s =
  if s = "-" then [] else
  let n = String.length s / 2 in
  List.init n (fun i -> z_of_int (hexval s.[2*i] * 16 + hexval s.[2*i+1]))
let hex_of_bytes l =
  if l = [] then "-" else String.concat "" (List.map (fun z -> Printf.sprintf "%02x" (int_of_z z)) l)

let hex_opt = function Some b -> hex_of_bytes b | None -> "OUTOFFUEL"

let show_str (r : bytes sres) : string =
  match r with
  | SOk (v, _) -> "ok " ^ hex_of_bytes v
  | SNull _ -> "null"
  | SErr -> "err"
  | SFuel -> "OUTOFFUEL"
let show_int (r : z sres) : string =
  match r with
  | SOk (v, _) -> "ok " ^ string_of_z v
  | SNull _ -> "null"
  | SErr -> "err"
  | SFuel -> "OUTOFFUEL"

let ity_of_string = function
  | "int" | "int64" -> ISigned (z_of_int 64)
  | "int8" -> ISigned (z_of_int 8)
  | "int16" -> ISigned (z_of_int 16)
  | "int32" -> ISigned (z_of_int 32)
  | "uint" | "uint64" | "uintptr" -> IUnsigned (z_of_int 64)
  | "uint8" -> IUnsigned (z_of_int 8)
  | "uint16" -> IUnsigned (z_of_int 16)
  | "uint32" -> IUnsigned (z_of_int 32)
  | s -> failwith ("type " ^ s)

let both s = s ^ "\t" ^ s

(* floats *)
let z_of_hex s =
  let sixteen = z_of_int 16 in
  let acc = ref Z0 in
  String.iter (fun c -> acc := Z.add (Z.mul !acc sixteen) (z_of_int (hexval c))) s;
  !acc
let show_f (r : fres) : string = match fres_obs r with Some b -> hex_of_bytes b | None -> "err"
(* stands for strconv.AppendFloat on the float of the case: appends the text the harness recorded for the format *)
let af_of (e : bytes) (f : bytes) : bytes -> float_repr -> z -> z -> bytes =
  fun dst _ fmt _ -> dst @ (match int_of_z fmt with 101 -> e | 102 -> f | _ -> [])

let run fn (args : string list) : string =
  match fn, args with
  | ("s.esc" | "j.escape"), [h] ->   (* j.escape: the Escape/AppendEscape cases of the main C01 harness, same observable *)
      let s = bytes_of_hex h in
      hex_opt (escape_flags (z_of_int 1) s) ^ " " ^ hex_opt (escape_flags Z0 s)
      ^ "\t" ^ hex_of_bytes (std_escape true s) ^ " " ^ hex_of_bytes (std_escape false s)
  | "s.escf", [fl; h] ->
      let s = bytes_of_hex h and f = z_of_string fl in
      let html = (int_of_string fl) land 1 = 1 in
      hex_opt (escape_flags f s) ^ "\t" ^ hex_of_bytes (std_escape html s)
  | "s.unq", [h] ->
      let b = bytes_of_hex h in
      show_str (unmarshal_string b) ^ "\t" ^ show_str (spec_unmarshal_string b)
  | "s.unesc", [h] ->
      let b = bytes_of_hex h in
      hex_opt (append_unescape Z0 b) ^ "\t-"
  | "s.rt", [h] ->
      let s = bytes_of_hex h in
      (match escape_flags (z_of_int 3) s with
       | None -> "OUTOFFUEL"
       | Some e -> show_str (unmarshal_string e))
      ^ "\t" ^ "ok " ^ hex_of_bytes (sanitize s)
  | "s.sanitize", [h] ->
      let s = bytes_of_hex h in
      hex_of_bytes (coerce_utf8 s) ^ "\t" ^ hex_of_bytes (sanitize s)
  | "s.utf8dec", [h] ->
      let (r, n) = utf8_decode_rune (bytes_of_hex h) in
      both (string_of_z r ^ " " ^ string_of_z n)
  | "s.utf8enc", [r] -> both (hex_of_bytes (utf8_encode_rune (z_of_string r)))
  | "s.utf16", [r1; r2] ->
      let a = z_of_string r1 and b = z_of_string r2 in
      both ((if utf16_is_surrogate a then "true" else "false") ^ " " ^ string_of_z (utf16_decode_rune a b))
  | "s.int.enc", [ty; v] ->
      let z = z_of_string v in
      let m = (match ity_of_string ty with ISigned _ -> append_int [] z | IUnsigned _ -> append_uint [] z) in
      hex_opt m ^ "\t" ^ hex_of_bytes (z_to_dec z)
  | "s.int.dec", [ty; h] ->
      let t = ity_of_string ty and b = bytes_of_hex h in
      show_int (unmarshal_int t b) ^ "\t" ^ show_int (spec_unmarshal_int t b)
  (* kept from the main driver: the word scan of escapeIndex against the first byte that needs an escape *)
  | "j.escidx", [h; html] ->
      let b = bytes_of_hex h in
      let fuel = nat_of_int (List.length b + 2) in
      (match json_escapeIndex fuel b (html = "1") with None -> "OUTOFFUEL" | Some r -> string_of_z r)
      ^ "\t" ^ string_of_z (first_index (needs_escape_json (html = "1")) Z0 b)
  (* floats: the glue around strconv.AppendFloat. The harness prints what strconv.AppendFloat writes for the formats
     'e' and 'f'; the function handed to both glue models appends the one that the model asks for. Observable: the
     encoding into an empty buffer and into the buffer [e- *)
  | "s.float", [bits; u64; u32; he; hf] ->
      let fr = float_repr_of_bits (z_of_hex u64) (z_of_hex u32) in
      let af = af_of (bytes_of_hex he) (bytes_of_hex hf) in
      let pre = bytes_of_hex "5b652d" in
      let pkg dst = if bits = "32" then pkg_encode_float32 af dst fr else pkg_encode_float64 af dst fr in
      let std dst = std_float_encode af dst fr (z_of_string bits) false in
      show_f (pkg []) ^ " " ^ show_f (pkg pre) ^ "\t" ^ show_f (std []) ^ " " ^ show_f (std pre)
  (* the string option: only encoding/json's quoted path is modelled; {"f": before, } after *)
  | "s.floatq", [bits; u64; u32; he; hf] ->
      let fr = float_repr_of_bits (z_of_hex u64) (z_of_hex u32) in
      let af = af_of (bytes_of_hex he) (bytes_of_hex hf) in
      "-\t" ^ (match fres_obs (std_float_encode af (bytes_of_hex "7b2266223a") fr (z_of_string bits) true) with
               | Some b -> hex_of_bytes (b @ bytes_of_hex "7d")
               | None -> "err")
  | _ -> "-\t-"   (* not modelled here: compared with the oracle only *)

(* ---- the value-tree model of json.Marshal / json.Unmarshal (Json/TreeModel.v): cases j.tree.enc / j.tree.dec ---- *)
module Tree = struct


let rec pos_of_int n =
  if n = 1 then XH else if n land 1 = 0 then XO (pos_of_int (n lsr 1)) else XI (pos_of_int (n lsr 1))
let z_of_int n = if n = 0 then Z0 else if n > 0 then Zpos (pos_of_int n) else Zneg (pos_of_int (-n))
let rec nat_of_int n = if n <= 0 then O else S (nat_of_int (n - 1))

(* decimal <-> Z without bounds *)
let z_of_string s =
  let neg = String.length s > 0 && s.[0] = '-' in
  let ten = z_of_int 10 in
  let acc = ref Z0 in
  String.iteri (fun i c -> if not (neg && i = 0) then
    acc := Z.add (Z.mul !acc ten) (z_of_int (Char.code c - 48))) s;
  if neg then Z.opp !acc else !acc

let dec_of_pos p =
  let rec bits p acc = match p with XH -> 1 :: acc | XO q -> bits q (0 :: acc) | XI q -> bits q (1 :: acc) in
  let bs = bits p [] in
  let digits = ref [0] in (* little endian decimal *)
  List.iter (fun b ->
    let carry = ref b in
    digits := List.map (fun d -> let v = d * 2 + !carry in carry := v / 10; v mod 10) !digits;
    if !carry > 0 then digits := !digits @ [!carry]) bs;
  String.concat "" (List.rev_map string_of_int !digits)
let string_of_z = function Z0 -> "0" | Zpos p -> dec_of_pos p | Zneg p -> "-" ^ dec_of_pos p

let rec int_of_pos p = match p with XH -> 1 | XO q -> 2 * int_of_pos q | XI q -> 2 * int_of_pos q + 1
let int_of_z z = match z with Z0 -> 0 | Zpos p -> int_of_pos p | Zneg p -> - (int_of_pos p)

let hexval c = match c with '0'..'9' -> Char.code c - 48 | 'a'..'f' -> Char.code c - 87 | _ -> failwith "hex"
(* bytes 0..255 as shared Z values *)
let ztab = Array.init 256 z_of_int
let bytes_of_hex s =
  if s = "-" then [] else begin
    if String.length s land 1 = 1 then failwith "odd hex";
    let n = String.length s / 2 in
    List.init n (fun i -> ztab.(hexval s.[2*i] * 16 + hexval s.[2*i+1]))
  end
let add_hex b l = List.iter (fun z -> Buffer.add_string b (Printf.sprintf "%02x" (int_of_z z))) l
let hex_of_bytes l =
  if l = [] then "-" else begin
    let b = Buffer.create 64 in add_hex b l; Buffer.contents b
  end
let bytes_of_string s = List.init (String.length s) (fun i -> ztab.(Char.code s.[i]))

type sx = Atom of string | List of sx list
let parse_sx (s : string) : sx =
  let n = String.length s in
  let pos = ref 0 in
  let rec skip () = if !pos < n && s.[!pos] = ' ' then (incr pos; skip ()) in
  let rec one () =
    skip ();
    if !pos >= n then failwith "sx: end";
    if s.[!pos] = '(' then begin
      incr pos;
      let items = ref [] in
      let rec loop () =
        skip ();
        if !pos >= n then failwith "sx: end";
        if s.[!pos] = ')' then incr pos else (items := one () :: !items; loop ()) in
      loop (); List (List.rev !items)
    end else begin
      let st = !pos in
      while !pos < n && s.[!pos] <> ' ' && s.[!pos] <> '(' && s.[!pos] <> ')' do incr pos done;
      if !pos = st then failwith "sx: empty atom";
      Atom (String.sub s st (!pos - st))
    end in
  let r = one () in
  skip ();
  if !pos <> n then failwith "sx: trailing";
  r

(* ---- types ---- *)
let rec ty_of_sx (x : sx) : jty =
  match x with
  | Atom "bool" -> JBool
  | Atom "str" -> JStr
  | Atom "i8" -> JInt (true, z_of_int 8) | Atom "i16" -> JInt (true, z_of_int 16)
  | Atom "i32" -> JInt (true, z_of_int 32) | Atom "i64" -> JInt (true, z_of_int 64)
  | Atom "u8" -> JInt (false, z_of_int 8) | Atom "u16" -> JInt (false, z_of_int 16)
  | Atom "u32" -> JInt (false, z_of_int 32) | Atom "u64" -> JInt (false, z_of_int 64)
  | List [Atom "ptr"; t] -> JPtr (ty_of_sx t)
  | List [Atom "slice"; t] -> JSlice (ty_of_sx t)
  | List [Atom "arr"; Atom n; t] ->
      let k = int_of_string n in
      if k < 0 || k > 100000 then failwith "array length";
      JArr (nat_of_int k, ty_of_sx t)
  | List [Atom "map"; Atom "str"; t] -> JMap (ty_of_sx t)
  | List (Atom "struct" :: fs) -> JStruct (fields_of 0 fs)
  | _ -> failwith "bad type"
and fields_of (i : int) (fs : sx list) : jfields =
  match fs with
  | [] -> FNil
  | List [Atom "f"; Atom gname; Atom tag; t] :: r ->
      if gname <> "F" ^ string_of_int i then failwith "field name";
      let name, omit =
        match String.split_on_char ',' tag with
        | [n] -> (n, false)
        | [n; "omitempty"] -> (n, true)
        | _ -> failwith "bad tag" in
      FCons (bytes_of_string name, omit, ty_of_sx t, fields_of (i + 1) r)
  | _ -> failwith "bad field"

(* ---- values ---- *)
let is_dec s =
  let n = String.length s in
  let st = if n > 0 && s.[0] = '-' then 1 else 0 in
  n > st && (let ok = ref true in for i = st to n - 1 do if s.[i] < '0' || s.[i] > '9' then ok := false done; !ok)

let rec val_of_sx (x : sx) : jval =
  match x with
  | Atom "true" -> VBool true
  | Atom "false" -> VBool false
  | Atom "nil" -> VNil
  | Atom a when a.[0] = 'x' -> VStr (bytes_of_hex (String.sub a 1 (String.length a - 1)))
  | Atom a when is_dec a -> VInt (z_of_string a)
  | List [Atom "p"; v] -> VPtr (val_of_sx v)
  | List (Atom "l" :: vs) -> VList (List.map val_of_sx vs)
  | List (Atom "st" :: vs) -> VStruct (List.map val_of_sx vs)
  | List (Atom "m" :: es) ->
      VMap (List.map (function
        | List [Atom k; v] when k.[0] = 'x' -> (bytes_of_hex (String.sub k 1 (String.length k - 1)), val_of_sx v)
        | _ -> failwith "bad map entry") es)
  | _ -> failwith "bad value"

let rec add_val (b : Buffer.t) (v : jval) : unit =
  match v with
  | VBool true -> Buffer.add_string b "true"
  | VBool false -> Buffer.add_string b "false"
  | VInt z -> Buffer.add_string b (string_of_z z)
  | VStr s -> Buffer.add_char b 'x'; add_hex b s
  | VNil -> Buffer.add_string b "nil"
  | VPtr v' -> Buffer.add_string b "(p "; add_val b v'; Buffer.add_char b ')'
  | VList l -> Buffer.add_string b "(l"; List.iter (fun e -> Buffer.add_char b ' '; add_val b e) l; Buffer.add_char b ')'
  | VStruct l -> Buffer.add_string b "(st"; List.iter (fun e -> Buffer.add_char b ' '; add_val b e) l; Buffer.add_char b ')'
  | VMap m ->
      Buffer.add_string b "(m";
      List.iter (fun (k, e) -> Buffer.add_string b " (x"; add_hex b k; Buffer.add_char b ' '; add_val b e; Buffer.add_char b ')') m;
      Buffer.add_char b ')'

let string_of_val v = let b = Buffer.create 256 in add_val b v; Buffer.contents b

(* split at the first bar *)
let split_bar s =
  match String.index_opt s '|' with
  | None -> failwith "no bar"
  | Some i -> (String.sub s 0 i, String.sub s (i + 1) (String.length s - i - 1))

let tree_run fn args =
  match fn with
  | "j.tree.enc" ->
      let ts, vs = split_bar args in
      let t = ty_of_sx (parse_sx ts) in
      let v = val_of_sx (parse_sx vs) in
      if ty_ok t && jwf t v then hex_of_bytes (jenc t v) else "-"
  | "j.tree.dec" | "j.tree.dec.pp" ->
      let ts, hs = split_bar args in
      let t = ty_of_sx (parse_sx ts) in
      if not (ty_ok t) then "-" else begin
        let doc = bytes_of_hex hs in
        match jdec (jdec_fuel doc) t doc with
        | DOk v -> string_of_val v
        | DErr -> "err"
        | DOut -> "-"
      end
  | _ -> "-"


end

let () =
  try
    while true do
      let line = input_line stdin in
      if String.length line > 200000 then print_endline "-\t-" else
      match String.split_on_char '\t' line with
      | fn :: args :: _ when String.length fn > 7 && String.sub fn 0 7 = "j.tree." ->
          let r = (try Tree.tree_run fn args with _ -> "-") in
          (* the model follows the package; on the recorded deviation F31 (fn suffix .pp) it is not a model of encoding/json *)
          print_string r; print_char '\t'; print_endline (if fn = "j.tree.dec.pp" then "-" else r)
      | fn :: args :: _ ->
          let r = (try run fn (String.split_on_char ' ' args)
                   with e -> "model-exception:" ^ Printexc.to_string e ^ "\tmodel-exception") in
          print_endline r
      | _ -> print_endline "-\t-"
    done
  with End_of_file -> ()
