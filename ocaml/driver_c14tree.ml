(* Driver for the extracted tree model with flags (Json/TreeFlagsModel.v): reads "<fn> TAB <args>" lines on stdin,
   prints "<model of impl> TAB <model of oracle>" per line (the same text in both columns).
   f.tree.enc: the bytes of jenc_f when SortMapKeys is set or no map of the value has two entries (then the order
   oracle has nothing to permute; rev_ord is used to make a wrong dependence on it visible), otherwise "-";
   f.tree.encsort: the bytes of jenc_f with the sorted order (what the permuted output must be after sorting);
   f.tree.dec: the rendering of jdec_f, "-" on DOut. Only conversions live here. *)
open Model_c14tree

let rec pos_of_int n =
  if n = 1 then XH else if n land 1 = 0 then XO (pos_of_int (n lsr 1)) else XI (pos_of_int (n lsr 1))
let z_of_int n = if n = 0 then Z0 else if n > 0 then Zpos (pos_of_int n) else Zneg (pos_of_int (-n))
let rec nat_of_int n = if n <= 0 then O else S (nat_of_int (n - 1))

(* decimal <-> Z without bounds *)
let z_of_string s =
  let neg = String.length s > 0 && s.[0] = '-' in
  let ten = z_of_int 10 in
  let acc = ref Z0 in
  String.iteri (fun i c -> if not (neg && i = 0) then
    acc := Z.add (Z.mul !acc ten) (z_of_int (Char.code c - 48))) s;
  if neg then Z.opp !acc else !acc

let dec_of_pos p =
  let rec bits p acc = match p with XH -> 1 :: acc | XO q -> bits q (0 :: acc) | XI q -> bits q (1 :: acc) in
  let bs = bits p [] in
  let digits = ref [0] in (* little endian decimal *)
  List.iter (fun b ->
    let carry = ref b in
    digits := List.map (fun d -> let v = d * 2 + !carry in carry := v / 10; v mod 10) !digits;
    if !carry > 0 then digits := !digits @ [!carry]) bs;
  String.concat "" (List.rev_map string_of_int !digits)
let string_of_z = function Z0 -> "0" | Zpos p -> dec_of_pos p | Zneg p -> "-" ^ dec_of_pos p

let rec int_of_pos p = match p with XH -> 1 | XO q -> 2 * int_of_pos q | XI q -> 2 * int_of_pos q + 1
let int_of_z z = match z with Z0 -> 0 | Zpos p -> int_of_pos p | Zneg p -> - (int_of_pos p)

let hexval c = match c with '0'..'9' -> Char.code c - 48 | 'a'..'f' -> Char.code c - 87 | _ -> failwith "hex"
(* bytes 0..255 as shared Z values *)
let ztab = Array.init 256 z_of_int
let bytes_of_hex s =
  if s = "-" then [] else begin
    if String.length s land 1 = 1 then failwith "odd hex";
    let n = String.length s / 2 in
    List.init n (fun i -> ztab.(hexval s.[2*i] * 16 + hexval s.[2*i+1]))
  end
let add_hex b l = List.iter (fun z -> Buffer.add_string b (Printf.sprintf "%02x" (int_of_z z))) l
let hex_of_bytes l =
  if l = [] then "-" else begin
    let b = Buffer.create 64 in add_hex b l; Buffer.contents b
  end
let bytes_of_string s = List.init (String.length s) (fun i -> ztab.(Char.code s.[i]))

type sx = Atom of string | List of sx list
let parse_sx (s : string) : sx =
  let n = String.length s in
  let pos = ref 0 in
  let rec skip () = if !pos < n && s.[!pos] = ' ' then (incr pos; skip ()) in
  let rec one () =
    skip ();
    if !pos >= n then failwith "sx: end";
    if s.[!pos] = '(' then begin
      incr pos;
      let items = ref [] in
      let rec loop () =
        skip ();
        if !pos >= n then failwith "sx: end";
        if s.[!pos] = ')' then incr pos else (items := one () :: !items; loop ()) in
      loop (); List (List.rev !items)
    end else begin
      let st = !pos in
      while !pos < n && s.[!pos] <> ' ' && s.[!pos] <> '(' && s.[!pos] <> ')' do incr pos done;
      if !pos = st then failwith "sx: empty atom";
      Atom (String.sub s st (!pos - st))
    end in
  let r = one () in
  skip ();
  if !pos <> n then failwith "sx: trailing";
  r

(* ---- types ---- *)
let rec ty_of_sx (x : sx) : jty =
  match x with
  | Atom "bool" -> JBool
  | Atom "str" -> JStr
  | Atom "i8" -> JInt (true, z_of_int 8) | Atom "i16" -> JInt (true, z_of_int 16)
  | Atom "i32" -> JInt (true, z_of_int 32) | Atom "i64" -> JInt (true, z_of_int 64)
  | Atom "u8" -> JInt (false, z_of_int 8) | Atom "u16" -> JInt (false, z_of_int 16)
  | Atom "u32" -> JInt (false, z_of_int 32) | Atom "u64" -> JInt (false, z_of_int 64)
  | List [Atom "ptr"; t] -> JPtr (ty_of_sx t)
  | List [Atom "slice"; t] -> JSlice (ty_of_sx t)
  | List [Atom "arr"; Atom n; t] ->
      let k = int_of_string n in
      if k < 0 || k > 100000 then failwith "array length";
      JArr (nat_of_int k, ty_of_sx t)
  | List [Atom "map"; Atom "str"; t] -> JMap (ty_of_sx t)
  | List (Atom "struct" :: fs) -> JStruct (fields_of 0 fs)
  | _ -> failwith "bad type"
and fields_of (i : int) (fs : sx list) : jfields =
  match fs with
  | [] -> FNil
  | List [Atom "f"; Atom gname; Atom tag; t] :: r ->
      if gname <> "F" ^ string_of_int i then failwith "field name";
      let name, omit =
        match String.split_on_char ',' tag with
        | [n] -> (n, false)
        | [n; "omitempty"] -> (n, true)
        | _ -> failwith "bad tag" in
      FCons (bytes_of_string name, omit, ty_of_sx t, fields_of (i + 1) r)
  | _ -> failwith "bad field"

(* ---- values ---- *)
let is_dec s =
  let n = String.length s in
  let st = if n > 0 && s.[0] = '-' then 1 else 0 in
  n > st && (let ok = ref true in for i = st to n - 1 do if s.[i] < '0' || s.[i] > '9' then ok := false done; !ok)

let rec val_of_sx (x : sx) : jval =
  match x with
  | Atom "true" -> VBool true
  | Atom "false" -> VBool false
  | Atom "nil" -> VNil
  | Atom a when a.[0] = 'x' -> VStr (bytes_of_hex (String.sub a 1 (String.length a - 1)))
  | Atom a when is_dec a -> VInt (z_of_string a)
  | List [Atom "p"; v] -> VPtr (val_of_sx v)
  | List (Atom "l" :: vs) -> VList (List.map val_of_sx vs)
  | List (Atom "st" :: vs) -> VStruct (List.map val_of_sx vs)
  | List (Atom "m" :: es) ->
      VMap (List.map (function
        | List [Atom k; v] when k.[0] = 'x' -> (bytes_of_hex (String.sub k 1 (String.length k - 1)), val_of_sx v)
        | _ -> failwith "bad map entry") es)
  | _ -> failwith "bad value"

let rec add_val (b : Buffer.t) (v : jval) : unit =
  match v with
  | VBool true -> Buffer.add_string b "true"
  | VBool false -> Buffer.add_string b "false"
  | VInt z -> Buffer.add_string b (string_of_z z)
  | VStr s -> Buffer.add_char b 'x'; add_hex b s
  | VNil -> Buffer.add_string b "nil"
  | VPtr v' -> Buffer.add_string b "(p "; add_val b v'; Buffer.add_char b ')'
  | VList l -> Buffer.add_string b "(l"; List.iter (fun e -> Buffer.add_char b ' '; add_val b e) l; Buffer.add_char b ')'
  | VStruct l -> Buffer.add_string b "(st"; List.iter (fun e -> Buffer.add_char b ' '; add_val b e) l; Buffer.add_char b ')'
  | VMap m ->
      Buffer.add_string b "(m";
      List.iter (fun (k, e) -> Buffer.add_string b " (x"; add_hex b k; Buffer.add_char b ' '; add_val b e; Buffer.add_char b ')') m;
      Buffer.add_char b ')'

let string_of_val v = let b = Buffer.create 256 in add_val b v; Buffer.contents b

(* split at the first bar *)
let split_bar s =
  match String.index_opt s '|' with
  | None -> failwith "no bar"
  | Some i -> (String.sub s 0 i, String.sub s (i + 1) (String.length s - i - 1))

(* split at the first and the last bar *)
let split3 s =
  let a, r = split_bar s in
  match String.rindex_opt r '|' with
  | None -> failwith "no second bar"
  | Some i -> (a, String.sub r 0 i, String.sub r (i + 1) (String.length r - i - 1))

let run fn args =
  match fn with
  | "f.tree.enc" | "f.tree.encsort" ->
      let ts, vs, fs = split3 args in
      let t = ty_of_sx (parse_sx ts) in
      let v = val_of_sx (parse_sx vs) in
      let fl = int_of_string fs in
      let html = fl land 1 <> 0 and sorted = fl land 2 <> 0 in
      if not (ty_ok t && jwf t v) then "-"
      else if fn = "f.tree.encsort" then hex_of_bytes (jenc_f html sorted_ord t v)
      else if sorted then hex_of_bytes (jenc_f html sorted_ord t v)
      else if small_maps t v then hex_of_bytes (jenc_f html rev_ord t v)
      else "-"
  | "f.tree.dec" | "f.tree.dec.pp" ->
      let ts, hs, fs = split3 args in
      let t = ty_of_sx (parse_sx ts) in
      if not (ty_ok t) then "-" else begin
        let doc = bytes_of_hex hs in
        let nocase = String.contains fs 'c' and strict = String.contains fs 'u' in
        match jdec_f nocase strict (jdec_fuel doc) t doc with
        | DOk v -> string_of_val v
        | DErr -> "err"
        | DOut -> "-"
      end
  | _ -> "-"

let () =
  try
    while true do
      let line = input_line stdin in
      let r =
        match String.split_on_char '\t' line with
        | fn :: args :: _ -> (try run fn args with _ -> "-")
        | _ -> "-" in
      print_string r; print_char '\t'; print_endline r
    done
  with End_of_file -> ()
