(* Driver for the extracted rewriter model (C19): reads "<fn> TAB <args>" lines on stdin, prints
   "<model of impl> TAB <model of oracle>" per line. Only conversions live here. *)
open Model_c19

let rec pos_of_int n =
  if n = 1 then XH else if n land 1 = 0 then XO (pos_of_int (n lsr 1)) else XI (pos_of_int (n lsr 1))
let z_of_int n = if n = 0 then Z0 else if n > 0 then Zpos (pos_of_int n) else Zneg (pos_of_int (-n))

let z_of_string s =
  let neg = String.length s > 0 && s.[0] = '-' in
  let ten = z_of_int 10 in
  let acc = ref Z0 in
  String.iteri (fun i c -> if not (neg && i = 0) then
    acc := Z.add (Z.mul !acc ten) (z_of_int (Char.code c - 48))) s;
  if neg then Z.opp !acc else !acc

let rec int_of_pos p = match p with XH -> 1 | XO q -> 2 * int_of_pos q | XI q -> 2 * int_of_pos q + 1
let int_of_z z = match z with Z0 -> 0 | Zpos p -> int_of_pos p | Zneg p -> - (int_of_pos p)

let hexval c = match c with '0'..'9' -> Char.code c - 48 | 'a'..'f' -> Char.code c - 87 | _ -> failwith "hex"
let bytes_of_hex s =
  if s = "-" then [] else
  let n = String.length s / 2 in
  List.init n (fun i -> z_of_int (hexval s.[2*i] * 16 + hexval s.[2*i+1]))
let hex_of_bytes l =
  if l = [] then "-" else begin
    let b = Buffer.create 64 in
    List.iter (fun z -> Buffer.add_string b (Printf.sprintf "%02x" (int_of_z z))) l;
    Buffer.contents b
  end

type sx = Atom of string | List of sx list
let parse_sx (s : string) : sx =
  let n = String.length s in
  let pos = ref 0 in
  let rec skip () = if !pos < n && s.[!pos] = ' ' then (incr pos; skip ()) in
  let rec one () =
    skip ();
    if s.[!pos] = '(' then begin
      incr pos;
      let items = ref [] in
      let rec loop () = skip (); if s.[!pos] = ')' then incr pos else (items := one () :: !items; loop ()) in
      loop (); List (List.rev !items)
    end else begin
      let st = !pos in
      while !pos < n && s.[!pos] <> ' ' && s.[!pos] <> '(' && s.[!pos] <> ')' do incr pos done;
      Atom (String.sub s st (!pos - st))
    end in
  one ()

let gokind_of = function
  | "int" -> GInt | "i32" -> GInt32 | "i64" -> GInt64 | "uint" -> GUint | "u32" -> GUint32 | "u64" -> GUint64
  | _ -> failwith "gokind"
let pbkind_of = function
  | "int32" -> KInt32 | "int64" -> KInt64 | "sint32" -> KSint32 | "sint64" -> KSint64 | "uint32" -> KUint32 | "uint64" -> KUint64
  | "fix32" -> KFix32 | "fix64" -> KFix64 | "sfix32" -> KSfix32 | "sfix64" -> KSfix64
  | _ -> failwith "pbkind"

let rec rw_of_sx (x : sx) : rewriter =
  match x with
  | List [Atom "raw"; Atom h] -> RwRaw (bytes_of_hex h)
  | List (Atom "multi" :: rs) -> RwMulti (List.map rw_of_sx rs)
  | List (Atom "msg" :: Atom n :: es) -> RwMessage (z_of_string n, List.map entry es)
  | List (Atom "emb" :: Atom f :: Atom n :: es) -> RwEmbedded (z_of_string f, z_of_string n, List.map entry es)
  | List [Atom "bitor"; Atom g; Atom k; Atom mask; Atom f] -> RwBitOr (gokind_of g, pbkind_of k, z_of_string mask, z_of_string f)
  | _ -> failwith "bad rewriter"
and entry (x : sx) : z * rewriter =
  match x with
  | List [Atom i; r] -> (z_of_string i, rw_of_sx r)
  | _ -> failwith "bad entry"

let errname = function
  | EEof -> "eof" | EVarintOverflow -> "varint-overflow" | EWireType -> "wiretype"
  | ETrailing -> "trailing"

let obs = function
  | ROk b -> "ok " ^ hex_of_bytes b
  | RErr e -> "err " ^ errname e
  | RPanic -> "panic"
  | RFuel -> "outoffuel"

let run fn args =
  match fn, String.split_on_char '|' args with
  | "rw.run", [rws; prefix; inp] ->
      let r = rw_of_sx (parse_sx rws) in
      obs (rewrite0 r (bytes_of_hex prefix) (bytes_of_hex inp)) ^ "\t-"
  | _ -> "-\t-"

let () =
  try
    while true do
      let line = input_line stdin in
      match String.split_on_char '\t' line with
      | fn :: args :: _ ->
          let base = if String.length fn >= 6 then String.sub fn 0 6 else fn in
          let r = (try run base args with e -> "model-exception:" ^ Printexc.to_string e ^ "\t-") in
          print_endline r
      | _ -> print_endline "bad-line\t-"
    done
  with End_of_file -> ()
