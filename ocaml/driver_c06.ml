(* C06 driver: runs the extracted cycle-detection model (Json/CycleModel.v encode, threshold 1000 as in
   json/codec.go) on the heap-graph descriptions the harness read back from the Go values it encoded.
   Input lines: fn TAB mode|root|builder-text|low-root|low-nodes   with low-nodes = node;node;... and
   node = kind letter (L leaf, P pointer, S slice, M map, I interface, T struct/array), comma separated child ids,
   optionally @label (the type the implementation names when this node closes a cycle; driver-side only).
   Output: model verdict for the implementation TAB model verdict for encoding/json (coarse). *)
open Model_c06

(* naturals are shared: nat_tab.(n) is S applied n times, built once *)
let nat_tab = let t = Array.make 200001 O in for i = 1 to 200000 do t.(i) <- S t.(i - 1) done; t
let nat_of_int n = if n <= 0 then O else nat_tab.(n)
let rec int_of_nat = function O -> 0 | S n -> 1 + int_of_nat n

let thr = 1000

let parse_node s =
  let body, label =
    match String.index_opt s '@' with
    | Some i -> (String.sub s 0 i, String.sub s (i + 1) (String.length s - i - 1))
    | None -> (s, "")
  in
  let kind =
    match body.[0] with
    | 'P' -> KPtr | 'S' -> KSlice | 'M' -> KMap | 'I' -> KIface | 'T' -> KStruct | 'L' -> KLeaf
    | _ -> failwith "bad node kind"
  in
  let rest = String.sub body 1 (String.length body - 1) in
  let kids = if rest = "" then [] else List.map (fun x -> nat_of_int (int_of_string x)) (String.split_on_char ',' rest) in
  ({ nkind = kind; nkids = kids }, label)

let verdict fine low_root low =
  let parsed = List.map parse_node (String.split_on_char ';' low) in
  let g = List.map fst parsed in
  let labels = Array.of_list (List.map snd parsed) in
  if not (wfb g) then "illformed"
  else begin
    let n = List.length g in
    let fuel = nat_of_int (8 * (n + thr) + 64) in
    match encode fuel g (nat_of_int thr) (nat_of_int low_root) with
    | Ok -> "ok"
    | OutOfFuel -> "out-of-fuel"
    | CycleAt k -> if fine then "cycle-error via " ^ labels.(int_of_nat k) else "cycle-error"
  end

let () =
  try
    while true do
      let line = input_line stdin in
      (match String.split_on_char '\t' line with
       | [ fn; args ] when fn = "e.graph" || fn = "e.graphk" ->
         (match String.split_on_char '|' args with
          | [ _mode; _root; _desc; lroot; low ] ->
            (try
               let fine = (fn = "e.graphk") in
               let v = verdict fine (int_of_string lroot) low in
               if fine then Printf.printf "%s\t-\n" v else Printf.printf "%s\t%s\n" v v
             with _ -> print_string "model-error\t-\n")
          | _ -> print_string "bad-args\t-\n")
       | _ -> print_string "-\t-\n")
    done
  with End_of_file -> ()
