(* Driver for the extracted C14 models: reads "<fn> TAB <args>" lines on stdin and prints
   "<model of the implementation> TAB <model of the oracle>" per line ("-" where the model has nothing to say).
   Only conversions live here; all logic is the extracted Gallina. The one external function of the model,
   strconv.ParseFloat(s, 64), is supplied by the C library's correctly rounded strtod (float_of_string). *)
open Model_c14

let rec pos_of_int n =
  if n = 1 then XH else if n land 1 = 0 then XO (pos_of_int (n lsr 1)) else XI (pos_of_int (n lsr 1))
let z_of_int n = if n = 0 then Z0 else if n > 0 then Zpos (pos_of_int n) else Zneg (pos_of_int (-n))

let dec_of_pos p =
  let rec bits p acc = match p with XH -> 1 :: acc | XO q -> bits q (0 :: acc) | XI q -> bits q (1 :: acc) in
  let bs = bits p [] in
  let digits = ref [0] in
  List.iter (fun b ->
    let carry = ref b in
    digits := List.map (fun d -> let v = d * 2 + !carry in carry := v / 10; v mod 10) !digits;
    if !carry > 0 then digits := !digits @ [!carry]) bs;
  String.concat "" (List.rev_map string_of_int !digits)
let string_of_z = function Z0 -> "0" | Zpos p -> dec_of_pos p | Zneg p -> "-" ^ dec_of_pos p

let rec int_of_pos = function XH -> 1 | XO q -> 2 * int_of_pos q | XI q -> 2 * int_of_pos q + 1
let int_of_z = function Z0 -> 0 | Zpos p -> int_of_pos p | Zneg p -> - (int_of_pos p)

let hexval c = match c with '0'..'9' -> Char.code c - 48 | 'a'..'f' -> Char.code c - 87 | _ -> failwith "hex"
let bytes_of_hex s =
  if s = "-" then [] else
  let n = String.length s / 2 in
  List.init n (fun i -> z_of_int (hexval s.[2*i] * 16 + hexval s.[2*i+1]))
let string_of_bytes l = String.concat "" (List.map (fun z -> String.make 1 (Char.chr (int_of_z z))) l)

(* Z of an int64 bit pattern taken as unsigned *)
let z_of_bits (x : int64) : z =
  let lo = Int64.to_int (Int64.logand x 0xFFFFFFFFL) in
  let hi = Int64.to_int (Int64.logand (Int64.shift_right_logical x 32) 0xFFFFFFFFL) in
  Z.add (Z.mul (z_of_int hi) (z_of_int 4294967296)) (z_of_int lo)

(* 16 hex digits of a 64-bit pattern held in a Z *)
let hex16_of_z (v : z) : string =
  let two32 = z_of_int 4294967296 in
  let hi = int_of_z (Z.div v two32) and lo = int_of_z (Z.modulo v two32) in
  Printf.sprintf "%08x%08x" hi lo

(* strconv.ParseFloat(s, 64) on a number literal: the nearest double, an error when it is out of range *)
let parse_float (b : bytes) : z option =
  match float_of_string_opt (string_of_bytes b) with
  | None -> None
  | Some f -> if Float.abs f = Float.infinity || Float.is_nan f then None else Some (z_of_bits (Int64.bits_of_float f))

let show (r : numres) : string =
  match r with
  | RUint64 v -> "uint64 " ^ string_of_z v
  | RInt64 v -> "int64 " ^ string_of_z v
  | RBigInt v -> "big " ^ string_of_z v
  | RNumber s -> "Number " ^ string_of_bytes s
  | RFloat64 f -> "float64 " ^ hex16_of_z f
  | RErr -> "err"
  | RFuel -> "OUT-OF-FUEL"

let () =
  try
    while true do
      let line = input_line stdin in
      let out =
        match String.index_opt line '\t' with
        | None -> "-\t-"
        | Some i ->
          let fn = String.sub line 0 i and args = String.sub line (i + 1) (String.length line - i - 1) in
          if fn = "f.num" then begin
            match String.split_on_char ' ' args with
            | [fl; _ctx; hex] ->
              let d = z_of_int (int_of_string fl) and lit = bytes_of_hex hex in
              (* the model is of the number case of decodeInterface: it speaks about number literals only *)
              (match g_number lit with
               | Some [] -> show (decode_number_literal parse_float d lit) ^ "\t" ^ show (num_spec parse_float d lit)
               | _ -> "-\t-")
            | _ -> "-\t-"
          end else "-\t-" in
      print_string out; print_newline ()
    done
  with End_of_file -> ()
