
type __ = Obj.t

val negb : bool -> bool

type nat =
| O
| S of nat

val fst : ('a1 * 'a2) -> 'a1

val length : 'a1 list -> nat

val app : 'a1 list -> 'a1 list -> 'a1 list

type comparison =
| Eq
| Lt
| Gt

val compOpp : comparison -> comparison

val id : __ -> __

val add : nat -> nat -> nat

type positive =
| XI of positive
| XO of positive
| XH

type n =
| N0
| Npos of positive

type z =
| Z0
| Zpos of positive
| Zneg of positive

module Nat :
 sig
  val eqb : nat -> nat -> bool
 end

module Pos :
 sig
  type mask =
  | IsNul
  | IsPos of positive
  | IsNeg
 end

module Coq_Pos :
 sig
  val succ : positive -> positive

  val add : positive -> positive -> positive

  val add_carry : positive -> positive -> positive

  val pred_double : positive -> positive

  val pred_N : positive -> n

  type mask = Pos.mask =
  | IsNul
  | IsPos of positive
  | IsNeg

  val succ_double_mask : mask -> mask

  val double_mask : mask -> mask

  val double_pred_mask : positive -> mask

  val sub_mask : positive -> positive -> mask

  val sub_mask_carry : positive -> positive -> mask

  val mul : positive -> positive -> positive

  val iter : ('a1 -> 'a1) -> 'a1 -> positive -> 'a1

  val div2 : positive -> positive

  val div2_up : positive -> positive

  val compare_cont : comparison -> positive -> positive -> comparison

  val compare : positive -> positive -> comparison

  val eqb : positive -> positive -> bool

  val coq_Nsucc_double : n -> n

  val coq_Ndouble : n -> n

  val coq_lor : positive -> positive -> positive

  val coq_land : positive -> positive -> n

  val ldiff : positive -> positive -> n

  val coq_lxor : positive -> positive -> n

  val iter_op : ('a1 -> 'a1 -> 'a1) -> positive -> 'a1 -> 'a1

  val to_nat : positive -> nat

  val of_succ_nat : nat -> positive
 end

module N :
 sig
  val succ_double : n -> n

  val double : n -> n

  val succ_pos : n -> positive

  val sub : n -> n -> n

  val compare : n -> n -> comparison

  val leb : n -> n -> bool

  val pos_div_eucl : positive -> n -> n * n

  val coq_lor : n -> n -> n

  val coq_land : n -> n -> n

  val ldiff : n -> n -> n

  val coq_lxor : n -> n -> n
 end

module Z :
 sig
  val double : z -> z

  val succ_double : z -> z

  val pred_double : z -> z

  val pos_sub : positive -> positive -> z

  val add : z -> z -> z

  val opp : z -> z

  val sub : z -> z -> z

  val mul : z -> z -> z

  val pow_pos : z -> positive -> z

  val pow : z -> z -> z

  val compare : z -> z -> comparison

  val leb : z -> z -> bool

  val ltb : z -> z -> bool

  val geb : z -> z -> bool

  val gtb : z -> z -> bool

  val eqb : z -> z -> bool

  val to_nat : z -> nat

  val of_nat : nat -> z

  val of_N : n -> z

  val pos_div_eucl : positive -> z -> z * z

  val div_eucl : z -> z -> z * z

  val modulo : z -> z -> z

  val quotrem : z -> z -> z * z

  val quot : z -> z -> z

  val div2 : z -> z

  val shiftl : z -> z -> z

  val coq_lor : z -> z -> z

  val coq_land : z -> z -> z

  val coq_lxor : z -> z -> z
 end

val nth : nat -> 'a1 list -> 'a1 -> 'a1

val nth_error : 'a1 list -> nat -> 'a1 option

val flat_map : ('a1 -> 'a2 list) -> 'a1 list -> 'a2 list

val firstn : nat -> 'a1 list -> 'a1 list

val skipn : nat -> 'a1 list -> 'a1 list

val w8 : z -> z

val w32 : z -> z

val w64 : z -> z

val s32 : z -> z

val s64 : z -> z

val add64 : z -> z -> z

val sub64 : z -> z -> z

val mul64 : z -> z -> z

val and64 : z -> z -> z

val or64 : z -> z -> z

val xor64 : z -> z -> z

val not64 : z -> z

val add32 : z -> z -> z

val sub32 : z -> z -> z

val mul32 : z -> z -> z

val and32 : z -> z -> z

val or32 : z -> z -> z

val not32 : z -> z

val shl32 : z -> z -> z

val sub8 : z -> z -> z

val addi64 : z -> z -> z

val divi64 : z -> z -> z

type bytes = z list

val len : 'a1 list -> z

val at_ : bytes -> z -> z

val slice_from : 'a1 list -> z -> 'a1 list

val slice_to : 'a1 list -> z -> 'a1 list

val slice : 'a1 list -> z -> z -> 'a1 list

val le_load : nat -> bytes -> z

val le64 : bytes -> z

val le32 : bytes -> z

val le16 : bytes -> z

val isnil : 'a1 option -> bool

val obind : 'a1 option -> ('a1 -> 'a2 option) -> 'a2 option

val ctz_pos : positive -> z

val ctz : z -> z -> z

type json_err =
| JErrSyntax
| JErrUnexpectedEOF
| JErrType
| JErrOverflow
| JErrOther

val index_byte_from : z -> bytes -> z -> z

val index_byte : bytes -> z -> z

val ctz64 : z -> z

val asm_hasLessConstL64 : z

val asm_hasLessConstR64 : z

val asm_hasLessConstL32 : z

val asm_hasLessConstR32 : z

val asm_hasMoreConstL64 : z

val asm_hasMoreConstR64 : z

val asm_hasMoreConstL32 : z

val asm_hasMoreConstR32 : z

val asm_hasLess64 : z -> z -> bool

val asm_hasLess32 : z -> z -> bool

val asm_hasMore64 : z -> z -> bool

val asm_hasMore32 : z -> z -> bool

val asm_ValidPrintString : nat -> bytes -> bool option

val asm_ValidPrint : nat -> bytes -> bool option

val run_fuel : bool option -> bool

val asmt_ValidPrint : bytes -> bool

val ascii_ValidPrint : bytes -> bool

val json_UseNumber : z

val json_DontCopyString : z

val json_DontCopyNumber : z

val json_DontCopyRawMessage : z

val json_validAsciiPrint : z

val json_noBackslash : z

val json_Undefined : z

val json_String : z

val json_Unescaped : z

val json_ParseFlags_has : z -> z -> bool

val json_decoder_parseUintHex : z -> bytes -> (z * bytes) * json_err option

val json_decoder_parseUnicode : z -> bytes -> (z * z) * json_err option

val json_decoder_parseString :
  nat -> z -> bytes -> (((bytes * bytes) * z) * json_err option) option

type prov =
| PSrc
| PFresh
| PEmpty

type buf =
| BSrc
| BNew

type lkind =
| KStr
| KNum
| KRaw
| KBytes
| KKey
| KQStr
| KQNum
| KIStr
| KINum
| KIKey
| KTok

val has : z -> z -> bool

val tok_unescaped : bytes -> bool

val tok_empty : bytes -> bool

val unquote : buf -> bytes -> buf * bool

val prov_of_buf : buf -> prov

val decode_string : z -> buf -> bytes -> prov

val decode_number : z -> buf -> prov

val decode_raw : z -> buf -> prov

val decode_bytes : bytes -> prov

val from_string : buf -> bytes -> buf

val tok_string : bytes -> prov

type gtree =
| GStr of bytes
| GNum of bytes
| GLit of bytes
| GArr of gtree list
| GObj of (bytes * gtree) list

type dtree =
| DStr of bytes
| DNum of bytes
| DBytes of bytes
| DSc of bytes
| DQStr of bytes * bytes
| DQNum of bytes * bytes
| DRaw of gtree
| DAny of gtree
| DList of dtree list
| DMap of ((bool * bytes) * dtree) list
| DStruct of dtree list

val g_leaves : z -> buf -> gtree -> (lkind * prov) list

val d_leaves : z -> buf -> dtree -> (lkind * prov) list

val leaves : z -> dtree -> (lkind * prov) list

val g_tok_strings : gtree -> (lkind * prov) list

val alias_flag : lkind -> z -> bool

type region =
| RInput of nat
| RDecBuf of nat * nat
| RPool of nat
| RFresh of nat

type event =
| EvWrite of nat * region
| EvGive of lkind * z * region * bool
| EvLend of nat * region
| EvUserWrite of region

type phase =
| PhGot
| PhAppended
| PhDone

type op =
| OGet of nat * nat option
| OAppend of nat * bool
| OCopyOut of nat
| OWriteOut of nat
| OPut of nat
| ODrop of nat
| OParse of nat * nat * z * dtree
| ODecRead of nat * nat * bool
| ODecode of nat * nat * z * dtree
| OTokString of nat * nat * bytes
| OUserWrite of region

type mstate = { next : nat; pool : nat list;
                held : (nat * (nat * phase)) list; decs : (nat * nat) list }

val init : mstate

val lookup : nat -> (nat * 'a1) list -> 'a1 option

val remove_key : nat -> (nat * 'a1) list -> (nat * 'a1) list

val set_key : nat -> 'a1 -> (nat * 'a1) list -> (nat * 'a1) list

val remove_nth : nat -> 'a1 list -> 'a1 list

val gen_of : nat -> mstate -> nat

val give :
  nat -> region -> z -> (lkind * prov) list -> nat -> event list ->
  nat * event list

val with_next : mstate -> nat -> mstate

val step : mstate -> op -> mstate * event list

val run : mstate -> event list -> op list -> mstate * event list
